//! Seeded, type-directed generators: Markdown documents (AST → text with varied source syntax),
//! libraries, histories.
use crate::rng::Rng;

#[derive(Clone, Debug)]
pub enum I {
    Word(String),
    Emph(Vec<I>),
    Strong(Vec<I>),
    Strike(Vec<I>),
    Code(String),
    Link { text: Vec<I>, url: String },
    Wiki { url: String, pipe: Option<String> },
    Image { alt: String, url: String },
    Auto(String),
}

#[derive(Clone, Debug)]
pub enum B {
    Para(Vec<I>),
    /// a paragraph of a tight list item written directly under a code block or heading of the item (no blank
    /// line before it): pulldown-cmark reports its text as bare inline events of the item
    TightPara(Vec<I>),
    /// a paragraph consisting of exactly one link: a block reference
    Ref { text: Vec<I>, url: String, wiki: Option<Option<String>> },
    Heading { level: u8, text: Vec<I>, setext: bool },
    Code { fenced: bool, lang: Option<String>, body: Vec<String> },
    Rule(&'static str),
    Quote(Vec<B>),
    List { ordered: bool, marker: char, start: usize, loose: bool, items: Vec<Vec<B>> },
    Table { head: Vec<String>, align: Vec<u8>, rows: Vec<Vec<String>> },
    Html(String),
}

#[derive(Clone)]
pub struct Profile {
    /// stay inside the well-formedness class of the `_partial` theorems (no construct of D8–D11, D21)
    pub wf: bool,
    pub max_blocks: usize,
    pub max_depth: usize,
    /// link targets to draw from (keys relative to the library root)
    pub keys: Vec<String>,
    /// directory of the note being generated (links are written relative to it)
    pub dir: String,
    pub tables: bool,
    /// table cells may hold inline markup (emphasis, code, links, images); otherwise plain words (what the model renders)
    pub table_markup: bool,
    pub refs: bool,
    /// links inside paragraphs / headings / items to other notes (block references are `refs`)
    pub inline_note_links: bool,
}

impl Default for Profile {
    fn default() -> Self {
        Profile { wf: true, max_blocks: 8, max_depth: 3, keys: vec![], dir: String::new(), tables: true, table_markup: false, refs: true, inline_note_links: true }
    }
}

const WORDS: &[&str] = &["alpha", "beta", "gamma", "delta", "x1", "Zeta", "über", "naïve", "日本", "end", "a", "of", "Word", "mid9"];

pub struct DocGen<'a> {
    pub r: &'a mut Rng,
    pub p: Profile,
}

impl<'a> DocGen<'a> {
    pub fn word(&mut self) -> String {
        self.r.pick(WORDS).to_string()
    }

    fn words(&mut self, lo: usize, hi: usize) -> Vec<I> {
        (0..self.r.range(lo, hi)).map(|_| I::Word(self.word())).collect()
    }

    pub fn link_url(&mut self) -> String {
        self.link_url_for(true)
    }

    pub fn link_url_for(&mut self, block_ref: bool) -> String {
        if !self.p.keys.is_empty() && self.r.chance(4, 5) && (block_ref || self.p.inline_note_links) {
            let k = self.r.pick(&self.p.keys).clone();
            let rel = crate::oracle::md::rel_url(&liwe::model::Key::from_file_name(&k).to_string(), &self.p.dir);
            let rel = if rel.is_empty() { k.clone() } else { rel };
            if self.r.chance(1, 3) { format!("{}.md", rel) } else { rel }
        } else if self.r.chance(1, 2) {
            self.r.pick(&["missing", "nowhere", "zz9"]).to_string()
        } else {
            self.r.pick(&["https://example.com/a", "http://x.org", "mailto:me@example.com", "HTTPS://UP.example"]).to_string()
        }
    }

    /// a table cell: a word, or (with `table_markup`) a run of inlines without wiki links (finding D37) and `|`
    fn cell(&mut self) -> String {
        if !self.p.table_markup || self.r.chance(1, 3) {
            return self.word();
        }
        let xs: Vec<I> = self.inlines(0).into_iter().filter(|i| !matches!(i, I::Wiki { .. })).collect();
        if xs.is_empty() {
            return self.word();
        }
        inl(&xs)
    }

    pub fn inlines(&mut self, depth: usize) -> Vec<I> {
        let n = self.r.range(1, 5);
        let mut out = vec![];
        for _ in 0..n {
            let k = self.r.below(if depth == 0 { 14 } else { 8 });
            let i = match k {
                0..=6 => I::Word(self.word()),
                7 => {
                    // a code span may hold a run of two or three backticks (written between single backticks it reads back as
                    // it is; a lone backtick inside would end the span — the escaping class of finding D11)
                    // Not in headings (depth 1): a heading's plain text is written as the text of the links to its note,
                    // unescaped (finding D11), where two backtick runs would pair up as a code span.
                    let w = self.word();
                    match if depth == 0 { self.r.below(6) } else { 5 } {
                        0 => I::Code(format!("{}``{}", w, self.word())),
                        1 => I::Code(format!("{}```{}", w, self.word())),
                        _ => I::Code(w),
                    }
                }
                8 => I::Emph(self.words(1, 2)),
                9 => I::Strong(self.words(1, 2)),
                10 => I::Strike(self.words(1, 2)),
                11 => {
                    let url = self.link_url_for(false);
                    I::Link { text: self.words(1, 2), url }
                }
                12 => {
                    if self.r.chance(1, 2) {
                        let url = self.link_url_for(false);
                        let url = url.trim_end_matches(".md").to_string();
                        if url.contains("://") || url.contains("mailto:") {
                            I::Word(self.word())
                        } else {
                            let pipe = if self.r.chance(1, 2) { Some(self.word()) } else { None };
                            I::Wiki { url, pipe }
                        }
                    } else {
                        I::Image { alt: self.word(), url: format!("img/{}.png", self.word()) }
                    }
                }
                _ => {
                    if self.r.chance(1, 2) {
                        I::Auto("https://example.com/auto".to_string())
                    } else if self.r.chance(1, 3) {
                        // a link two levels deep in emphasis (bold-italic, or strike inside emphasis)
                        let url = self.link_url_for(false);
                        let link = I::Link { text: self.words(1, 2), url };
                        if self.r.chance(1, 2) { I::Emph(vec![I::Strong(vec![link])]) } else { I::Strong(vec![I::Strike(vec![I::Word(self.word()), link])]) }
                    } else {
                        let inner = self.words(1, 2);
                        I::Emph(vec![I::Strong(inner)])
                    }
                }
            };
            out.push(i);
        }
        out
    }

    fn code_body(&mut self) -> Vec<String> {
        let n = self.r.range(1, 3);
        (0..n)
            .map(|i| {
                let w = self.word();
                match self.r.below(4) {
                    0 => format!("  {} = {};", w, i),
                    1 => format!("# {}", w),
                    2 => format!("- {} *x*", w),
                    _ => w,
                }
            })
            .collect()
    }

    pub fn block(&mut self, depth: usize, in_item: bool) -> B {
        let max = if depth >= self.p.max_depth { 6 } else { 12 };
        loop {
            let k = self.r.below(max);
            return match k {
                0..=2 => B::Para(self.inlines(0)),
                3 => {
                    if in_item && self.p.wf && self.r.chance(2, 3) {
                        continue;
                    }
                    B::Heading { level: self.r.range(1, 6) as u8, text: self.inlines(1), setext: false }
                }
                4 => {
                    let lang = if self.r.chance(1, 2) { Some(self.r.pick(&["rust", "py", "c++"]).to_string()) } else { None };
                    B::Code { fenced: true, lang, body: self.code_body() }
                }
                5 => {
                    if !self.p.refs {
                        continue;
                    }
                    let url = self.link_url();
                    if url.contains("://") || url.starts_with("mailto:") {
                        continue;
                    }
                    if self.r.chance(1, 5) {
                        let u = url.trim_end_matches(".md").to_string();
                        let pipe = if self.r.chance(1, 2) { Some(self.word()) } else { None };
                        B::Ref { text: vec![], url: u, wiki: Some(pipe) }
                    } else {
                        B::Ref { text: self.words(1, 3), url, wiki: None }
                    }
                }
                6 | 7 => {
                    let ordered = self.r.chance(1, 3);
                    let n = if self.r.chance(1, 12) { self.r.range(10, 12) } else { self.r.range(1, 4) };
                    let mut loose = false;
                    let items = (0..n)
                        .map(|_| {
                            let mut it = vec![B::Para(self.inlines(0))];
                            let extra = self.r.below(3);
                            for _ in 0..extra {
                                let b = self.item_block(depth + 1);
                                if matches!(b, B::Para(_)) {
                                    loose = true;
                                }
                                let before = it.len();
                                let glue = matches!(b, B::Code { .. } | B::Heading { setext: false, .. });
                                self.push_block(&mut it, b);
                                if it.len() > before + 1 {
                                    loose = true;
                                }
                                if glue && self.r.chance(1, 3) {
                                    let mut xs = vec![I::Word(self.word())];
                                    xs.extend(self.inlines(0));
                                    it.push(B::TightPara(xs));
                                }
                            }
                            it
                        })
                        .collect();
                    // an ordered list can only interrupt a paragraph (tight nesting) when it starts at 1
                    let start = if !in_item && self.r.chance(1, 6) { self.r.range(2, 9) } else { 1 };
                    B::List { ordered, marker: *self.r.pick(&['-', '*', '+']), start, loose: loose || self.r.chance(1, 5), items }
                }
                8 => {
                    let n = self.r.range(1, 3);
                    let mut inner = vec![];
                    for _ in 0..n {
                        let mut b = self.block(depth + 1, false);
                        while self.p.wf && inner.is_empty() && matches!(b, B::Rule(_)) {
                            b = self.block(depth + 1, false);
                        }
                        self.push_block(&mut inner, b);
                    }
                    B::Quote(inner)
                }
                9 => {
                    if in_item && self.p.wf {
                        continue;
                    }
                    // `---` … `---` anywhere is read by pulldown as a metadata block, which iwe hoists (finding D24)
                    if self.p.wf {
                        B::Rule(*self.r.pick(&["***", "___", "- - -", "* * *"]))
                    } else {
                        B::Rule(*self.r.pick(&["---", "***", "___", "- - -"]))
                    }
                }
                10 => {
                    if !self.p.tables || (in_item && self.p.wf) {
                        continue;
                    }
                    let cols = self.r.range(1, 3);
                    let head = (0..cols).map(|_| self.cell()).collect();
                    let align = (0..cols).map(|_| self.r.below(4) as u8).collect();
                    let rows = (0..self.r.range(0, 2)).map(|_| (0..cols).map(|_| self.cell()).collect()).collect();
                    B::Table { head, align, rows }
                }
                _ => {
                    if self.p.wf {
                        B::Heading { level: self.r.range(1, 6) as u8, text: self.inlines(1), setext: self.r.chance(1, 3) }
                    } else {
                        B::Html(format!("<div>{}</div>", self.word()))
                    }
                }
            };
        }
    }

    /// a non-first block of a list item
    fn item_block(&mut self, depth: usize) -> B {
        loop {
            let b = self.block(depth, true);
            if self.p.wf {
                match b {
                    B::Rule(_) | B::Table { .. } | B::Html(_) => continue,
                    B::Heading { setext: true, .. } => continue,
                    _ => {}
                }
            }
            return b;
        }
    }

    /// two adjacent lists of the same kind would merge after normalisation (markers are unified):
    /// in the well-formed stream a paragraph is put between them
    fn push_block(&mut self, out: &mut Vec<B>, b: B) {
        if self.p.wf {
            if let (Some(B::List { ordered: o1, .. }), B::List { ordered: o2, .. }) = (out.last(), &b) {
                if o1 == o2 {
                    out.push(B::Para(vec![I::Word(self.word())]));
                }
            }
            // two quotes in a row inside a tight list item are rendered without a blank line and merge (finding D10)
            if let (Some(B::Quote(_)), B::Quote(_)) = (out.last(), &b) {
                out.push(B::Para(vec![I::Word(self.word())]));
            }
        }
        out.push(b);
    }

    pub fn blocks(&mut self) -> Vec<B> {
        let n = self.r.range(0, self.p.max_blocks);
        let mut out: Vec<B> = vec![];
        for _ in 0..n {
            let b = self.block(0, false);
            self.push_block(&mut out, b);
        }
        out
    }
}

fn inl(xs: &[I]) -> String {
    xs.iter()
        .map(|i| match i {
            I::Word(w) => w.clone(),
            I::Emph(x) => format!("*{}*", inl(x)),
            I::Strong(x) => format!("**{}**", inl(x)),
            I::Strike(x) => format!("~~{}~~", inl(x)),
            I::Code(c) => format!("`{}`", c),
            I::Link { text, url } => format!("[{}]({})", inl(text), url),
            I::Wiki { url, pipe } => match pipe {
                Some(p) => format!("[[{}|{}]]", url, p),
                None => format!("[[{}]]", url),
            },
            I::Image { alt, url } => format!("![{}]({})", alt, url),
            I::Auto(u) => format!("<{}>", u),
        })
        .collect::<Vec<_>>()
        .join(" ")
}

fn indent(text: &str, first: &str, rest: &str) -> String {
    let mut out = String::new();
    for (i, l) in text.lines().enumerate() {
        if l.is_empty() {
            out.push('\n');
        } else {
            out.push_str(if i == 0 { first } else { rest });
            out.push_str(l);
            out.push('\n');
        }
    }
    out
}

/// render blocks to Markdown text (LF line ends)
pub fn render(bs: &[B]) -> String {
    let mut out = String::new();
    for (n, b) in bs.iter().enumerate() {
        if n > 0 {
            out.push('\n');
        }
        out.push_str(&render_block(b));
    }
    out
}

fn render_block(b: &B) -> String {
    match b {
        B::Para(x) | B::TightPara(x) => format!("{}\n", inl(x)),
        B::Ref { text, url, wiki } => match wiki {
            None => format!("[{}]({})\n", inl(text), url),
            Some(None) => format!("[[{}]]\n", url),
            Some(Some(p)) => format!("[[{}|{}]]\n", url, p),
        },
        B::Heading { level, text, setext } => {
            if *setext && *level <= 2 {
                format!("{}\n{}\n", inl(text), if *level == 1 { "===" } else { "---" })
            } else {
                format!("{} {}\n", "#".repeat(*level as usize), inl(text))
            }
        }
        B::Code { fenced: _, lang, body } => format!("```{}\n{}\n```\n", lang.clone().unwrap_or_default(), body.join("\n")),
        B::Rule(r) => format!("{}\n", r),
        B::Quote(inner) => {
            let t = render(inner);
            t.lines().map(|l| if l.is_empty() { ">\n".to_string() } else { format!("> {}\n", l) }).collect()
        }
        B::List { ordered, marker, start, loose, items } => {
            let mut out = String::new();
            for (i, it) in items.iter().enumerate() {
                let m = if *ordered { format!("{}{} ", start + i, if *marker == '-' { '.' } else { ')' }) } else { format!("{} ", marker) };
                let pad = " ".repeat(m.len());
                let mut body = String::new();
                for (j, b) in it.iter().enumerate() {
                    // a blank line is needed between the blocks of an item, except that a list, a fenced
                    // code block, a quote or an ATX heading may directly follow the item's first paragraph
                    if j > 0 && (*loose || (j >= 2 && !matches!(b, B::TightPara(_))) || !matches!(b, B::List { .. } | B::Code { .. } | B::Quote(_) | B::Heading { .. } | B::TightPara(_))) {
                        body.push('\n');
                    }
                    body.push_str(&render_block(b));
                }
                out.push_str(&indent(&body, &m, &pad));
                if *loose && i + 1 < items.len() {
                    out.push('\n');
                }
            }
            out
        }
        B::Table { head, align, rows } => {
            let mut out = format!("| {} |\n", head.join(" | "));
            out.push_str(&format!(
                "|{}|\n",
                align.iter().map(|a| match a { 1 => ":--", 2 => ":-:", 3 => "--:", _ => "---" }).collect::<Vec<_>>().join("|")
            ));
            for r in rows {
                out.push_str(&format!("| {} |\n", r.join(" | ")));
            }
            out
        }
        B::Html(h) => format!("{}\n", h),
    }
}

/// an ordered list that crosses the two- and three-digit marker boundaries (9/10, 99/100), with multi-block items
/// around them: nested lists, further paragraphs, code blocks under items 9-11 and 98-102
pub fn long_ordered_list(r: &mut Rng) -> String {
    let n = r.range(100, 104);
    let loose = r.chance(1, 2);
    let mut out = String::from("# long list\n\n");
    for k in 1..=n {
        let pad = " ".repeat(format!("{}. ", k).len());
        out.push_str(&format!("{}. item {}\n", k, k));
        let near = (9..=11).contains(&k) || (98..=102).contains(&k);
        if near && r.chance(2, 3) {
            match r.below(3) {
                0 => out.push_str(&format!("{}- sub {}\n{}- sub two {}\n", pad, k, pad, k)),
                1 if loose => out.push_str(&format!("\n{}para under {}\n", pad, k)),
                _ => out.push_str(&format!("\n{}```\n{}code {}\n{}```\n", pad, pad, k, pad)),
            }
        }
        if loose {
            out.push('\n');
        }
    }
    out.push_str("\nafter the list\n");
    out
}

/// a document: optional front-matter + blocks
pub fn document(r: &mut Rng, p: &Profile) -> String {
    let mut g = DocGen { r, p: p.clone() };
    let bs = g.blocks();
    if std::env::var("VERIF_DEBUG_AST").is_ok() {
        eprintln!("{:#?}", bs);
    }
    let mut text = render(&bs);
    if g.r.chance(1, 8) {
        text = format!("---\ntitle: {}\ntags: [a, b]\n---\n\n{}", g.word(), text);
    }
    text
}
