//! What a property run reports back to `bin/check` (one JSON file).
use serde_json::{json, Value};
use std::collections::BTreeMap;

#[derive(Default)]
pub struct Report {
    pub property: String,
    pub evaluations: u64,
    /// distinct non-trivial cases, counted by hashing the canonical case text
    pub distinct: std::collections::HashSet<u64>,
    pub rule: String,
    pub samples: Vec<Value>,
    /// model vs implementation disagreements (correspondence)
    pub model_disagreements: Vec<Value>,
    /// property failures on the implementation (oracle)
    pub impl_failures: Vec<Value>,
    /// known findings whose witness still fails
    pub known_findings: Vec<Value>,
    /// known-finding witnesses that no longer fail
    pub resolved_findings: Vec<Value>,
    pub distribution: BTreeMap<String, u64>,
    pub correspondence_cases: u64,
    pub exhaustive: bool,
    pub notes: Vec<String>,
}

impl Report {
    pub fn new(property: &str) -> Report {
        Report { property: property.to_string(), ..Default::default() }
    }
    pub fn count(&mut self, key: &str) {
        *self.distribution.entry(key.to_string()).or_insert(0) += 1;
    }
    pub fn count_n(&mut self, key: &str, n: u64) {
        *self.distribution.entry(key.to_string()).or_insert(0) += n;
    }
    pub fn case(&mut self, canonical: &str, nontrivial: bool) {
        self.evaluations += 1;
        if nontrivial {
            use std::hash::{Hash, Hasher};
            let mut h = std::collections::hash_map::DefaultHasher::new();
            canonical.hash(&mut h);
            self.distinct.insert(h.finish());
        }
    }
    pub fn sample(&mut self, v: Value) {
        if self.samples.len() < 5 {
            self.samples.push(v);
        }
    }
    pub fn disagree(&mut self, v: Value) {
        if self.model_disagreements.len() < 20 {
            self.model_disagreements.push(v);
        }
        self.count("model_disagreements_total");
    }
    pub fn fail(&mut self, v: Value) {
        if self.impl_failures.len() < 20 {
            self.impl_failures.push(v);
        }
        self.count("impl_failures_total");
    }
    pub fn to_json(&self) -> Value {
        json!({
            "property": self.property,
            "evaluations": self.evaluations,
            "distinct_nontrivial": self.distinct.len(),
            "rule": self.rule,
            "samples": self.samples,
            "model_disagreements": self.model_disagreements,
            "impl_failures": self.impl_failures,
            "known_findings": self.known_findings,
            "resolved_findings": self.resolved_findings,
            "distribution": self.distribution,
            "correspondence_cases": self.correspondence_cases,
            "exhaustive": self.exhaustive,
            "notes": self.notes,
        })
    }
}
