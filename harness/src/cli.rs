//! The `iwe` command-line binary (built from /repo by bin/check) against the library API it is glue for:
//! the same library on disk, with a `.iwe/config.toml` written by `iwe init` and edited (`markdown.refs_extension`,
//! `library.path`), must give — `normalize`: exactly `Graph::import(..).export()`; `paths --depth d`: the outline
//! paths of the graph, rendered and filtered as documented; `contents`: one reference per root note;
//! `squash -k K -d D`: the squashed note.  The in-process side is what the other oracles of C01 / C17 / C18 judge.
use crate::dump;
use liwe::graph::{Graph, GraphContext};
use liwe::model::config::MarkdownOptions;
use liwe::model::node::{NodeIter, NodePointer};
use liwe::model::Key;
use std::collections::{BTreeMap, BTreeSet, HashMap};
use std::path::{Path, PathBuf};
use std::process::Command;

pub const IWE_BIN: &str = "/verif/harness/target/iwe-bin/release/iwe";

fn run(root: &Path, args: &[&str]) -> Result<String, String> {
    match Command::new(IWE_BIN).args(args).current_dir(root).output() {
        Ok(o) if o.status.success() => Ok(String::from_utf8_lossy(&o.stdout).to_string()),
        Ok(o) => Err(format!("`iwe {}` exits with {}: {}", args.join(" "), o.status, String::from_utf8_lossy(&o.stderr).chars().take(300).collect::<String>())),
        Err(e) => Err(format!("cannot run {}: {}", IWE_BIN, e)),
    }
}

fn read_notes(dir: &Path, rel: &str, out: &mut BTreeMap<String, String>) {
    if let Ok(rd) = std::fs::read_dir(dir) {
        for e in rd.flatten() {
            let p = e.path();
            let name = e.file_name().to_string_lossy().to_string();
            let r = if rel.is_empty() { name.clone() } else { format!("{}/{}", rel, name) };
            if p.is_dir() {
                if name != ".iwe" {
                    read_notes(&p, &r, out);
                }
            } else if let Ok(t) = std::fs::read_to_string(&p) {
                out.insert(r, t);
            }
        }
    }
}

pub struct CliCase<'a> {
    pub lib: &'a [(String, String)],
    pub ext: &'a str,
    /// `library.path` of the configuration ("" = the directory of `.iwe` itself)
    pub sub: &'a str,
    pub squash: Option<(&'a str, u8)>,
    pub paths_depth: u8,
    pub tag: &'a str,
}

/// None = the binary agrees with the library API on this case (or the library API panics on it: C03's business)
pub fn check(c: &CliCase) -> Option<String> {
    let root = PathBuf::from(format!("/verif/harness/tmp/cli-{}-{}", std::process::id(), c.tag));
    let _ = std::fs::remove_dir_all(&root);
    std::fs::create_dir_all(&root).ok()?;
    let result = (|| -> Option<String> {
        if let Err(e) = run(&root, &["init"]) {
            return Some(e);
        }
        let cfg_path = root.join(".iwe/config.toml");
        let cfg = std::fs::read_to_string(&cfg_path).ok()?;
        let cfg = cfg.replacen("refs_extension = \"\"", &format!("refs_extension = \"{}\"", c.ext), 1).replacen("path = \"\"", &format!("path = \"{}\"", c.sub), 1);
        std::fs::write(&cfg_path, cfg).ok()?;
        let lib_dir = if c.sub.is_empty() { root.clone() } else { root.join(c.sub) };
        for (k, t) in c.lib {
            let p = lib_dir.join(format!("{}.md", k));
            std::fs::create_dir_all(p.parent()?).ok()?;
            std::fs::write(&p, t).ok()?;
        }
        // a non-note file outside the library directory must never be touched
        std::fs::write(root.join("outside.txt"), "outside\n").ok()?;
        let state: HashMap<String, String> = c.lib.iter().cloned().collect();
        let opts = MarkdownOptions { refs_extension: c.ext.to_string() };
        let g = dump::catch(|| Graph::import(&state, opts.clone())).ok()?;
        // paths
        let want_paths: BTreeSet<String> = dump::catch(|| {
            g.paths()
                .iter()
                .filter(|n| n.ids().len() <= c.paths_depth as usize)
                .map(|n| n.ids().iter().map(|id| (&g).get_text(*id).trim().to_string()).collect::<Vec<_>>().join(" • "))
                .collect()
        })
        .ok()?;
        match run(&root, &["paths", "--depth", &c.paths_depth.to_string()]) {
            Err(e) => return Some(e),
            Ok(out) => {
                let got: Vec<String> = out.lines().map(|l| l.to_string()).collect();
                let want: Vec<String> = want_paths.iter().cloned().collect();
                if got != want {
                    return Some(format!("`iwe paths --depth {}` prints {:?}, the graph's outline paths (sorted, unique) are {:?}", c.paths_depth, got.iter().take(6).collect::<Vec<_>>(), want.iter().take(6).collect::<Vec<_>>()));
                }
            }
        }
        // contents: one reference per root path of length 1
        let want_contents: BTreeSet<String> = dump::catch(|| {
            g.paths()
                .iter()
                .filter(|n| n.ids().len() <= 1)
                .map(|n| (&g).node(n.first_id()).node_key())
                .map(|key| format!("[{}]({})", (&g).get_ref_text(&key).unwrap_or_default(), key))
                .collect()
        })
        .ok()?;
        match run(&root, &["contents"]) {
            Err(e) => return Some(e),
            Ok(out) => {
                let got: Vec<String> = out.lines().filter(|l| !l.is_empty()).map(|l| l.to_string()).collect();
                let mut want = vec!["# Contents".to_string()];
                want.extend(want_contents.iter().cloned());
                if got != want {
                    return Some(format!("`iwe contents` prints {:?}, expected {:?}", got.iter().take(6).collect::<Vec<_>>(), want.iter().take(6).collect::<Vec<_>>()));
                }
            }
        }
        // squash
        if let Some((key, depth)) = c.squash {
            let want = dump::catch(|| {
                let squashed = (&g).squash(&Key::from_file_name(key), depth);
                let mut patch = Graph::new();
                patch.build_key_from_iter(&key.into(), liwe::model::tree::TreeIter::new(&squashed));
                patch.export_key(&key.into()).unwrap()
            });
            if let Ok(want) = want {
                match run(&root, &["squash", "-k", key, "--depth", &depth.to_string()]) {
                    Err(e) => return Some(e),
                    Ok(out) if out != want => return Some(format!("`iwe squash -k {} --depth {}` prints {:?}, the squashed note is {:?}", key, depth, out.chars().take(200).collect::<String>(), want.chars().take(200).collect::<String>())),
                    _ => {}
                }
            }
        }
        // normalize (last: it rewrites the files)
        let want: BTreeMap<String, String> = dump::catch(|| g.export()).ok()?.into_iter().map(|(k, v)| (format!("{}.md", k), v)).collect();
        if let Err(e) = run(&root, &["normalize"]) {
            return Some(e);
        }
        let mut got = BTreeMap::new();
        read_notes(&lib_dir, "", &mut got);
        if c.sub.is_empty() {
            got.remove("outside.txt");
        }
        if got != want {
            let diff = want.iter().find(|(k, v)| got.get(*k) != Some(v)).map(|(k, v)| format!("{}: {:?} on disk, export gives {:?}", k, got.get(k).map(|s| s.chars().take(120).collect::<String>()), v.chars().take(120).collect::<String>()));
            let extra: Vec<&String> = got.keys().filter(|k| !want.contains_key(*k)).collect();
            return Some(format!("`iwe normalize` (refs_extension {:?}, library.path {:?}) leaves other files than the export of the library: {} extra files {:?}", c.ext, c.sub, diff.unwrap_or_default(), extra));
        }
        if std::fs::read_to_string(root.join("outside.txt")).ok().as_deref() != Some("outside\n") {
            return Some("`iwe normalize` touched a file outside the library directory".to_string());
        }
        None
    })();
    let _ = std::fs::remove_dir_all(&root);
    result
}

/// what `iwe contents` and `iwe paths --depth d` print for the case's library (lines; blank lines of `contents` left out)
pub fn outputs(c: &CliCase) -> Option<Result<(Vec<String>, Vec<String>), String>> {
    let root = PathBuf::from(format!("/verif/harness/tmp/cli-out-{}-{}", std::process::id(), c.tag));
    let _ = std::fs::remove_dir_all(&root);
    std::fs::create_dir_all(&root).ok()?;
    let result = (|| -> Option<Result<(Vec<String>, Vec<String>), String>> {
        if let Err(e) = run(&root, &["init"]) {
            return Some(Err(e));
        }
        let cfg_path = root.join(".iwe/config.toml");
        let cfg = std::fs::read_to_string(&cfg_path).ok()?;
        let cfg = cfg.replacen("refs_extension = \"\"", &format!("refs_extension = \"{}\"", c.ext), 1).replacen("path = \"\"", &format!("path = \"{}\"", c.sub), 1);
        std::fs::write(&cfg_path, cfg).ok()?;
        let lib_dir = if c.sub.is_empty() { root.clone() } else { root.join(c.sub) };
        for (k, t) in c.lib {
            let p = lib_dir.join(format!("{}.md", k));
            std::fs::create_dir_all(p.parent()?).ok()?;
            std::fs::write(&p, t).ok()?;
        }
        let contents = match run(&root, &["contents"]) {
            Ok(o) => o.lines().filter(|l| !l.is_empty()).map(|l| l.to_string()).collect(),
            Err(e) => return Some(Err(e)),
        };
        let paths = match run(&root, &["paths", "--depth", &c.paths_depth.to_string()]) {
            Ok(o) => o.lines().map(|l| l.to_string()).collect(),
            Err(e) => return Some(Err(e)),
        };
        Some(Ok((contents, paths)))
    })();
    let _ = std::fs::remove_dir_all(&root);
    result
}

impl<'a> CliCase<'a> {
    /// the failing case as it goes into a replay file
    pub fn failure(&self, what: String) -> serde_json::Value {
        serde_json::json!({"kind": "cli", "library": self.lib, "ext": self.ext, "sub": self.sub, "squash": self.squash.map(|(k, d)| serde_json::json!([k, d])), "paths_depth": self.paths_depth, "what": what})
    }
}

/// `--replay` of a failure of kind "cli": Some(result) if the file is one
pub fn replay(v: &serde_json::Value) -> Option<Option<String>> {
    if v["kind"].as_str() != Some("cli") {
        return None;
    }
    let lib: Vec<(String, String)> = v["library"].as_array()?.iter().map(|p| (p[0].as_str().unwrap_or("").to_string(), p[1].as_str().unwrap_or("").to_string())).collect();
    let squash_key = v["squash"][0].as_str().map(|s| s.to_string());
    let squash = squash_key.as_deref().map(|k| (k, v["squash"][1].as_u64().unwrap_or(2) as u8));
    Some(check(&CliCase { lib: &lib, ext: v["ext"].as_str().unwrap_or(""), sub: v["sub"].as_str().unwrap_or(""), squash, paths_depth: v["paths_depth"].as_u64().unwrap_or(3) as u8, tag: "replay" }))
}
