//! Printer for the line protocol (see lean/Driver/Sexp.lean).
pub fn hex(s: &str) -> String {
    let mut out = String::with_capacity(1 + s.len() * 2);
    out.push('#');
    for b in s.as_bytes() {
        out.push_str(&format!("{:02x}", b));
    }
    out
}

pub fn unhex(s: &str) -> Option<String> {
    let s = s.strip_prefix('#')?;
    let bytes: Option<Vec<u8>> = (0..s.len() / 2)
        .map(|i| u8::from_str_radix(&s[2 * i..2 * i + 2], 16).ok())
        .collect();
    String::from_utf8(bytes?).ok()
}

pub fn list(items: &[String]) -> String {
    format!("({})", items.join(" "))
}

pub fn call(op: &str, args: &[String]) -> String {
    if args.is_empty() {
        format!("({})", op)
    } else {
        format!("({} {})", op, args.join(" "))
    }
}

pub fn opt(x: Option<String>) -> String {
    match x {
        Some(s) => format!("(some {})", s),
        None => "none".to_string(),
    }
}
