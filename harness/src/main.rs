//! iwe-verif: correspondence check (Lean model vs real code) and property oracles.
//! Usage: iwe-verif <PROPERTY> --tier quick|thorough --seed N --model <driver> --out <json>
mod act;
mod cli;
mod dump;
mod events;
mod gen;
mod hist;
mod known;
mod model;
mod oracle;
mod props;
mod report;
mod rng;
mod sched;
mod sexp;

use report::Report;

pub struct Ctx {
    pub seed: u64,
    pub thorough: bool,
    pub verif_dir: String,
    pub replay: Option<String>,
}

fn main() {
    let args: Vec<String> = std::env::args().collect();
    let prop = args.get(1).cloned().unwrap_or_default();
    if prop == "debug-atoms" {
        let t = std::fs::read_to_string(&args[2]).unwrap();
        for a in oracle::md::atoms(&t, "") {
            println!("{:?} {:?}", a.path, a.payload);
        }
        let out = props::c01::format_single("a", &t, "").unwrap();
        println!("=== formatted\n{}", out);
        for a in oracle::md::atoms(&out, "") {
            println!("{:?} {:?}", a.path, a.payload);
        }
        return;
    }
    if prop == "debug-rename" {
        let v: serde_json::Value = serde_json::from_str(&std::fs::read_to_string(&args[2]).unwrap()).unwrap();
        let lib: Vec<(String, String)> = v["library"].as_array().unwrap().iter().map(|p| (p[0].as_str().unwrap().to_string(), p[1].as_str().unwrap().to_string())).collect();
        let l0 = act::formatted(&lib, "").unwrap();
        let from = v["from"].as_str().unwrap();
        println!("=== before\n{}", l0[from]);
        let server = act::server(&l0, "", true);
        let line: u32 = args[3].parse().unwrap();
        let col: u32 = args[4].parse().unwrap();
        let r = act::rename(&server, from, line, col + 1, v["new_name"].as_str().unwrap());
        println!("{:#?}", r);
        return;
    }
    if prop == "crash-probe" {
        std::panic::set_hook(Box::new(|_| {}));
        if args[2] == "self-inline" {
            props::c03::crash_probe_self_inline();
        } else {
            props::c03::crash_probe(&args[2], args[3].parse().unwrap_or(10));
        }
        return;
    }
    if prop == "squash-probe" {
        std::panic::set_hook(Box::new(|_| {}));
        props::c17::squash_probe(&args[2]);
        return;
    }
    if prop == "det-dump" {
        std::panic::set_hook(Box::new(|_| {}));
        props::c16::det_dump(&args[2], args[3].parse().unwrap_or(1), &args[4]);
        return;
    }
    if prop == "debug-actions" {
        // iwe-verif debug-actions <file.md>: the code actions offered at every line of the note
        let text = std::fs::read_to_string(&args[2]).unwrap();
        let mut lib = act::Lib::new();
        lib.insert("a".to_string(), text.clone());
        for k in ["n1", "n2", "n3"] {
            lib.insert(k.to_string(), format!("# {}\n", k));
        }
        let server = act::server(&lib, "", true);
        for (i, l) in text.split('\n').enumerate() {
            let a = act::actions_at(&server, "a", i as u32).map(|v| v.iter().map(|x| format!("{}@{}", x.0.rsplit('.').next().unwrap_or(""), x.1)).collect::<Vec<_>>());
            println!("{:>3} {:<50} {:?}", i, l, a);
        }
        return;
    }
    if prop == "debug-action" {
        // iwe-verif debug-action <replay.json> <line> <kind-suffix>: apply the action and print the changed notes
        let v: serde_json::Value = serde_json::from_str(&std::fs::read_to_string(&args[2]).unwrap()).unwrap();
        let lib: Vec<(String, String)> = v["library"].as_array().unwrap().iter().map(|p| (p[0].as_str().unwrap().to_string(), p[1].as_str().unwrap().to_string())).collect();
        let ext = v["ext"].as_str().unwrap_or("");
        let key = v["key"].as_str().unwrap_or("a");
        let l0 = act::formatted(&lib, ext).unwrap();
        let server = act::server(&l0, ext, false);
        let line: u32 = args[3].parse().unwrap();
        println!("line {}: {:?}", line, l0[key].lines().nth(line as usize));
        for (kind, id, res) in act::actions_at(&server, key, line).unwrap() {
            if kind.ends_with(&args[4]) {
                println!("== {} node {}", kind, id);
                for c in res.unwrap() {
                    if let act::Change::Update(k, t) = c {
                        println!("-- update {}\n{}", k, t);
                    } else {
                        println!("-- {:?}", c);
                    }
                }
            }
        }
        return;
    }
    if prop == "debug-events" {
        // iwe-verif debug-events <file.md> <model-binary>: the first event at which Spec/Events.lean rejects the stream
        let text = std::fs::read_to_string(&args[2]).unwrap();
        let mut m = model::Model::spawn(&args[3]);
        let all = events::events_sexp(&text);
        let evs = dump::children(&all);
        for k in 1..evs.len() {
            let req = format!("(reader.read {} (events{}))", sexp::hex(&text), evs[1..=k].iter().map(|e| format!(" {}", e)).collect::<String>());
            let reply = m.call(&req);
            if dump::children(&reply).get(1) == Some(&"no") {
                println!("rejected at event {}: {}", k, evs[k]);
                for e in &evs[k.saturating_sub(8)..=k] {
                    println!("   {}", e.chars().take(100).collect::<String>());
                }
                return;
            }
        }
        println!("accepted ({} events)", evs.len() - 1);
        return;
    }
    if prop == "debug-gen" {
        debug_gen(args[2].parse().unwrap(), u64::from_str_radix(&args[3], 16).unwrap(), args[4].parse().unwrap());
        return;
    }
    let mut tier = "quick".to_string();
    let mut seed = 1u64;
    let mut model_path = "/verif/lean/.lake/build/bin/iwe_model".to_string();
    let mut out = String::new();
    let mut verif_dir = "/verif".to_string();
    let mut replay = None;
    let mut i = 2;
    while i < args.len() {
        match args[i].as_str() {
            "--tier" => { tier = args[i + 1].clone(); i += 1 }
            "--seed" => { seed = args[i + 1].parse().unwrap_or(1); i += 1 }
            "--model" => { model_path = args[i + 1].clone(); i += 1 }
            "--out" => { out = args[i + 1].clone(); i += 1 }
            "--verif-dir" => { verif_dir = args[i + 1].clone(); i += 1 }
            "--replay" => { replay = Some(args[i + 1].clone()); i += 1 }
            other => panic!("unknown argument {}", other),
        }
        i += 1;
    }
    // tiny workloads: a large rayon pool only adds scheduling overhead (C16 varies the pool size in subprocesses)
    if std::env::var("RAYON_NUM_THREADS").is_err() {
        let _ = rayon::ThreadPoolBuilder::new().num_threads(2).build_global();
    }
    // panics inside catch_unwind are expected in places: keep stderr quiet
    dump::install_panic_hook(std::env::var("VERIF_SHOW_PANICS").is_ok());
    let ctx = Ctx { seed, thorough: tier == "thorough", verif_dir, replay };
    let mut rep = Report::new(&prop);
    let mut model = model::Model::spawn(&model_path);
    match prop.as_str() {
        "C01" => props::c01::run(&ctx, &mut model, &mut rep),
        "C02" => props::c02::run(&ctx, &mut model, &mut rep),
        "C03" => props::c03::run(&ctx, &mut model, &mut rep),
        "C04" => props::c04::run(&ctx, &mut model, &mut rep),
        "C05" => props::c05::run(&ctx, &mut model, &mut rep),
        "C06" => props::c06::run(&ctx, &mut model, &mut rep),
        "C07" => props::c07::run(&ctx, &mut model, &mut rep),
        "C08" => props::c08::run(&ctx, &mut model, &mut rep),
        "C09" => props::c09::run(&ctx, &mut model, &mut rep),
        "C10" => props::c10::run(&ctx, &mut model, &mut rep),
        "C11" => props::c11::run(&ctx, &mut model, &mut rep),
        "C12" => props::c12::run(&ctx, &mut model, &mut rep),
        "C13" => props::c13::run(&ctx, &mut model, &mut rep),
        "C14" => props::c14::run(&ctx, &mut model, &mut rep),
        "C15" => props::c15::run(&ctx, &mut model, &mut rep),
        "C16" => props::c16::run(&ctx, &mut model, &mut rep),
        "C17" => props::c17::run(&ctx, &mut model, &mut rep),
        "C18" => props::c18::run(&ctx, &mut model, &mut rep),
        "C19" => props::c19::run(&ctx, &mut model, &mut rep),
        "C20" => props::c20::run(&ctx, &mut model, &mut rep),
        other => {
            eprintln!("unknown property {}", other);
            std::process::exit(2);
        }
    }
    rep.count_n("model_calls", model.calls);
    let text = serde_json::to_string_pretty(&rep.to_json()).unwrap();
    if out.is_empty() {
        println!("{}", text);
    } else {
        std::fs::write(&out, text).unwrap();
    }
}

#[allow(dead_code)]
pub fn debug_gen(seed: u64, salt: u64, idx: u64) {
    let mut r = rng::Rng::for_case(seed ^ salt, idx);
    let h = hist::gen_history(&mut r, true, 0);
    for (k, t) in &h.import {
        println!("=== {}\n{}", k, t);
    }
}
