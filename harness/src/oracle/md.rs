//! Independent reading of Markdown text with the harness' own pulldown-cmark pass (same options as
//! iwe's reader): content atoms (C01), outline (C07), link occurrences (C05/C06).
use pulldown_cmark::{CodeBlockKind, Event, LinkType, Options, Parser, Tag, TagEnd};

pub fn options() -> Options {
    Options::ENABLE_YAML_STYLE_METADATA_BLOCKS | Options::ENABLE_WIKILINKS | Options::ENABLE_TABLES
}

#[derive(Clone, Debug, PartialEq, Eq, PartialOrd, Ord)]
pub struct Atom {
    /// container / block-kind path from the root, e.g. ["quote", "ul", "item", "para"]
    pub path: Vec<String>,
    pub payload: String,
}

#[derive(Clone, Debug, PartialEq)]
pub struct Heading {
    /// containers (quote / list / item) the heading sits in, with the item's ordinal
    pub ctx: Vec<String>,
    pub level: u8,
    pub text: String,
    /// the heading's plain text including the texts of links to notes (which `text` leaves out, as they are refreshed)
    pub full_text: String,
    pub line: usize,
}

/// stands in a link's `text` for inline markup met inside it (emphasis, strong, strikethrough, code span, math, inline HTML)
pub const MARKUP: char = '⁂';

#[derive(Clone, Debug, PartialEq)]
pub struct LinkOcc {
    /// byte offset of the link's first character within its line
    pub col: usize,
    pub line: usize,
    pub dest: String,
    pub text: String,
    pub kind: String, // regular | wiki | wikiPiped | auto
    /// the link is the only content of its paragraph
    pub block_level: bool,
    pub ctx: Vec<String>,
    /// kind of the block holding the link: para | heading | cell
    pub holder: String,
}

#[derive(Default)]
pub struct Reading {
    pub atoms: Vec<Atom>,
    pub headings: Vec<Heading>,
    pub links: Vec<LinkOcc>,
    /// for every leaf block: (containers, index of the heading it is under in `headings` if any, kind, line)
    pub blocks: Vec<(Vec<String>, Option<usize>, String, usize)>,
    /// the note's first block is a heading: its text is the note's title
    pub title: Option<String>,
    pub first_block_seen: bool,
    /// number of list instances
    pub lists: usize,
}

pub fn strip_md(dest: &str) -> String {
    dest.trim_end_matches(".md").to_string()
}

pub fn is_external(d: &str) -> bool {
    let l = d.to_lowercase();
    l.starts_with("http://") || l.starts_with("https://") || l.starts_with("mailto:")
}

struct Rd<'a> {
    text: &'a str,
    dir: &'a str,
    /// index in `atoms` of the most recent link atom and its raw destination
    last_link_atom: Option<(usize, String, String)>,
    /// some inline content arrived directly inside the current (tight) item
    inline_seen: bool,
    out: Reading,
    path: Vec<String>,
    buf: Option<String>,
    /// for each open item: has it produced its first block yet?
    item_started: Vec<bool>,
    item_counter: Vec<usize>,
    /// heading index stack per container depth
    cur_heading: Vec<Option<usize>>,
}

impl<'a> Rd<'a> {
    fn line_of(&self, off: usize) -> usize {
        self.text[..off.min(self.text.len())].matches('\n').count()
    }
    fn ctx(&self) -> Vec<String> {
        self.path.iter().filter(|p| p.starts_with("quote") || p.starts_with("ul") || p.starts_with("ol") || p.starts_with("item")).cloned().collect()
    }
    fn flush(&mut self, kind: &str) {
        if let Some(b) = self.buf.take() {
            let mut p = self.path.clone();
            if !kind.is_empty() {
                p.push(kind.to_string());
            }
            for w in b.split_whitespace() {
                self.out.atoms.push(Atom { path: p.clone(), payload: w.to_string() });
            }
        }
    }
    /// text sitting directly in a (tight) item is that item's first paragraph
    fn flush_item_text(&mut self) {
        if self.path.last().map(|p| p.starts_with("item")).unwrap_or(false) {
            if self.buf.as_ref().map(|b| !b.trim().is_empty()).unwrap_or(false) || (self.buf.is_some() && self.inline_seen) {
                // the text sitting directly in a tight item is the item's first paragraph
                let h = self.cur_heading.last().cloned().flatten();
                let ctx = self.ctx();
                self.out.blocks.push((ctx, h, "para".to_string(), 0));
                self.flush("para");
                if let Some(s) = self.item_started.last_mut() {
                    *s = true;
                }
            } else {
                self.buf = None;
            }
        }
    }
    fn block_start(&mut self, kind: &str, off: usize) -> bool {
        self.flush_item_text();
        let first_in_item = self.path.last().map(|p| p.starts_with("item")).unwrap_or(false) && self.item_started.last().map(|s| !*s).unwrap_or(false);
        if let Some(s) = self.item_started.last_mut() {
            if self.path.last().map(|p| p.starts_with("item")).unwrap_or(false) {
                *s = true;
            }
        }
        let h = self.cur_heading.last().cloned().flatten();
        let line = self.line_of(off);
        self.out.blocks.push((self.ctx(), h, kind.to_string(), line));
        first_in_item
    }
    fn resume_item(&mut self) {
        if self.path.last().map(|p| p.starts_with("item")).unwrap_or(false) {
            self.inline_seen = false;
            self.buf = Some(String::new());
        }
    }
}

/// the key a block reference written in a note of directory `dir` points to (independent of iwe: crate relative-path only)
/// the directory of a note key (everything before the last `/`; a trailing `.md` of the file name does not matter),
/// computed on the string, independently of the implementation's `Key::parent`
pub fn dir_of(key: &str) -> String {
    match key.rsplit_once('/') {
        Some((dir, _)) => dir.trim_matches('/').to_string(),
        None => String::new(),
    }
}

/// the relative url for the note `target` (a key) written from a note in directory `dir`, computed
/// component-wise and independently of the implementation's `Key::to_rel_link_url` (generators use this
/// one, so that a defect there cannot hide itself in the generated inputs)
pub fn rel_url(target: &str, dir: &str) -> String {
    let d: Vec<&str> = dir.split('/').filter(|c| !c.is_empty()).collect();
    let t: Vec<&str> = target.split('/').filter(|c| !c.is_empty()).collect();
    let mut p = 0;
    while p < d.len() && p + 1 < t.len() && d[p] == t[p] {
        p += 1;
    }
    let mut out: Vec<&str> = vec![];
    for _ in p..d.len() {
        out.push("..");
    }
    out.extend(&t[p..]);
    out.join("/")
}

pub fn resolve(dest: &str, dir: &str) -> String {
    relative_path::RelativePath::new(dir).join_normalized(strip_md(dest)).to_string()
}

pub fn read(text: &str, dir: &str) -> Reading {
    let mut r = Rd { text, dir, last_link_atom: None, inline_seen: false, out: Reading::default(), path: vec![], buf: None, item_started: vec![], item_counter: vec![], cur_heading: vec![None] };
    let mut code: Option<String> = None;
    let mut skip_text_depth = 0usize;
    let mut link_stack: Vec<(usize, String, String, String, bool)> = vec![];
    let mut link_cols: Vec<usize> = vec![];
    let mut in_meta = false;
    let mut in_html = false;
    let mut cell = (0usize, 0usize);
    let mut top_inlines = 0usize;
    let mut last_top_was_link = false;
    let mut depth_inline = 0usize;
    let mut holder = String::new();
    let mut heading_as_para = false;
    let mut quote_counter = 0usize;
    let mut list_counter = 0usize;
    let mut title_pending = false;
    let mut title_buf = String::new();
    let mut head_full = String::new();
    let mut para_first_in_item = false;
    for (ev, range) in Parser::new_ext(text, options()).into_offset_iter() {
        match &ev {
            Event::Start(Tag::Heading { .. }) => {
                title_buf.clear();
                head_full.clear();
            }
            Event::Start(Tag::Paragraph | Tag::BlockQuote(_) | Tag::CodeBlock(_) | Tag::List(_) | Tag::Table(_) | Tag::HtmlBlock) | Event::Rule => r.out.first_block_seen = true,
            Event::Text(t) | Event::Code(t) | Event::InlineMath(t) | Event::InlineHtml(t) => {
                if title_pending {
                    title_buf.push_str(t);
                }
                head_full.push_str(t);
            }
            _ => {}
        }
        match ev {
            Event::Start(tag) => match tag {
                Tag::Paragraph => {
                    para_first_in_item = r.block_start("para", range.start);
                    r.path.push("para".into());
                    r.buf = Some(String::new());
                    top_inlines = 0;
                    last_top_was_link = false;
                    holder = "para".into();
                }
                Tag::Heading { level: l, .. } => {
                    title_pending = !r.out.first_block_seen && r.path.is_empty();
                    r.out.first_block_seen = true;
                    let first = r.block_start("heading", range.start);
                    // a heading that is the first block of a list item counts as that item's text
                    heading_as_para = first;
                    if first {
                        r.out.blocks.last_mut().unwrap().2 = "para".into();
                    } else {
                        let line = r.line_of(range.start);
                        let ctx = r.ctx();
                        r.out.headings.push(Heading { ctx, level: l as u8, text: String::new(), full_text: String::new(), line });
                        r.out.blocks.pop();
                        let idx = r.out.headings.len() - 1;
                        *r.cur_heading.last_mut().unwrap() = Some(idx);
                    }
                    r.path.push(if first { "para".into() } else { "heading".into() });
                    r.buf = Some(String::new());
                    top_inlines = 0;
                    last_top_was_link = false;
                    holder = "heading".into();
                }
                Tag::BlockQuote(_) => {
                    r.flush_item_text();
                    if let Some(s) = r.item_started.last_mut() {
                        *s = true;
                    }
                    quote_counter += 1;
                    r.path.push(format!("quote{}", quote_counter));
                    r.cur_heading.push(None);
                }
                Tag::CodeBlock(k) => {
                    r.block_start("code", range.start);
                    r.path.push("code".into());
                    let lang = match k {
                        CodeBlockKind::Fenced(l) => l.to_string(),
                        CodeBlockKind::Indented => String::new(),
                    };
                    if !lang.trim().is_empty() {
                        let p = r.path.clone();
                        r.out.atoms.push(Atom { path: p, payload: format!("lang={}", lang) });
                    }
                    code = Some(String::new());
                }
                Tag::HtmlBlock => in_html = true,
                Tag::List(n) => {
                    r.flush_item_text();
                    if let Some(s) = r.item_started.last_mut() {
                        *s = true;
                    }
                    list_counter += 1;
                    r.out.lists += 1;
                    r.path.push(if n.is_some() { format!("ol{}", list_counter) } else { format!("ul{}", list_counter) });
                    r.item_counter.push(0);
                }
                Tag::Item => {
                    let n = r.item_counter.last_mut().map(|c| {
                        *c += 1;
                        *c
                    }).unwrap_or(0);
                    r.path.push(format!("item{}", n));
                    r.item_started.push(false);
                    r.cur_heading.push(None);
                    r.inline_seen = false;
                    r.buf = Some(String::new());
                    top_inlines = 0;
                    last_top_was_link = false;
                    holder = "para".into();
                }
                Tag::Table(_) => {
                    r.block_start("table", range.start);
                    r.path.push("table".into());
                    cell = (0, 0);
                }
                Tag::TableRow => cell = (cell.0 + 1, 0),
                Tag::TableCell => {
                    r.path.push(format!("cell{}.{}", cell.0, cell.1));
                    r.buf = Some(String::new());
                    holder = "cell".into();
                }
                Tag::MetadataBlock(_) => in_meta = true,
                Tag::Link { link_type, dest_url, .. } => {
                    let kind = match link_type {
                        LinkType::WikiLink { has_pothole: true } => "wikiPiped",
                        LinkType::WikiLink { has_pothole: false } => "wiki",
                        LinkType::Autolink | LinkType::Email => "auto",
                        _ => "regular",
                    };
                    r.inline_seen = true;
                    let internal = !is_external(&dest_url);
                    let skipping = internal && (kind == "regular" || kind == "wiki");
                    if skipping {
                        skip_text_depth += 1;
                    }
                    if depth_inline == 0 {
                        top_inlines += 1;
                        last_top_was_link = true;
                    }
                    depth_inline += 1;
                    link_cols.push(range.start - text[..range.start].rfind('\n').map(|i| i + 1).unwrap_or(0));
                    link_stack.push((r.line_of(range.start), dest_url.to_string(), kind.to_string(), String::new(), skipping));
                }
                Tag::Image { dest_url, .. } => {
                    r.inline_seen = true;
                    if depth_inline == 0 {
                        top_inlines += 1;
                        last_top_was_link = false;
                    }
                    depth_inline += 1;
                    link_cols.push(0);
                    link_stack.push((r.line_of(range.start), dest_url.to_string(), "image".to_string(), String::new(), false));
                }
                Tag::Emphasis | Tag::Strong | Tag::Strikethrough => {
                    // markup inside a link's text is part of what the link's text *is*: a text that is a title carries none
                    for l in link_stack.iter_mut() {
                        l.3.push(MARKUP);
                    }
                    if depth_inline == 0 {
                        top_inlines += 1;
                        last_top_was_link = false;
                    }
                    depth_inline += 1;
                }
                _ => {}
            },
            Event::End(tag) => match tag {
                TagEnd::Paragraph => {
                    r.flush("");
                    r.path.pop();
                    // the first paragraph of a list item is the item's title, never a block reference
                    if top_inlines == 1 && last_top_was_link && !para_first_in_item {
                        if let Some(l) = r.out.links.last_mut() {
                            if !is_external(&l.dest) {
                                l.block_level = true;
                                // block references are re-relativised by formatting: compare what they resolve to
                                if let Some((i, dest, _)) = r.last_link_atom.clone() {
                                    let resolved = resolve(&dest, r.dir);
                                    r.out.atoms[i].payload = format!("ref→{}", resolved);
                                }
                            }
                        }
                    }
                    r.resume_item();
                }
                TagEnd::Heading(_) => {
                    if title_pending {
                        title_pending = false;
                        r.out.title = Some(title_buf.clone());
                    }
                    if !heading_as_para {
                        let t = r.buf.as_ref().map(|b| b.split_whitespace().collect::<Vec<_>>().join(" ")).unwrap_or_default();
                        if let Some(h) = r.out.headings.last_mut() {
                            h.text = t;
                            h.full_text = head_full.split_whitespace().collect::<Vec<_>>().join(" ");
                        }
                    }
                    r.flush("");
                    r.path.pop();
                    r.resume_item();
                }
                TagEnd::BlockQuote(_) => {
                    r.path.pop();
                    r.cur_heading.pop();
                    r.resume_item();
                }
                TagEnd::CodeBlock => {
                    if let Some(c) = code.take() {
                        let p = r.path.clone();
                        r.out.atoms.push(Atom { path: p, payload: format!("code={}", c.trim_matches('\n')) });
                    }
                    r.path.pop();
                    r.resume_item();
                }
                TagEnd::HtmlBlock => in_html = false,
                TagEnd::List(_) => {
                    r.path.pop();
                    r.item_counter.pop();
                    r.resume_item();
                }
                TagEnd::Item => {
                    if top_inlines == 1 && last_top_was_link && r.buf.is_some() && !r.item_started.last().cloned().unwrap_or(true) {
                        // a tight item holding exactly one link is still an item, not a block reference
                    }
                    r.flush_item_text();
                    r.buf = None;
                    r.path.pop();
                    r.item_started.pop();
                    r.cur_heading.pop();
                }
                TagEnd::Table => {
                    r.path.pop();
                    r.resume_item();
                }
                TagEnd::TableCell => {
                    r.flush("");
                    r.path.pop();
                    cell.1 += 1;
                }
                TagEnd::MetadataBlock(_) => in_meta = false,
                TagEnd::Link | TagEnd::Image => {
                    depth_inline = depth_inline.saturating_sub(1);
                    let col = link_cols.pop().unwrap_or(0);
                    if let Some((line, dest, kind, txt, skipping)) = link_stack.pop() {
                        if skipping {
                            skip_text_depth -= 1;
                        }
                        let d = if is_external(&dest) || kind == "image" { dest.clone() } else { strip_md(&dest) };
                        let mut p = r.path.clone();
                        if p.last().map(|x| x.starts_with("item")).unwrap_or(false) {
                            p.push("para".into());
                        }
                        r.out.atoms.push(Atom { path: p, payload: format!("{}→{}", if kind == "image" { "img" } else { "link" }, d) });
                        r.last_link_atom = Some((r.out.atoms.len() - 1, dest.clone(), kind.clone()));
                        if kind != "image" {
                            let ctx = r.ctx();
                            r.out.links.push(LinkOcc { col, line, dest, text: txt, kind, block_level: false, ctx, holder: holder.clone() });
                        }
                    }
                }
                TagEnd::Emphasis | TagEnd::Strong | TagEnd::Strikethrough => depth_inline = depth_inline.saturating_sub(1),
                _ => {}
            },
            Event::Text(t) => {
                r.inline_seen = true;
                if in_meta {
                    r.out.atoms.push(Atom { path: vec!["frontmatter".into()], payload: t.to_string() });
                } else if in_html {
                } else if let Some(c) = code.as_mut() {
                    c.push_str(&t);
                } else {
                    if depth_inline == 0 {
                        top_inlines += 1;
                        last_top_was_link = false;
                    }
                    for l in link_stack.iter_mut() {
                        l.3.push_str(&t);
                    }
                    if skip_text_depth == 0 {
                        if let Some(b) = r.buf.as_mut() {
                            b.push_str(&t);
                        }
                    }
                }
            }
            Event::Code(t) | Event::InlineMath(t) | Event::InlineHtml(t) => {
                r.inline_seen = true;
                if depth_inline == 0 {
                    top_inlines += 1;
                    last_top_was_link = false;
                }
                for l in link_stack.iter_mut() {
                    l.3.push(MARKUP);
                    l.3.push_str(&t);
                }
                if skip_text_depth == 0 {
                    if let Some(b) = r.buf.as_mut() {
                        b.push_str(&t);
                    }
                }
            }
            Event::SoftBreak | Event::HardBreak => {
                if let Some(b) = r.buf.as_mut() {
                    b.push(' ');
                }
            }
            Event::Rule => {
                r.block_start("rule", range.start);
                let mut p = r.path.clone();
                p.push("rule".into());
                r.out.atoms.push(Atom { path: p, payload: "rule".into() });
                r.resume_item();
            }
            _ => {}
        }
    }
    r.out
}

/// atoms with item ordinals erased? no: ordinals stay (an item must stay the n-th item of its list)
pub fn atoms(text: &str, dir: &str) -> Vec<Atom> {
    read(text, dir).atoms
}

pub fn well_nested(levels: &[u8]) -> bool {
    let mut prev = 0u8;
    for &l in levels {
        if l > prev + 1 || l == 0 {
            return false;
        }
        prev = l;
    }
    true
}
