pub mod md;
