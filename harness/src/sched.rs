//! Driving the real `Router` (message loop + request worker threads) through a chosen interleaving,
//! using the pause points of `cfg(iwe_org_iwe_verif)` in `iwes/src/router.rs`.
use crossbeam_channel::{unbounded, Receiver, Sender};
use iwes::router::{verif, LspClient, Router, ServerConfig};
use liwe::model::config::Configuration;
use lsp_server::{Message, Notification, Request, RequestId};
use serde_json::json;
use std::collections::{HashMap, HashSet};
use std::sync::{Arc, Condvar, Mutex, OnceLock};
use std::time::{Duration, Instant};

#[derive(Clone, Debug, PartialEq)]
pub enum Outcome {
    Ok,
    Panic,
}

#[derive(Clone, Debug)]
pub enum Msg {
    /// formatting request for note `note` (answers with the note's current text) or a request that makes the handler panic
    Req { id: u32, note: usize, outcome: Outcome },
    /// didChange: note `note` gets the text `# v<ver>`
    Notif { note: usize, ver: u32 },
}

#[derive(Clone, Debug)]
pub enum Act {
    Send(Msg),
    Advance(u32),
}

#[derive(Default)]
struct Shared {
    /// worker (request id) → pause point it is waiting at
    waiting: HashMap<String, String>,
    granted: HashSet<(String, String)>,
    thread_req: HashMap<std::thread::ThreadId, String>,
    events: Vec<String>,
    active: bool,
    /// after the schedule: pause points no longer block
    passthrough: bool,
    changes: u64,
}

struct Ctl {
    m: Mutex<Shared>,
    cv: Condvar,
}

fn ctl() -> &'static Ctl {
    static C: OnceLock<Ctl> = OnceLock::new();
    C.get_or_init(|| Ctl { m: Mutex::new(Shared::default()), cv: Condvar::new() })
}

fn hook(point: &str, id: &str) {
    let c = ctl();
    let mut g = c.m.lock().unwrap();
    if !g.active {
        return;
    }
    g.changes += 1;
    let tid = std::thread::current().id();
    let req = match point {
        "worker-started" => {
            g.thread_req.insert(tid, id.to_string());
            id.to_string()
        }
        "result-computed" | "response-sent" | "worker-finishing" => g.thread_req.get(&tid).cloned().unwrap_or_default(),
        _ => {
            g.events.push(format!("{}:{}", point, id.chars().take(60).collect::<String>()));
            c.cv.notify_all();
            return;
        }
    };
    if point == "worker-finishing" {
        g.events.push(format!("finishing:{}", req));
        c.cv.notify_all();
        return;
    }
    g.waiting.insert(req.clone(), point.to_string());
    c.cv.notify_all();
    while g.active && !g.passthrough && !g.granted.remove(&(req.clone(), point.to_string())) {
        g = c.cv.wait(g).unwrap();
    }
    g.waiting.remove(&req);
    g.changes += 1;
    c.cv.notify_all();
}

pub struct Outcome2 {
    /// request id → the version it saw (`Some(v)`), an error (`None`); absent = never answered
    pub replies: HashMap<u32, Option<u32>>,
    pub duplicate_replies: Vec<u32>,
    /// final version of every note, read by formatting requests after the schedule
    pub finals: Vec<u32>,
    pub events: Vec<String>,
    pub loop_result_ok: bool,
    /// inlay hints (label, line) of every note, asked through the router after the schedule; None = no answer / error
    pub final_hints: Vec<Option<Vec<(String, u32)>>>,
}

/// the text of version `ver` of note `note`: the version heading, a table, and — in even versions — a block
/// reference and an inline link to the next note *behind the table*, in odd versions plain text there: an edit
/// that is applied only in part (stale blocks, stale index entries) shows in the hints of the linked note
pub fn note_text(note: usize, notes: usize, ver: u32) -> String {
    let other = note_key((note + 1) % notes.max(1));
    if ver % 2 == 0 {
        format!("# v{}\n\n| t |\n|---|\n| c{} |\n\n[inc {}]({})\n\nsee [inline]({}) v{}\n", ver, ver, ver, other, other, ver)
    } else {
        format!("# v{}\n\n| t |\n|---|\n| c{} |\n\nplain v{}\n", ver, ver, ver)
    }
}

/// what a freshly started server says about the final texts
pub fn fresh_hints(notes: usize, finals: &[u32]) -> Vec<Vec<(String, u32)>> {
    let state: HashMap<String, String> = (0..notes).map(|n| (note_key(n), note_text(n, notes, finals[n]))).collect();
    let server = iwes::router::server::Server::new(ServerConfig { base_path: "/lib".to_string(), state, sequential_ids: Some(true), configuration: Configuration::default(), lsp_client: LspClient::Unknown });
    (0..notes)
        .map(|n| {
            server
                .handle_inlay_hints(lsp_types::InlayHintParams { text_document: lsp_types::TextDocumentIdentifier { uri: lsp_types::Url::parse(&uri(n)).unwrap() }, range: lsp_types::Range::default(), work_done_progress_params: Default::default() })
                .iter()
                .map(|h| (match &h.label { lsp_types::InlayHintLabel::String(s) => s.clone(), _ => "?".to_string() }, h.position.line))
                .collect()
        })
        .collect()
}

fn note_key(n: usize) -> String {
    format!("n{}", n)
}

fn uri(n: usize) -> String {
    format!("file:///lib/{}.md", note_key(n))
}

fn version_of(text: &str) -> Option<u32> {
    text.lines().next().unwrap_or("").trim().strip_prefix("# v").and_then(|v| v.parse().ok())
}

/// wait until the shared state has not changed for `quiet`
fn settle(quiet: Duration, max: Duration) {
    let c = ctl();
    let start = Instant::now();
    let mut last = c.m.lock().unwrap().changes;
    let mut since = Instant::now();
    loop {
        std::thread::sleep(Duration::from_micros(300));
        let now = c.m.lock().unwrap().changes;
        if now != last {
            last = now;
            since = Instant::now();
        }
        if since.elapsed() >= quiet || start.elapsed() >= max {
            return;
        }
    }
}

fn wait_for(pred: impl Fn(&Shared) -> bool, max: Duration) -> bool {
    let c = ctl();
    let start = Instant::now();
    let mut g = c.m.lock().unwrap();
    while !pred(&g) {
        let left = max.checked_sub(start.elapsed());
        let Some(left) = left else { return false };
        g = c.cv.wait_timeout(g, left).unwrap().0;
    }
    true
}

pub fn run_schedule(notes: usize, acts: &[Act]) -> Outcome2 {
    static LOCK: Mutex<()> = Mutex::new(());
    let _only_one = LOCK.lock().unwrap();
    verif::set_hook(Some(Arc::new(hook)));
    {
        let mut g = ctl().m.lock().unwrap();
        *g = Shared::default();
        g.active = true;
    }
    let (to_server, server_rx): (Sender<Message>, Receiver<Message>) = unbounded();
    let (server_tx, from_server): (Sender<Message>, Receiver<Message>) = unbounded();
    let state: HashMap<String, String> = (0..notes).map(|n| (note_key(n), note_text(n, notes, 0))).collect();
    let router = Router::new(server_tx, ServerConfig { base_path: "/lib".to_string(), state, sequential_ids: Some(true), configuration: Configuration::default(), lsp_client: LspClient::Unknown });
    let (done_tx, done_rx) = unbounded::<bool>();
    std::thread::spawn(move || {
        let _ = done_tx.send(router.run(server_rx).is_ok());
    });
    let send = |m: &Msg| match m {
        Msg::Req { id, note, outcome } => {
            let (method, params) = match outcome {
                Outcome::Ok => ("textDocument/formatting", json!({"textDocument": {"uri": uri(*note)}, "options": {"tabSize": 2, "insertSpaces": true}})),
                // a formatting request for a file the server does not know: the handler panics (`to have key`)
                Outcome::Panic => ("textDocument/formatting", json!({"textDocument": {"uri": "file:///lib/unknown-note.md"}, "options": {"tabSize": 2, "insertSpaces": true}})),
            };
            to_server.send(Message::Request(Request { id: RequestId::from(*id as i32), method: method.to_string(), params })).unwrap();
        }
        Msg::Notif { note, ver } => {
            to_server
                .send(Message::Notification(Notification {
                    method: "textDocument/didChange".to_string(),
                    // the version number an editor attaches is its own business: the first edit of a note carries a large one (the
                    // note has been open for a while), the later ones restart at 1 (closed and opened again — the server is not
                    // told: it handles neither didOpen nor didClose).  Whatever arrives last is the text.
                    params: json!({"textDocument": {"uri": uri(*note), "version": if *ver <= 1 { 40 } else { *ver - 1 }}, "contentChanges": [{"text": note_text(*note, notes, *ver)}]}),
                }))
                .unwrap();
        }
    };
    let grant = |id: u32| {
        let c = ctl();
        let mut g = c.m.lock().unwrap();
        if let Some(p) = g.waiting.get(&id.to_string()).cloned() {
            g.granted.insert((id.to_string(), p));
            g.changes += 1;
            c.cv.notify_all();
            true
        } else {
            false
        }
    };
    let quiet = Duration::from_millis(4);
    let max = Duration::from_millis(400);
    for a in acts {
        match a {
            Act::Send(m) => send(m),
            Act::Advance(id) => {
                // event-based: the worker reaches its next pause point on its own (short wait: a worker
                // queued behind a pending notification is not started yet, the advance is then a no-op)
                wait_for(|g| g.waiting.contains_key(&id.to_string()), Duration::from_millis(250));
                grant(*id);
            }
        }
        settle(quiet, max);
    }
    // drain: from here on no pause point blocks; wait (event-based, generous deadline: the machine may be
    // loaded) until every request of the schedule has finished
    let sent_reqs = acts.iter().filter(|a| matches!(a, Act::Send(Msg::Req { .. }))).count();
    {
        let c = ctl();
        let mut g = c.m.lock().unwrap();
        g.passthrough = true;
        g.changes += 1;
        c.cv.notify_all();
    }
    let drained = wait_for(|g| g.events.iter().filter(|e| e.starts_with("finishing:")).count() >= sent_reqs, Duration::from_secs(20));
    // read the final text of every note, waiting for the answers themselves
    let mut inbox: Vec<Message> = vec![];
    let mut finals = vec![];
    for n in 0..notes {
        let id = 900_000 + n as u32;
        send(&Msg::Req { id, note: n, outcome: Outcome::Ok });
        let deadline = Instant::now() + Duration::from_secs(if drained { 30 } else { 3 });
        loop {
            match from_server.recv_timeout(deadline.saturating_duration_since(Instant::now())) {
                Ok(m) => {
                    let done = matches!(&m, Message::Response(r) if format!("{}", r.id) == id.to_string());
                    inbox.push(m);
                    if done {
                        break;
                    }
                }
                Err(_) => break,
            }
        }
    }
    // …and what every note's hints say (answered from the same state)
    let mut final_hints: Vec<Option<Vec<(String, u32)>>> = vec![];
    for n in 0..notes {
        let id = 910_000 + n as i32;
        to_server
            .send(Message::Request(Request {
                id: RequestId::from(id),
                method: "textDocument/inlayHint".to_string(),
                params: json!({"textDocument": {"uri": uri(n)}, "range": {"start": {"line": 0, "character": 0}, "end": {"line": 0, "character": 0}}}),
            }))
            .unwrap();
        let deadline = Instant::now() + Duration::from_secs(if drained { 30 } else { 3 });
        let mut got = None;
        loop {
            match from_server.recv_timeout(deadline.saturating_duration_since(Instant::now())) {
                Ok(Message::Response(r)) if format!("{}", r.id) == id.to_string() => {
                    got = r.result.as_ref().and_then(|v| v.as_array()).map(|a| {
                        a.iter().map(|h| (h["label"].as_str().unwrap_or("?").to_string(), h["position"]["line"].as_u64().unwrap_or(0) as u32)).collect::<Vec<_>>()
                    });
                    break;
                }
                Ok(m) => inbox.push(m),
                Err(_) => break,
            }
        }
        final_hints.push(got);
    }
    to_server.send(Message::Notification(Notification { method: "exit".to_string(), params: json!(null) })).unwrap();
    // a loop blocked behind a handler that never returns does not end on `exit`: a verdict, not a reason to wait for ever
    let loop_result_ok = done_rx.recv_timeout(Duration::from_secs(30)).unwrap_or(false);
    while let Ok(m) = from_server.try_recv() {
        inbox.push(m);
    }
    let mut replies: HashMap<u32, Option<u32>> = HashMap::new();
    let mut duplicate_replies = vec![];
    let mut final_map: HashMap<u32, Option<u32>> = HashMap::new();
    for m in inbox {
        if let Message::Response(r) = m {
            let id: u32 = format!("{}", r.id).parse().unwrap_or(0);
            let ver = r.result.as_ref().and_then(|v| v.get(0)).and_then(|e| e.get("newText")).and_then(|t| t.as_str()).and_then(version_of);
            let entry = if r.error.is_some() { None } else { ver };
            let target = if id >= 900_000 { &mut final_map } else { &mut replies };
            if target.insert(id, entry).is_some() {
                duplicate_replies.push(id);
            }
        }
    }
    for n in 0..notes {
        finals.push(final_map.get(&(900_000 + n as u32)).cloned().flatten().unwrap_or(u32::MAX));
    }
    let events = {
        let mut g = ctl().m.lock().unwrap();
        g.active = false;
        ctl().cv.notify_all();
        g.events.clone()
    };
    verif::set_hook(None);
    Outcome2 { replies, duplicate_replies, finals, events, loop_result_ok, final_hints }
}
