//! Canonical S-expression dumps of the real data structures (same grammar as lean/Driver/Codec.lean).
use crate::sexp::*;
use liwe::graph::graph_node::GraphNode;
use liwe::graph::{Graph, GraphContext};
use liwe::model::document::{DocumentBlock, DocumentInline, LinkType};
use liwe::model::graph::GraphInline;
use liwe::model::node::{ColumnAlignment, Node, ReferenceType};
use liwe::model::tree::Tree;
use liwe::model::Key;

pub fn link_type(t: LinkType) -> &'static str {
    match t {
        LinkType::Regular => "regular",
        LinkType::WikiLink => "wiki",
        LinkType::WikiLinkPiped => "wikiPiped",
    }
}
pub fn ref_type(t: ReferenceType) -> &'static str {
    match t {
        ReferenceType::Regular => "regular",
        ReferenceType::WikiLink => "wiki",
        ReferenceType::WikiLinkPiped => "wikiPiped",
    }
}
pub fn align(a: &ColumnAlignment) -> &'static str {
    match a {
        ColumnAlignment::None => "none",
        ColumnAlignment::Left => "left",
        ColumnAlignment::Center => "center",
        ColumnAlignment::Right => "right",
    }
}

/// None = constructor outside the modelled fragment
pub fn dinline(i: &DocumentInline) -> Option<String> {
    Some(match i {
        DocumentInline::Str(s) => format!("(str {})", hex(s)),
        DocumentInline::Code(c) => format!("(code {})", hex(&c.text)),
        DocumentInline::Math(m) => format!("(math {})", hex(&m.content)),
        DocumentInline::Emph(e) => format!("(emph{})", dinlines_tail(&e.inlines)?),
        DocumentInline::Strong(e) => format!("(strong{})", dinlines_tail(&e.inlines)?),
        DocumentInline::Strikeout(e) => format!("(strikeout{})", dinlines_tail(&e.inlines)?),
        DocumentInline::Link(l) => format!(
            "(link {} {} {}{})",
            hex(&l.target.url),
            hex(&l.target.title),
            link_type(l.link_type),
            dinlines_tail(&l.inlines)?
        ),
        DocumentInline::Image(l) => format!("(image {} {}{})", hex(&l.target.url), hex(&l.target.title), dinlines_tail(&l.inlines)?),
        _ => return None,
    })
}
fn dinlines_tail(xs: &[DocumentInline]) -> Option<String> {
    let mut out = String::new();
    for x in xs {
        out.push(' ');
        out.push_str(&dinline(x)?);
    }
    Some(out)
}
fn dil(xs: &[DocumentInline]) -> Option<String> {
    Some(format!("(il{})", dinlines_tail(xs)?))
}

pub fn dblock(b: &DocumentBlock) -> Option<String> {
    Some(match b {
        DocumentBlock::Para(p) => format!("(para {} {}{})", p.line_range.start, p.line_range.end, dinlines_tail(&p.inlines)?),
        DocumentBlock::Header(h) => format!("(header {} {} {}{})", h.line_range.start, h.line_range.end, h.level, dinlines_tail(&h.inlines)?),
        DocumentBlock::CodeBlock(c) => format!("(code {} {} {} {})", c.line_range.start, c.line_range.end, opt(c.lang.as_ref().map(|l| hex(l))), hex(&c.text)),
        DocumentBlock::BlockQuote(q) => format!("(quote {} {}{})", q.line_range.start, q.line_range.end, dblocks_tail(&q.blocks)?),
        DocumentBlock::BulletList(l) => format!("(blist{})", items_tail(&l.items)?),
        DocumentBlock::OrderedList(l) => format!("(olist{})", items_tail(&l.items)?),
        DocumentBlock::HorizontalRule(r) => format!("(rule {} {})", r.line_range.start, r.line_range.end),
        DocumentBlock::Table(t) => {
            let head: Option<Vec<String>> = t.header.iter().map(|c| dil(c)).collect();
            let rows: Option<Vec<String>> = t
                .rows
                .iter()
                .map(|r| r.iter().map(|c| dil(c)).collect::<Option<Vec<String>>>().map(|cs| format!("(row{})", cs.iter().map(|c| format!(" {}", c)).collect::<String>())))
                .collect();
            format!(
                "(table {} {} (head{}) (align{}) (rows{}))",
                t.line_range.start,
                t.line_range.end,
                head?.iter().map(|c| format!(" {}", c)).collect::<String>(),
                t.alignment.iter().map(|a| format!(" {}", align(a))).collect::<String>(),
                rows?.iter().map(|c| format!(" {}", c)).collect::<String>()
            )
        }
        _ => return None,
    })
}
fn dblocks_tail(bs: &[DocumentBlock]) -> Option<String> {
    let mut out = String::new();
    for b in bs {
        out.push(' ');
        out.push_str(&dblock(b)?);
    }
    Some(out)
}
fn items_tail(items: &[Vec<DocumentBlock>]) -> Option<String> {
    let mut out = String::new();
    for it in items {
        out.push_str(&format!(" (item{})", dblocks_tail(it)?));
    }
    Some(out)
}

pub fn document(blocks: &[DocumentBlock], metadata: &Option<String>) -> Option<String> {
    Some(format!("(doc {} (blocks{}))", opt(metadata.as_ref().map(|m| hex(m))), dblocks_tail(blocks)?))
}

pub fn ginline(i: &GraphInline) -> String {
    match i {
        GraphInline::Str(s) => format!("(str {})", hex(s)),
        GraphInline::Code(_, c) => format!("(code {})", hex(c)),
        GraphInline::Math(m) => format!("(math {})", hex(m)),
        GraphInline::Emph(e) => format!("(emph{})", ginlines_tail(e)),
        GraphInline::Strong(e) => format!("(strong{})", ginlines_tail(e)),
        GraphInline::Strikeout(e) => format!("(strikeout{})", ginlines_tail(e)),
        GraphInline::Link(url, title, t, xs) => format!("(link {} {} {}{})", hex(url), hex(title), link_type(*t), ginlines_tail(xs)),
        GraphInline::Image(url, title, xs) => format!("(image {} {}{})", hex(url), hex(title), ginlines_tail(xs)),
        other => format!("(unmodelled {})", hex(&format!("{:?}", other))),
    }
}
fn ginlines_tail(xs: &[GraphInline]) -> String {
    xs.iter().map(|x| format!(" {}", ginline(x))).collect()
}
pub fn gil(xs: &[GraphInline]) -> String {
    format!("(il{})", ginlines_tail(xs))
}

fn optn(x: Option<u64>) -> String {
    x.map(|n| n.to_string()).unwrap_or_else(|| "none".to_string())
}

pub fn gnode(g: &Graph, n: &GraphNode) -> String {
    let line = |id: usize| gil(g.get_line(id).inlines());
    match n {
        GraphNode::Empty => "empty".to_string(),
        GraphNode::Document(d) => format!("(doc {} {} {})", d.id(), optn(d.child_id()), hex(&d.key().to_string())),
        _ => {
            let payload = match n {
                GraphNode::Section(s) => format!("(sect {})", line(s.line_id())),
                GraphNode::Leaf(l) => format!("(leaf {})", line(l.line_id())),
                GraphNode::Quote(_) => "quote".to_string(),
                GraphNode::BulletList(_) => "blist".to_string(),
                GraphNode::OrderedList(_) => "olist".to_string(),
                GraphNode::Raw(r) => format!("(raw {} {})", opt(r.lang().map(|l| hex(&l))), hex(r.content())),
                GraphNode::HorizontalRule(_) => "rule".to_string(),
                GraphNode::Reference(r) => format!("(ref {} {} {})", hex(&r.key().to_string()), hex(r.text()), ref_type(r.reference_type())),
                GraphNode::Table(t) => format!(
                    "(table (head{}) (align{}) (rows{}))",
                    t.header().iter().map(|id| format!(" {}", line(*id))).collect::<String>(),
                    t.alignment().iter().map(|a| format!(" {}", align(a))).collect::<String>(),
                    t.rows().iter().map(|r| format!(" (row{})", r.iter().map(|id| format!(" {}", line(*id))).collect::<String>())).collect::<String>()
                ),
                _ => unreachable!(),
            };
            format!("(n {} {} {} {} {})", n.id(), optn(n.prev_id()), optn(n.next_id()), optn(n.child_id()), payload)
        }
    }
}

pub fn node(n: &Node) -> String {
    match n {
        Node::Document(k) => format!("(document {})", hex(&k.to_string())),
        Node::Section(xs) => format!("(sect {})", gil(xs)),
        Node::Quote() => "quote".to_string(),
        Node::BulletList() => "blist".to_string(),
        Node::OrderedList() => "olist".to_string(),
        Node::Leaf(xs) => format!("(leaf {})", gil(xs)),
        Node::Raw(l, c) => format!("(raw {} {})", opt(l.as_ref().map(|l| hex(l))), hex(c)),
        Node::HorizontalRule() => "rule".to_string(),
        Node::Reference(r) => format!("(ref {} {} {})", hex(&r.key.to_string()), hex(&r.text), ref_type(r.reference_type)),
        Node::Table(t) => format!(
            "(table (head{}) (align{}) (rows{}))",
            t.header.iter().map(|c| format!(" {}", gil(c))).collect::<String>(),
            t.alignment.iter().map(|a| format!(" {}", align(a))).collect::<String>(),
            t.rows.iter().map(|r| format!(" (row{})", r.iter().map(|c| format!(" {}", gil(c))).collect::<String>())).collect::<String>()
        ),
    }
}

pub fn tree(t: &Tree) -> String {
    format!("(t {} {}{})", optn(t.id), node(&t.node), t.children.iter().map(|c| format!(" {}", tree(c))).collect::<String>())
}

/// source file of the last panic of the process (set by the hook installed in `main`; a panic inside a rayon job is
/// raised on a worker thread and re-thrown on the caller's, so this is not a thread-local)
pub static LAST_PANIC_FILE: std::sync::Mutex<String> = std::sync::Mutex::new(String::new());

/// the quiet panic hook of the harness: nothing on stderr, the panic's source file is remembered
pub fn install_panic_hook(show: bool) {
    std::panic::set_hook(Box::new(move |info| {
        let file = info.location().map(|l| l.file().rsplit('/').next().unwrap_or("").to_string()).unwrap_or_default();
        if let Ok(mut f) = LAST_PANIC_FILE.lock() {
            *f = file;
        }
        if show {
            eprintln!("{}", info);
        }
    }));
}

/// the panic message, followed by ` [at <source file>]` (messages get reworded; the file a panic comes from is what
/// known findings are matched on)
pub fn catch<T>(f: impl FnOnce() -> T) -> Result<T, String> {
    if let Ok(mut f) = LAST_PANIC_FILE.lock() {
        f.clear();
    }
    std::panic::catch_unwind(std::panic::AssertUnwindSafe(f)).map_err(|e| {
        let msg = if let Some(s) = e.downcast_ref::<&str>() {
            s.to_string()
        } else if let Some(s) = e.downcast_ref::<String>() {
            s.clone()
        } else {
            "panic".to_string()
        };
        let file = LAST_PANIC_FILE.lock().map(|f| f.clone()).unwrap_or_default();
        if file.is_empty() { msg } else { format!("{} [at {}]", msg, file) }
    })
}

/// the parts of a graph state, in the order of lean/Driver/GraphOps.lean `stateS`
pub fn state_parts(g: &Graph, nlines: &std::collections::BTreeMap<String, usize>) -> Vec<(&'static str, String)> {
    let mut keys: Vec<Key> = g.keys();
    keys.sort_by(|a, b| a.to_string().cmp(&b.to_string()));
    let arena = format!("(arena{})", g.nodes().iter().map(|n| format!(" {}", gnode(g, n))).collect::<String>());
    let keys_s = format!("(keys{})", keys.iter().map(|k| format!(" ({} {})", hex(&k.to_string()), g.get_node_id(k).map(|i| i.to_string()).unwrap_or("none".into()))).collect::<String>());
    let titles = format!("(titles{})", keys.iter().map(|k| format!(" ({} {})", hex(&k.to_string()), opt(g.get_key_title(k).map(|t| hex(&t))))).collect::<String>());
    let md = format!(
        "(md{})",
        keys.iter()
            .map(|k| match catch(|| g.to_markdown(k)) {
                Ok(s) => format!(" ({} {})", hex(&k.to_string()), hex(&s)),
                Err(e) => format!(" ({} (panic {}))", hex(&k.to_string()), hex(&e)),
            })
            .collect::<String>()
    );
    let sorted = |mut v: Vec<u64>| {
        v.sort();
        v.dedup();
        v.iter().map(|i| format!(" {}", i)).collect::<String>()
    };
    let brefs = format!("(brefs{})", keys.iter().map(|k| format!(" ({}{})", hex(&k.to_string()), sorted(g.get_block_references_to(k)))).collect::<String>());
    let irefs = format!("(irefs{})", keys.iter().map(|k| format!(" ({}{})", hex(&k.to_string()), sorted(g.get_inline_references_to(k)))).collect::<String>());
    let ranges = format!(
        "(ranges{})",
        (0..g.nodes().len() as u64).filter_map(|id| g.node_line_range(id).map(|r| format!(" ({} {} {})", id, r.start, r.end))).collect::<String>()
    );
    let at = format!(
        "(at{})",
        keys.iter()
            .map(|k| {
                let n = nlines.get(&k.to_string()).cloned().unwrap_or(0);
                format!(
                    " ({}{})",
                    hex(&k.to_string()),
                    (0..n)
                        .map(|line| match catch(|| g.get_node_id_at(k, line)) {
                            Ok(r) => format!(" {}", optn(r)),
                            Err(_) => " (error noKey)".to_string(),
                        })
                        .collect::<String>()
                )
            })
            .collect::<String>()
    );
    let metas = "(meta)".to_string(); // front-matter is private; it is observed through `md`
    let paths = match catch(|| g.paths()) {
        Ok(ps) => format!("(paths{})", ps.iter().map(|p| format!(" ({})", p.ids().iter().map(|i| i.to_string()).collect::<Vec<_>>().join(" "))).collect::<String>()),
        Err(e) => format!("(paths (panic {}))", hex(&e)),
    };
    let spaths = match catch(|| g.search_paths()) {
        Ok(ps) => format!(
            "(spaths{})",
            ps.iter()
                .map(|sp| format!(" ({} {} {} {} {} ({}))", hex(&sp.search_text), sp.node_rank, hex(&sp.key.to_string()), sp.root, sp.line, sp.path.ids().iter().map(|i| i.to_string()).collect::<Vec<_>>().join(" ")))
                .collect::<String>()
        ),
        Err(e) => format!("(spaths (panic {}))", hex(&e)),
    };
    vec![("arena", arena), ("keys", keys_s), ("titles", titles), ("md", md), ("brefs", brefs), ("irefs", irefs), ("ranges", ranges), ("at", at), ("meta", metas), ("paths", paths), ("spaths", spaths)]
}

/// split the children of a top-level list `(head a b c)` → ["head","a","b","c"]
pub fn children(s: &str) -> Vec<&str> {
    let b = s.as_bytes();
    let mut out = vec![];
    if b.first() != Some(&b'(') {
        return vec![s];
    }
    let mut i = 1;
    while i < b.len() {
        while i < b.len() && b[i] == b' ' {
            i += 1;
        }
        if i >= b.len() || b[i] == b')' {
            break;
        }
        let start = i;
        if b[i] == b'(' {
            let mut depth = 0;
            while i < b.len() {
                if b[i] == b'(' {
                    depth += 1;
                } else if b[i] == b')' {
                    depth -= 1;
                    if depth == 0 {
                        i += 1;
                        break;
                    }
                }
                i += 1;
            }
        } else {
            while i < b.len() && b[i] != b' ' && b[i] != b')' {
                i += 1;
            }
        }
        out.push(&s[start..i]);
    }
    out
}

pub fn node_kind(g: &Graph, id: u64) -> &'static str {
    match g.graph_node(id) {
        GraphNode::Empty => "empty",
        GraphNode::Document(_) => "document",
        GraphNode::Section(_) => "section",
        GraphNode::Quote(_) => "quote",
        GraphNode::BulletList(_) => "blist",
        GraphNode::OrderedList(_) => "olist",
        GraphNode::Leaf(_) => "leaf",
        GraphNode::Raw(_) => "raw",
        GraphNode::HorizontalRule(_) => "rule",
        GraphNode::Reference(_) => "ref",
        GraphNode::Table(_) => "table",
    }
}
