//! known_findings.jsonl: genuine defects of the pinned tree that are recorded rather than repaired.
//! The file is read-only at run time.  An `open` entry's witness is replayed on every run; while it
//! still fails the check prints a KNOWN-FINDING line (and a failing case that carries the entry's
//! feature is attributed to it instead of being reported as a new violation).
use crate::Ctx;
use serde_json::Value;

#[derive(Clone, Debug)]
pub struct Finding {
    pub property: String,
    pub id: String,
    pub status: String,
    pub what: String,
    pub witness: Value,
}

pub fn load(ctx: &Ctx, property: &str) -> Vec<Finding> {
    let path = format!("{}/known_findings.jsonl", ctx.verif_dir);
    let text = std::fs::read_to_string(path).unwrap_or_default();
    text.lines()
        .filter(|l| !l.trim().is_empty())
        .filter_map(|l| serde_json::from_str::<Value>(l).ok())
        .filter(|v| v["property"] == property)
        .map(|v| Finding {
            property: property.to_string(),
            id: v["id"].as_str().unwrap_or("").to_string(),
            status: v["status"].as_str().unwrap_or("").to_string(),
            what: v["what"].as_str().unwrap_or("").to_string(),
            witness: v["witness"].clone(),
        })
        .collect()
}

pub fn open(ctx: &Ctx, property: &str) -> Vec<Finding> {
    load(ctx, property).into_iter().filter(|f| f.status == "open").collect()
}

pub fn is_open(ctx: &Ctx, property: &str, id: &str) -> bool {
    open(ctx, property).iter().any(|f| f.id == id)
}
