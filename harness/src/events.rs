//! The pulldown-cmark event stream of a text in the model's line protocol, and the comparison of the
//! model reader (`lean/IweModel/Model/Reader.lean`) with `MarkdownReader::document` on it.
use crate::dump;
use crate::model::Model;
use crate::oracle::md;
use crate::sexp::*;
use liwe::graph::Reader;
use liwe::markdown::MarkdownReader;
use pulldown_cmark::{Alignment, CodeBlockKind, Event, LinkType, Parser, Tag, TagEnd};

fn lt(t: &LinkType) -> &'static str {
    match t {
        LinkType::WikiLink { has_pothole: true } => "wikiPiped",
        LinkType::WikiLink { has_pothole: false } => "wiki",
        _ => "regular",
    }
}

pub fn events_sexp(text: &str) -> String {
    let mut out = String::from("(events");
    for (ev, r) in Parser::new_ext(text, md::options()).into_offset_iter() {
        let (s, e) = (r.start, r.end);
        let one = match ev {
            Event::Start(tag) => match tag {
                Tag::Paragraph => format!("(startPara {} {})", s, e),
                Tag::Heading { level, .. } => format!("(startHeading {} {} {})", s, e, level as u8),
                Tag::BlockQuote(_) => format!("(startQuote {} {})", s, e),
                Tag::CodeBlock(k) => {
                    let lang = match k {
                        CodeBlockKind::Fenced(l) if !l.is_empty() => Some(hex(&l)),
                        _ => None,
                    };
                    format!("(startCode {} {} {})", s, e, opt(lang))
                }
                Tag::HtmlBlock => "(startHtml)".to_string(),
                Tag::List(n) => format!("(startList {})", n.is_some()),
                Tag::Item => "(startItem)".to_string(),
                Tag::Table(al) => format!(
                    "(startTable {} {} (align{}))",
                    s,
                    e,
                    al.iter()
                        .map(|a| match a {
                            Alignment::None => " none",
                            Alignment::Left => " left",
                            Alignment::Center => " center",
                            Alignment::Right => " right",
                        })
                        .collect::<String>()
                ),
                Tag::TableRow => "(startRow)".to_string(),
                Tag::TableCell => "(startCell)".to_string(),
                Tag::Emphasis => format!("(startInline (emph) {} {})", s, e),
                Tag::Strong => format!("(startInline (strong) {} {})", s, e),
                Tag::Strikethrough => format!("(startInline (strike) {} {})", s, e),
                Tag::Link { dest_url, title, link_type, .. } => format!("(startInline (link {} {} {}) {} {})", hex(&dest_url), hex(&title), lt(&link_type), s, e),
                Tag::Image { dest_url, title, .. } => format!("(startInline (image {} {}) {} {})", hex(&dest_url), hex(&title), s, e),
                Tag::MetadataBlock(_) => "(startMeta)".to_string(),
                _ => "(ignored)".to_string(),
            },
            Event::End(tag) => match tag {
                TagEnd::Paragraph => "(endPara)".to_string(),
                TagEnd::Heading(_) => "(endHeading)".to_string(),
                TagEnd::BlockQuote(_) => "(endQuote)".to_string(),
                TagEnd::CodeBlock => "(endCode)".to_string(),
                TagEnd::HtmlBlock => "(endHtml)".to_string(),
                TagEnd::List(_) => "(endList)".to_string(),
                TagEnd::Item => "(endItem)".to_string(),
                TagEnd::Table => "(endTable)".to_string(),
                TagEnd::Emphasis | TagEnd::Strong | TagEnd::Strikethrough | TagEnd::Link | TagEnd::Image => "(endInline)".to_string(),
                TagEnd::MetadataBlock(_) => "(endMeta)".to_string(),
                _ => "(ignored)".to_string(),
            },
            Event::Text(t) => format!("(text {} {} {})", s, e, hex(&t)),
            Event::Code(t) => format!("(code {} {} {})", s, e, hex(&t)),
            Event::InlineMath(t) => format!("(math {} {} {})", s, e, hex(&t)),
            Event::InlineHtml(t) => format!("(inlineHtml {} {} {})", s, e, hex(&t)),
            Event::Rule => format!("(rule {} {})", s, e),
            _ => "(ignored)".to_string(),
        };
        out.push(' ');
        out.push_str(&one);
    }
    out.push(')');
    out
}

pub struct ReaderCmp {
    /// `complete` | `prefix` | `no`: the grammar verdict of Spec/Events.lean on the real parser's events
    pub grammar: String,
    /// the implementation panicked
    pub impl_panic: Option<String>,
    /// the model said `.error`
    pub model_error: bool,
    /// None = agree; Some = (model, implementation)
    pub differ: Option<(String, String)>,
}

/// None: the real reader's output uses a constructor outside the modelled fragment
pub fn compare_reader(model: &mut Model, text: &str) -> Option<ReaderCmp> {
    let real = dump::catch(|| MarkdownReader::new().document(text));
    let reply = model.call(&format!("(reader.read {} {})", hex(text), events_sexp(text)));
    let parts = dump::children(&reply);
    if parts.first() != Some(&"reader") || parts.len() < 3 {
        return Some(ReaderCmp { grammar: "?".into(), impl_panic: None, model_error: false, differ: Some((reply.chars().take(300).collect(), "(protocol)".into())) });
    }
    let grammar = parts[1].to_string();
    let result = parts[2];
    let model_error = result.starts_with("(error");
    match real {
        Err(p) => Some(ReaderCmp { grammar, impl_panic: Some(p.clone()), model_error, differ: if model_error { None } else { Some((result.chars().take(300).collect(), format!("panic {}", p))) } }),
        Ok(doc) => {
            let want = format!("(ok {})", dump::document(&doc.blocks, &doc.metadata)?);
            let differ = if want == result {
                None
            } else {
                // first differing position, with context
                let i = want.bytes().zip(result.bytes()).position(|(a, b)| a != b).unwrap_or(want.len().min(result.len()));
                let from = i.saturating_sub(60);
                Some((result.chars().skip(from).take(200).collect(), want.chars().skip(from).take(200).collect()))
            };
            Some(ReaderCmp { grammar, impl_panic: None, model_error, differ })
        }
    }
}

// ---- flat text content (lean/IweModel/Spec/Flat.lean, theorem C01.reader_content) ----------------------------------

/// the harness' own concatenation of the texts the parser reports (front-matter block excepted), and whether a
/// `Text` event occurs inside an HTML block
pub fn flat_events(text: &str) -> (String, bool) {
    let (mut out, mut in_meta, mut html_depth, mut html_text) = (String::new(), false, 0usize, false);
    for ev in Parser::new_ext(text, md::options()) {
        match ev {
            Event::Start(Tag::MetadataBlock(_)) => in_meta = true,
            Event::End(TagEnd::MetadataBlock(_)) => in_meta = false,
            Event::Start(Tag::HtmlBlock) => html_depth += 1,
            Event::End(TagEnd::HtmlBlock) => html_depth = html_depth.saturating_sub(1),
            Event::Text(t) => {
                if html_depth > 0 {
                    html_text = true;
                }
                if !in_meta {
                    out.push_str(&t)
                }
            }
            Event::Code(t) | Event::InlineMath(t) | Event::InlineHtml(t) => out.push_str(&t),
            _ => {}
        }
    }
    (out, html_text)
}

fn flat_inlines(xs: &[liwe::model::document::DocumentInline], out: &mut String) -> Option<()> {
    use liwe::model::document::DocumentInline as I;
    for x in xs {
        match x {
            I::Str(s) => out.push_str(s),
            I::Code(c) => out.push_str(&c.text),
            I::Math(m) => out.push_str(&m.content),
            I::Emph(e) => flat_inlines(&e.inlines, out)?,
            I::Strong(e) => flat_inlines(&e.inlines, out)?,
            I::Strikeout(e) => flat_inlines(&e.inlines, out)?,
            I::Link(l) => flat_inlines(&l.inlines, out)?,
            I::Image(l) => flat_inlines(&l.inlines, out)?,
            _ => return None,
        }
    }
    Some(())
}

/// flat text of the real reader's blocks; None = a constructor outside the modelled fragment
pub fn flat_blocks(bs: &[liwe::model::document::DocumentBlock], out: &mut String) -> Option<()> {
    use liwe::model::document::DocumentBlock as B;
    for b in bs {
        match b {
            B::Para(p) => flat_inlines(&p.inlines, out)?,
            B::Header(h) => flat_inlines(&h.inlines, out)?,
            B::CodeBlock(c) => out.push_str(&c.text),
            B::BlockQuote(q) => flat_blocks(&q.blocks, out)?,
            B::BulletList(l) => {
                for it in &l.items {
                    flat_blocks(it, out)?
                }
            }
            B::OrderedList(l) => {
                for it in &l.items {
                    flat_blocks(it, out)?
                }
            }
            B::HorizontalRule(_) => {}
            B::Table(t) => {
                for c in &t.header {
                    flat_inlines(c, out)?
                }
                for r in &t.rows {
                    for c in r {
                        flat_inlines(c, out)?
                    }
                }
            }
            _ => return None,
        }
    }
    Some(())
}

pub struct FlatCmp {
    /// C07.reader_outline: top-level heading levels — (model's `levelsEv`, harness' own from the parser's events, from the real reader's blocks)
    pub levels: (Vec<u32>, Vec<u32>, Vec<u32>),
    pub grammar: String,
    pub html_free: bool,
    /// statement of `C01.reader_content` on the implementation: flat(real blocks) = flat(real events); None = not applicable
    pub impl_holds: Option<bool>,
    /// the model's two sides agree with the harness' own (events side, blocks side); None = not comparable
    pub model_events_agree: bool,
    pub model_blocks_agree: Option<bool>,
    pub detail: String,
}

/// heading levels the parser reports while nothing else is open (own pass over the events)
pub fn top_heading_levels(text: &str) -> Vec<u32> {
    let (mut depth, mut out) = (0usize, vec![]);
    for ev in Parser::new_ext(text, md::options()) {
        match ev {
            Event::Start(Tag::Heading { level, .. }) => {
                if depth == 0 {
                    out.push(level as u32);
                }
                depth += 1;
            }
            Event::Start(Tag::MetadataBlock(_)) | Event::End(TagEnd::MetadataBlock(_)) => {}
            Event::Start(_) => depth += 1,
            Event::End(_) => depth = depth.saturating_sub(1),
            _ => {}
        }
    }
    out
}

/// both sides of `C01.reader_content` for one text: from the Lean definitions (driver) and from the harness' own pass
/// over the real parser's events and the real reader's blocks
pub fn compare_flat(model: &mut Model, text: &str) -> Option<FlatCmp> {
    let real = dump::catch(|| MarkdownReader::new().document(text)).ok()?;
    let mut rb = String::new();
    flat_blocks(&real.blocks, &mut rb)?;
    let (re, html_text) = flat_events(text);
    let reply = model.call(&format!("(reader.read {} {})", hex(text), events_sexp(text)));
    let parts = dump::children(&reply);
    if parts.first() != Some(&"reader") || parts.len() < 4 {
        return Some(FlatCmp { levels: (vec![], vec![], vec![]), grammar: "?".into(), html_free: false, impl_holds: None, model_events_agree: false, model_blocks_agree: None, detail: format!("protocol: {}", reply.chars().take(200).collect::<String>()) });
    }
    let grammar = parts[1].to_string();
    let flat = dump::children(parts[3]);
    let html_free = flat.get(1) == Some(&"true");
    let me = flat.get(2).and_then(|s| unhex(s)).unwrap_or_default();
    let mb = flat.get(3).and_then(|s| {
        let c = dump::children(s);
        if c.first() == Some(&"some") { c.get(1).and_then(|h| unhex(h)) } else { None }
    });
    let model_levels: Vec<u32> = flat.get(4).map(|s| dump::children(s)[1..].iter().filter_map(|n| n.parse().ok()).collect()).unwrap_or_default();
    let block_levels: Vec<u32> = real.blocks.iter().filter_map(|b| if let liwe::model::document::DocumentBlock::Header(h) = b { Some(h.level as u32) } else { None }).collect();
    let levels = (model_levels, top_heading_levels(text), block_levels);
    let applicable = grammar == "complete" && html_free && !html_text;
    let impl_holds = if applicable { Some(rb == re) } else { None };
    let detail = if impl_holds == Some(false) {
        let i = rb.bytes().zip(re.bytes()).position(|(a, b)| a != b).unwrap_or(rb.len().min(re.len()));
        let from = i.saturating_sub(30);
        format!("blocks …{:?} vs events …{:?}", rb.chars().skip(from).take(80).collect::<String>(), re.chars().skip(from).take(80).collect::<String>())
    } else {
        String::new()
    };
    Some(FlatCmp { levels, grammar, html_free, impl_holds, model_events_agree: me == re && html_free != html_text, model_blocks_agree: mb.map(|m| m == rb), detail })
}
