//! The pulldown-cmark event stream of a text in the model's line protocol, and the comparison of the
//! model reader (`lean/IweModel/Model/Reader.lean`) with `MarkdownReader::document` on it.
use crate::dump;
use crate::model::Model;
use crate::oracle::md;
use crate::sexp::*;
use liwe::graph::Reader;
use liwe::markdown::MarkdownReader;
use pulldown_cmark::{Alignment, CodeBlockKind, Event, LinkType, Parser, Tag, TagEnd};

fn lt(t: &LinkType) -> &'static str {
    match t {
        LinkType::WikiLink { has_pothole: true } => "wikiPiped",
        LinkType::WikiLink { has_pothole: false } => "wiki",
        _ => "regular",
    }
}

pub fn events_sexp(text: &str) -> String {
    let mut out = String::from("(events");
    for (ev, r) in Parser::new_ext(text, md::options()).into_offset_iter() {
        let (s, e) = (r.start, r.end);
        let one = match ev {
            Event::Start(tag) => match tag {
                Tag::Paragraph => format!("(startPara {} {})", s, e),
                Tag::Heading { level, .. } => format!("(startHeading {} {} {})", s, e, level as u8),
                Tag::BlockQuote(_) => format!("(startQuote {} {})", s, e),
                Tag::CodeBlock(k) => {
                    let lang = match k {
                        CodeBlockKind::Fenced(l) if !l.is_empty() => Some(hex(&l)),
                        _ => None,
                    };
                    format!("(startCode {} {} {})", s, e, opt(lang))
                }
                Tag::HtmlBlock => "(startHtml)".to_string(),
                Tag::List(n) => format!("(startList {})", n.is_some()),
                Tag::Item => "(startItem)".to_string(),
                Tag::Table(al) => format!(
                    "(startTable {} {} (align{}))",
                    s,
                    e,
                    al.iter()
                        .map(|a| match a {
                            Alignment::None => " none",
                            Alignment::Left => " left",
                            Alignment::Center => " center",
                            Alignment::Right => " right",
                        })
                        .collect::<String>()
                ),
                Tag::TableRow => "(startRow)".to_string(),
                Tag::TableCell => "(startCell)".to_string(),
                Tag::Emphasis => format!("(startInline (emph) {} {})", s, e),
                Tag::Strong => format!("(startInline (strong) {} {})", s, e),
                Tag::Strikethrough => format!("(startInline (strike) {} {})", s, e),
                Tag::Link { dest_url, title, link_type, .. } => format!("(startInline (link {} {} {}) {} {})", hex(&dest_url), hex(&title), lt(&link_type), s, e),
                Tag::Image { dest_url, title, .. } => format!("(startInline (image {} {}) {} {})", hex(&dest_url), hex(&title), s, e),
                Tag::MetadataBlock(_) => "(startMeta)".to_string(),
                _ => "(ignored)".to_string(),
            },
            Event::End(tag) => match tag {
                TagEnd::Paragraph => "(endPara)".to_string(),
                TagEnd::Heading(_) => "(endHeading)".to_string(),
                TagEnd::BlockQuote(_) => "(endQuote)".to_string(),
                TagEnd::CodeBlock => "(endCode)".to_string(),
                TagEnd::HtmlBlock => "(endHtml)".to_string(),
                TagEnd::List(_) => "(endList)".to_string(),
                TagEnd::Item => "(endItem)".to_string(),
                TagEnd::Table => "(endTable)".to_string(),
                TagEnd::Emphasis | TagEnd::Strong | TagEnd::Strikethrough | TagEnd::Link | TagEnd::Image => "(endInline)".to_string(),
                TagEnd::MetadataBlock(_) => "(endMeta)".to_string(),
                _ => "(ignored)".to_string(),
            },
            Event::Text(t) => format!("(text {} {} {})", s, e, hex(&t)),
            Event::Code(t) => format!("(code {} {} {})", s, e, hex(&t)),
            Event::InlineMath(t) => format!("(math {} {} {})", s, e, hex(&t)),
            Event::InlineHtml(t) => format!("(inlineHtml {} {} {})", s, e, hex(&t)),
            Event::Rule => format!("(rule {} {})", s, e),
            _ => "(ignored)".to_string(),
        };
        out.push(' ');
        out.push_str(&one);
    }
    out.push(')');
    out
}

pub struct ReaderCmp {
    /// `complete` | `prefix` | `no`: the grammar verdict of Spec/Events.lean on the real parser's events
    pub grammar: String,
    /// the implementation panicked
    pub impl_panic: Option<String>,
    /// the model said `.error`
    pub model_error: bool,
    /// None = agree; Some = (model, implementation)
    pub differ: Option<(String, String)>,
}

/// None: the real reader's output uses a constructor outside the modelled fragment
pub fn compare_reader(model: &mut Model, text: &str) -> Option<ReaderCmp> {
    let real = dump::catch(|| MarkdownReader::new().document(text));
    let reply = model.call(&format!("(reader.read {} {})", hex(text), events_sexp(text)));
    let parts = dump::children(&reply);
    if parts.first() != Some(&"reader") || parts.len() < 3 {
        return Some(ReaderCmp { grammar: "?".into(), impl_panic: None, model_error: false, differ: Some((reply.chars().take(300).collect(), "(protocol)".into())) });
    }
    let grammar = parts[1].to_string();
    let result = parts[2];
    let model_error = result.starts_with("(error");
    match real {
        Err(p) => Some(ReaderCmp { grammar, impl_panic: Some(p.clone()), model_error, differ: if model_error { None } else { Some((result.chars().take(300).collect(), format!("panic {}", p))) } }),
        Ok(doc) => {
            let want = format!("(ok {})", dump::document(&doc.blocks, &doc.metadata)?);
            let differ = if want == result {
                None
            } else {
                // first differing position, with context
                let i = want.bytes().zip(result.bytes()).position(|(a, b)| a != b).unwrap_or(want.len().min(result.len()));
                let from = i.saturating_sub(60);
                Some((result.chars().skip(from).take(200).collect(), want.chars().skip(from).take(200).collect()))
            };
            Some(ReaderCmp { grammar, impl_panic: None, model_error, differ })
        }
    }
}
