//! Driving the real code actions / rename of the LSP server in-process and applying their edits.
use crate::dump;
use crate::sexp::*;
use iwes::router::server::Server;
use iwes::router::{LspClient, ServerConfig};
use liwe::model::config::{Configuration, MarkdownOptions};
use lsp_types::*;
use std::collections::{BTreeMap, HashMap};

#[derive(Clone, Debug, PartialEq)]
pub enum Change {
    Create(String),
    Update(String, String),
    Remove(String),
}

pub type Lib = BTreeMap<String, String>;

pub fn server(lib: &Lib, ext: &str, sequential: bool) -> Server {
    let mut configuration = Configuration::default();
    configuration.markdown = MarkdownOptions { refs_extension: ext.to_string() };
    let state: HashMap<String, String> = lib.iter().map(|(k, v)| (k.clone(), v.clone())).collect();
    Server::new(ServerConfig { base_path: "/lib".to_string(), state, sequential_ids: Some(sequential), configuration, lsp_client: LspClient::Unknown })
}

pub fn uri(key: &str) -> Url {
    Url::parse(&format!("file:///lib/{}.md", key)).unwrap()
}

pub fn key_of_uri(uri: &Url) -> String {
    uri.path().trim_start_matches("/lib/").trim_end_matches(".md").to_string()
}

pub fn changes_of_edit(edit: &WorkspaceEdit) -> Vec<Change> {
    let mut out = vec![];
    if let Some(DocumentChanges::Operations(ops)) = &edit.document_changes {
        for op in ops {
            match op {
                DocumentChangeOperation::Op(ResourceOp::Create(c)) => out.push(Change::Create(key_of_uri(&c.uri))),
                DocumentChangeOperation::Op(ResourceOp::Delete(d)) => out.push(Change::Remove(key_of_uri(&d.uri))),
                DocumentChangeOperation::Op(ResourceOp::Rename(_)) => {}
                DocumentChangeOperation::Edit(e) => {
                    let text = e.edits.iter().map(|x| match x {
                        OneOf::Left(t) => t.new_text.clone(),
                        OneOf::Right(a) => a.text_edit.new_text.clone(),
                    }).collect::<String>();
                    out.push(Change::Update(key_of_uri(&e.text_document.uri), text));
                }
            }
        }
    }
    out
}

/// the actions offered at `line` of note `key`: (kind, node id, resolved changes or the panic message)
/// finding D25: "Inline section" on a reference from a note to itself recurses forever in
/// `Tree::append_pre_header` and overflows the stack (an abort, not a panic): never resolved in-process
pub fn is_self_reference(lib: &Lib, key: &str, line: u32) -> bool {
    let dir = liwe::model::Key::from_file_name(key).parent();
    lib.get(key)
        .map(|t| crate::oracle::md::read(t, &dir).links.iter().any(|l| l.block_level && l.line == line as usize && crate::oracle::md::resolve(&l.dest, &dir) == key))
        .unwrap_or(false)
}

pub fn actions_at_guarded(server: &Server, lib: &Lib, key: &str, line: u32) -> Result<Vec<(String, u64, Result<Vec<Change>, String>)>, String> {
    actions_at_impl(server, key, line, is_self_reference(lib, key, line))
}

pub fn actions_at(server: &Server, key: &str, line: u32) -> Result<Vec<(String, u64, Result<Vec<Change>, String>)>, String> {
    actions_at_impl(server, key, line, false)
}

fn actions_at_impl(server: &Server, key: &str, line: u32, self_ref: bool) -> Result<Vec<(String, u64, Result<Vec<Change>, String>)>, String> {
    let params = CodeActionParams {
        text_document: TextDocumentIdentifier { uri: uri(key) },
        range: Range::new(Position::new(line, 0), Position::new(line, 0)),
        context: CodeActionContext { diagnostics: vec![], only: None, trigger_kind: None },
        work_done_progress_params: Default::default(),
        partial_result_params: Default::default(),
    };
    let offered = dump::catch(|| server.handle_code_action(&params))?;
    let mut out = vec![];
    for a in offered {
        if let CodeActionOrCommand::CodeAction(ca) = a {
            let kind = ca.kind.clone().map(|k| k.as_str().to_string()).unwrap_or_default();
            let id = ca.data.clone().and_then(|d| d.as_u64()).unwrap_or(0);
            let resolved = if self_ref && kind == "refactor.inline.reference.section" {
                Err("SKIPPED self reference (finding D25: unbounded recursion)".to_string())
            } else {
                dump::catch(|| server.handle_code_action_resolve(&ca)).map(|r| r.edit.map(|e| changes_of_edit(&e)).unwrap_or_default())
            };
            out.push((kind, id, resolved));
        }
    }
    Ok(out)
}

pub fn apply(lib: &Lib, changes: &[Change]) -> Lib {
    let mut out = lib.clone();
    for c in changes {
        match c {
            Change::Create(k) => {
                out.entry(k.clone()).or_default();
            }
            Change::Update(k, t) => {
                out.insert(k.clone(), t.clone());
            }
            Change::Remove(k) => {
                out.remove(k);
            }
        }
    }
    out
}

pub fn change_s(c: &Change) -> String {
    match c {
        Change::Create(k) => format!("(create {})", hex(k)),
        Change::Update(k, t) => format!("(update {} {})", hex(k), hex(t)),
        Change::Remove(k) => format!("(remove {})", hex(k)),
    }
}

/// the library formatted once (so that line numbers are those of the canonical text)
pub fn formatted(lib: &[(String, String)], ext: &str) -> Option<Lib> {
    let st: HashMap<String, String> = lib.iter().cloned().collect();
    let g = dump::catch(|| liwe::graph::Graph::import(&st, MarkdownOptions { refs_extension: ext.to_string() })).ok()?;
    let e = dump::catch(|| g.export()).ok()?;
    Some(e.into_iter().collect())
}

pub fn rename(server: &Server, key: &str, line: u32, character: u32, new_name: &str) -> Result<Result<Option<Vec<Change>>, String>, String> {
    dump::catch(|| {
        server
            .handle_rename(RenameParams {
                text_document_position: TextDocumentPositionParams { text_document: TextDocumentIdentifier { uri: uri(key) }, position: Position::new(line, character) },
                new_name: new_name.to_string(),
                work_done_progress_params: Default::default(),
            })
            .map(|o| o.map(|e| changes_of_edit(&e)))
            .map_err(|e| e.message)
    })
}
