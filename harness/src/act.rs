//! Driving the real code actions / rename of the LSP server in-process and applying their edits.
use crate::dump;
use crate::sexp::*;
use iwes::router::server::Server;
use iwes::router::{LspClient, ServerConfig};
use liwe::model::config::{Configuration, MarkdownOptions};
use lsp_types::*;
use std::collections::{BTreeMap, HashMap};

#[derive(Clone, Debug, PartialEq)]
pub enum Change {
    Create(String),
    Update(String, String),
    Remove(String),
}

pub type Lib = BTreeMap<String, String>;

/// how the server's graph gets its notes: all at start-up (`Graph::import`), at start-up and then every note
/// re-sent through didChange with the same text (`update_key`), or all of them through didChange on an empty
/// server.  The three are the same state by C04; the oracles of the other properties draw one per case so
/// that a defect of the incremental path shows up in them too.
#[derive(Clone, Copy, Debug, PartialEq)]
pub enum Via {
    Import,
    Touch,
    Incremental,
    /// start-up with every note holding, before its own text, a block reference and an inline link to the next
    /// note of the library (and to a missing note); then every note set to its own text through didChange:
    /// every note was linked from another one before, and the edits removed those links
    Stale,
    /// start-up with two blank lines before every note's text, then every note set to its own text through
    /// didChange: only the position of every block changes
    Shifted,
    /// start-up with every run of blank lines of every note doubled, then every note set to its own text through
    /// didChange: for a text that is already in iwe's normal form this is what an editor sends after it applied the
    /// formatting edit — the new text is exactly what the graph renders, but every block sits on another line
    Echo,
}

thread_local! {
    static VIA: std::cell::Cell<Via> = std::cell::Cell::new(Via::Import);
}

pub fn via_from(v: &serde_json::Value) -> Via {
    match v.as_str().unwrap_or("") {
        "Touch" => Via::Touch,
        "Incremental" => Via::Incremental,
        "Stale" | "Rotated" => Via::Stale,
        "Shifted" => Via::Shifted,
        "Echo" => Via::Echo,
        _ => Via::Import,
    }
}

pub fn via_for(i: u64) -> Via {
    match i % 6 {
        5 => Via::Echo,
        0 => Via::Import,
        1 => Via::Touch,
        2 => Via::Incremental,
        3 => Via::Stale,
        _ => Via::Shifted,
    }
}

/// run `f` with every `server` / `server_with` built on this thread loading its notes by `via`
pub fn with_via<T>(via: Via, f: impl FnOnce() -> T) -> T {
    let old = VIA.with(|v| v.replace(via));
    let out = f();
    VIA.with(|v| v.set(old));
    out
}

pub fn server(lib: &Lib, ext: &str, sequential: bool) -> Server {
    let state: HashMap<String, String> = lib.iter().map(|(k, v)| (k.clone(), v.clone())).collect();
    server_with(&state, ext, sequential)
}

fn stale_state(state: &HashMap<String, String>) -> HashMap<String, String> {
    let mut keys: Vec<&String> = state.keys().collect();
    keys.sort();
    // outline paths are recomputed after every edit and grow with the number of reference chains:
    // the stale links form one ring over the notes (plus a missing note), and only in small libraries
    if keys.len() > 5 {
        return state.clone();
    }
    keys.iter()
        .enumerate()
        .map(|(i, k)| {
            let dir = crate::oracle::md::dir_of(k);
            let mut pre = String::new();
            for t in [keys[(i + 1) % keys.len()].as_str(), "stale-missing"] {
                let url = crate::oracle::md::rel_url(t, &dir);
                pre.push_str(&format!("[stale]({})\n\nwas [linked]({}) here\n\n", url, url));
            }
            // …and another title: the first heading of the stale version is not the note's own
            if !pre.is_empty() {
                pre = format!("# stale title of {}\n\n{}", k.replace('/', " "), pre);
            }
            ((*k).clone(), format!("{}{}", pre, state[*k]))
        })
        .collect()
}

/// a `Database` loaded the way the current `Via` says (see `server_with`)
pub fn database_with(state: &HashMap<String, String>, ext: &str, sequential: bool) -> liwe::database::Database {
    let via = VIA.with(|v| v.get());
    let mut keys: Vec<&String> = state.keys().collect();
    keys.sort();
    let initial: HashMap<String, String> = match via {
        Via::Incremental => HashMap::new(),
        Via::Stale => stale_state(state),
        Via::Shifted => state.iter().map(|(k, t)| (k.clone(), format!("\n\n{}", t))).collect(),
        Via::Echo => state.iter().map(|(k, t)| (k.clone(), t.replace("\n\n", "\n\n\n"))).collect(),
        _ => state.clone(),
    };
    let mut db = liwe::database::Database::new(initial, sequential, MarkdownOptions { refs_extension: ext.to_string() });
    if via != Via::Import {
        for k in keys {
            db.update_document(liwe::model::Key::from_file_name(k), state[k].clone());
        }
    }
    db
}

pub fn server_with(state: &HashMap<String, String>, ext: &str, sequential: bool) -> Server {
    let mut configuration = Configuration::default();
    configuration.markdown = MarkdownOptions { refs_extension: ext.to_string() };
    let via = VIA.with(|v| v.get());
    // the edit notifications address notes by URI: names that need percent-encoding are finding D15 (C14), such
    // libraries are loaded at start-up only
    let via = if state.keys().all(|k| k.chars().all(|c| c.is_ascii_alphanumeric() || "/._-~".contains(c))) { via } else { Via::Import };
    let initial = match via {
        Via::Incremental => HashMap::new(),
        Via::Stale => stale_state(state),
        Via::Shifted => state.iter().map(|(k, t)| (k.clone(), format!("\n\n{}", t))).collect(),
        Via::Echo => state.iter().map(|(k, t)| (k.clone(), t.replace("\n\n", "\n\n\n"))).collect(),
        _ => state.clone(),
    };
    let mut server = Server::new(ServerConfig { base_path: "/lib".to_string(), state: initial, sequential_ids: Some(sequential), configuration, lsp_client: LspClient::Unknown });
    if via != Via::Import {
        let mut keys: Vec<&String> = state.keys().collect();
        keys.sort();
        // the editor's two ways to deliver a text: didChange, and didSave with the text included (every other note)
        let nkeys = keys.len();
        for (i, k) in keys.into_iter().enumerate() {
            if (i + nkeys) % 2 == 0 {
                server.handle_did_change_text_document(DidChangeTextDocumentParams {
                    text_document: VersionedTextDocumentIdentifier { uri: uri(k), version: 1 },
                    content_changes: vec![TextDocumentContentChangeEvent { range: None, range_length: None, text: state[k].clone() }],
                });
            } else {
                server.handle_did_save_text_document(DidSaveTextDocumentParams { text_document: TextDocumentIdentifier { uri: uri(k) }, text: Some(state[k].clone()) });
            }
            // between the edits an editor keeps asking: whatever the server remembers from an answer given in an
            // intermediate state must not show in the answers about the final state
            if nkeys <= 6 {
                warm(&server, state);
            }
        }
    }
    server
}

/// read-only requests of every family on every note (answers ignored, panics too: C03 / C12 judge those)
pub fn warm(server: &Server, state: &HashMap<String, String>) {
    for k in state.keys() {
        let td = TextDocumentIdentifier { uri: uri(k) };
        let _ = dump::catch(|| server.handle_document_formatting(DocumentFormattingParams { text_document: td.clone(), options: FormattingOptions::default(), work_done_progress_params: Default::default() }));
        let _ = dump::catch(|| server.handle_inlay_hints(InlayHintParams { text_document: td.clone(), range: Range::default(), work_done_progress_params: Default::default() }));
        let _ = dump::catch(|| server.handle_document_symbols(DocumentSymbolParams { text_document: td.clone(), work_done_progress_params: Default::default(), partial_result_params: Default::default() }));
        let _ = dump::catch(|| {
            server.handle_completion(CompletionParams {
                text_document_position: TextDocumentPositionParams { text_document: td.clone(), position: Position::new(0, 0) },
                work_done_progress_params: Default::default(),
                partial_result_params: Default::default(),
                context: None,
            })
        });
        let _ = dump::catch(|| {
            server.handle_references(ReferenceParams {
                text_document_position: TextDocumentPositionParams { text_document: td.clone(), position: Position::new(0, 0) },
                work_done_progress_params: Default::default(),
                partial_result_params: Default::default(),
                context: ReferenceContext { include_declaration: false },
            })
        });
    }
    let _ = dump::catch(|| server.handle_workspace_symbols(WorkspaceSymbolParams { query: String::new(), ..Default::default() }));
}

pub fn uri(key: &str) -> Url {
    Url::parse(&format!("file:///lib/{}.md", key)).unwrap()
}

pub fn key_of_uri(uri: &Url) -> String {
    uri.path().trim_start_matches("/lib/").trim_end_matches(".md").to_string()
}

pub fn changes_of_edit(edit: &WorkspaceEdit) -> Vec<Change> {
    let mut out = vec![];
    if let Some(DocumentChanges::Operations(ops)) = &edit.document_changes {
        for op in ops {
            match op {
                DocumentChangeOperation::Op(ResourceOp::Create(c)) => out.push(Change::Create(key_of_uri(&c.uri))),
                DocumentChangeOperation::Op(ResourceOp::Delete(d)) => out.push(Change::Remove(key_of_uri(&d.uri))),
                DocumentChangeOperation::Op(ResourceOp::Rename(_)) => {}
                DocumentChangeOperation::Edit(e) => {
                    let text = e.edits.iter().map(|x| match x {
                        OneOf::Left(t) => t.new_text.clone(),
                        OneOf::Right(a) => a.text_edit.new_text.clone(),
                    }).collect::<String>();
                    out.push(Change::Update(key_of_uri(&e.text_document.uri), text));
                }
            }
        }
    }
    out
}

/// the actions offered at `line` of note `key`: (kind, node id, resolved changes or the panic message)
/// finding D25: "Inline section" on a reference from a note to itself recurses forever in
/// `Tree::append_pre_header` and overflows the stack (an abort, not a panic): never resolved in-process
pub fn is_self_reference(lib: &Lib, key: &str, line: u32) -> bool {
    let dir = crate::oracle::md::dir_of(key);
    lib.get(key)
        .map(|t| crate::oracle::md::read(t, &dir).links.iter().any(|l| l.block_level && l.line == line as usize && crate::oracle::md::resolve(&l.dest, &dir) == key))
        .unwrap_or(false)
}

pub fn actions_at_guarded(server: &Server, lib: &Lib, key: &str, line: u32) -> Result<Vec<(String, u64, Result<Vec<Change>, String>)>, String> {
    actions_at_impl(server, key, line, is_self_reference(lib, key, line))
}

pub fn actions_at(server: &Server, key: &str, line: u32) -> Result<Vec<(String, u64, Result<Vec<Change>, String>)>, String> {
    actions_at_impl(server, key, line, false)
}

fn actions_at_impl(server: &Server, key: &str, line: u32, self_ref: bool) -> Result<Vec<(String, u64, Result<Vec<Change>, String>)>, String> {
    let params = CodeActionParams {
        text_document: TextDocumentIdentifier { uri: uri(key) },
        range: Range::new(Position::new(line, 0), Position::new(line, 0)),
        context: CodeActionContext { diagnostics: vec![], only: None, trigger_kind: None },
        work_done_progress_params: Default::default(),
        partial_result_params: Default::default(),
    };
    let offered = dump::catch(|| server.handle_code_action(&params))?;
    let mut out = vec![];
    for a in offered {
        if let CodeActionOrCommand::CodeAction(ca) = a {
            let kind = ca.kind.clone().map(|k| k.as_str().to_string()).unwrap_or_default();
            let id = ca.data.clone().and_then(|d| d.as_u64()).unwrap_or(0);
            let resolved = if self_ref && kind == "refactor.inline.reference.section" {
                Err("SKIPPED self reference (finding D25: unbounded recursion)".to_string())
            } else {
                dump::catch(|| server.handle_code_action_resolve(&ca)).map(|r| r.edit.map(|e| changes_of_edit(&e)).unwrap_or_default())
            };
            out.push((kind, id, resolved));
        }
    }
    Ok(out)
}

pub fn apply(lib: &Lib, changes: &[Change]) -> Lib {
    let mut out = lib.clone();
    for c in changes {
        match c {
            Change::Create(k) => {
                out.entry(k.clone()).or_default();
            }
            Change::Update(k, t) => {
                out.insert(k.clone(), t.clone());
            }
            Change::Remove(k) => {
                out.remove(k);
            }
        }
    }
    out
}

pub fn change_s(c: &Change) -> String {
    match c {
        Change::Create(k) => format!("(create {})", hex(k)),
        Change::Update(k, t) => format!("(update {} {})", hex(k), hex(t)),
        Change::Remove(k) => format!("(remove {})", hex(k)),
    }
}

/// the library formatted once (so that line numbers are those of the canonical text)
pub fn formatted(lib: &[(String, String)], ext: &str) -> Option<Lib> {
    let st: HashMap<String, String> = lib.iter().cloned().collect();
    let g = dump::catch(|| liwe::graph::Graph::import(&st, MarkdownOptions { refs_extension: ext.to_string() })).ok()?;
    let e = dump::catch(|| g.export()).ok()?;
    Some(e.into_iter().collect())
}

pub fn rename(server: &Server, key: &str, line: u32, character: u32, new_name: &str) -> Result<Result<Option<Vec<Change>>, String>, String> {
    dump::catch(|| {
        server
            .handle_rename(RenameParams {
                text_document_position: TextDocumentPositionParams { text_document: TextDocumentIdentifier { uri: uri(key) }, position: Position::new(line, character) },
                new_name: new_name.to_string(),
                work_done_progress_params: Default::default(),
            })
            .map(|o| o.map(|e| changes_of_edit(&e)))
            .map_err(|e| e.message)
    })
}
