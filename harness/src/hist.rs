//! Libraries and edit histories, run on the real `Graph` and on the Lean model.
use crate::dump;
use crate::gen::{self, Profile};
use crate::model::Model;
use crate::rng::Rng;
use crate::sexp::*;
use liwe::graph::{Graph, Reader};
use liwe::markdown::MarkdownReader;
use liwe::model::config::MarkdownOptions;
use liwe::model::Key;
use std::collections::{BTreeMap, HashMap};

pub const KEY_POOL: &[&str] = &["a", "b", "c", "d/x", "d/y", "d/e/z", "f/x", "n1", "d2/x", "d", "v1.2", "v1"];

#[derive(Clone, Debug)]
pub struct History {
    pub ext: String,
    pub import: Vec<(String, String)>,
    pub steps: Vec<(String, String)>,
}

pub fn profile_for(keys: &[String], key: &str, wf: bool) -> Profile {
    Profile { keys: keys.to_vec(), dir: crate::oracle::md::dir_of(key), wf, ..Default::default() }
}

pub fn gen_history(r: &mut Rng, wf: bool, max_steps: usize) -> History {
    let n = r.range(1, 5);
    let mut pool: Vec<String> = KEY_POOL.iter().map(|s| s.to_string()).collect();
    // shuffle
    for i in (1..pool.len()).rev() {
        let j = r.below(i + 1);
        pool.swap(i, j);
    }
    let keys: Vec<String> = pool[..n].to_vec();
    let all: Vec<String> = pool[..(n + 2).min(pool.len())].to_vec();
    let import = keys.iter().map(|k| (k.clone(), gen::document(r, &profile_for(&all, k, wf)))).collect();
    let steps = (0..r.range(0, max_steps))
        .map(|_| {
            let k = r.pick(&all).clone();
            let mut p = profile_for(&all, &k, wf);
            if r.chance(1, 4) {
                p.max_blocks = 2;
            }
            (k.clone(), gen::document(r, &p))
        })
        .collect();
    History { ext: if r.chance(1, 3) { ".md".into() } else { String::new() }, import, steps }
}

pub fn nlines(text: &str) -> usize {
    text.lines().count() + 2
}

/// the model request; None if some document uses constructs outside the modelled fragment or the reader panics
pub fn request(h: &History) -> Option<String> {
    let entry = |k: &String, t: &String| -> Option<String> {
        let d = dump::catch(|| MarkdownReader::new().document(t)).ok()?;
        Some(format!("({} {} {})", hex(k), nlines(t), dump::document(&d.blocks, &d.metadata)?))
    };
    let imp: Option<Vec<String>> = h.import.iter().map(|(k, t)| entry(k, t)).collect();
    let steps: Option<Vec<String>> = h.steps.iter().map(|(k, t)| entry(k, t)).collect();
    Some(format!("(graph.history {} (import {}) (steps {}))", hex(&h.ext), imp?.join(" "), steps?.join(" ")))
}

pub enum ImplState {
    Parts(Vec<(&'static str, String)>),
    Panic(String),
}

/// run the history on the real graph; after import and after every step: state parts (or the panic)
pub fn run_impl(h: &History, mut visit: impl FnMut(usize, &Graph)) -> Vec<ImplState> {
    let mut out = vec![];
    let state: HashMap<String, String> = h.import.iter().cloned().collect();
    let mut nl: BTreeMap<String, usize> = h.import.iter().map(|(k, t)| (Key::from_file_name(k).to_string(), nlines(t))).collect();
    let opts = MarkdownOptions { refs_extension: h.ext.clone() };
    let mut graph = match dump::catch(|| Graph::import(&state, opts)) {
        Ok(g) => g,
        Err(e) => {
            out.push(ImplState::Panic(e));
            return out;
        }
    };
    out.push(ImplState::Parts(dump::state_parts(&graph, &nl)));
    visit(0, &graph);
    for (i, (k, t)) in h.steps.iter().enumerate() {
        let key = Key::from_file_name(k);
        let r = dump::catch(|| {
            graph.update_key(key.clone(), t);
        });
        if let Err(e) = r {
            out.push(ImplState::Panic(e));
            return out;
        }
        nl.insert(key.to_string(), nlines(t));
        out.push(ImplState::Parts(dump::state_parts(&graph, &nl)));
        visit(i + 1, &graph);
    }
    out
}

/// like `run_impl`, but an update that panics does not end the history (the server catches the panic and keeps
/// serving): `visit` is called after every step that did not panic, with `dirty` = some note's latest update
/// panicked and it has not been updated successfully since (its tree may be half built)
pub fn run_impl_resilient(h: &History, mut visit: impl FnMut(usize, &Graph, bool)) {
    let state: HashMap<String, String> = h.import.iter().cloned().collect();
    let opts = MarkdownOptions { refs_extension: h.ext.clone() };
    let Ok(mut graph) = dump::catch(|| Graph::import(&state, opts)) else { return };
    visit(0, &graph, false);
    let mut broken: std::collections::HashSet<String> = Default::default();
    for (i, (k, t)) in h.steps.iter().enumerate() {
        let key = Key::from_file_name(k);
        let r = dump::catch(|| {
            graph.update_key(key.clone(), t);
        });
        match r {
            Err(_) => {
                broken.insert(key.to_string());
            }
            Ok(()) => {
                broken.remove(&key.to_string());
                visit(i + 1, &graph, !broken.is_empty());
            }
        }
    }
}

pub struct Diff {
    pub step: usize,
    pub part: String,
    pub model: String,
    pub imp: String,
}

fn first_diff(a: &str, b: &str) -> (String, String) {
    let ca = dump::children(a);
    let cb = dump::children(b);
    for (x, y) in ca.iter().zip(cb.iter()) {
        if x != y {
            let cut = |s: &str| s.chars().take(400).collect::<String>();
            return (cut(x), cut(y));
        }
    }
    (format!("{} children", ca.len()), format!("{} children", cb.len()))
}

/// compare the model's reply with the implementation's states on the selected parts
pub fn compare(reply: &str, imp: &[ImplState], parts: &[&str]) -> Result<Vec<Diff>, String> {
    let states = dump::children(reply);
    if states.first() != Some(&"states") {
        return Err(format!("model reply: {}", &reply[..reply.len().min(300)]));
    }
    let mut diffs = vec![];
    for (i, st) in states[1..].iter().enumerate() {
        let Some(is) = imp.get(i) else {
            diffs.push(Diff { step: i, part: "length".into(), model: "state".into(), imp: "missing".into() });
            break;
        };
        let mparts = dump::children(st);
        match (mparts.first().cloned(), is) {
            (Some("error"), ImplState::Panic(_)) => break, // both fail (site comparison is C03's)
            (Some("error"), ImplState::Parts(_)) => {
                if st.contains("unmodelled") {
                    return Err("unmodelled".into());
                }
                diffs.push(Diff { step: i, part: "outcome".into(), model: st.to_string(), imp: "ok".into() });
                break;
            }
            (_, ImplState::Panic(e)) => {
                diffs.push(Diff { step: i, part: "outcome".into(), model: "ok".into(), imp: format!("panic {}", e) });
                break;
            }
            (_, ImplState::Parts(ip)) => {
                for (n, (name, text)) in ip.iter().enumerate() {
                    if !parts.contains(name) {
                        continue;
                    }
                    let m = mparts.get(n + 1).cloned().unwrap_or("");
                    if m != text {
                        let (dm, di) = first_diff(m, text);
                        diffs.push(Diff { step: i, part: name.to_string(), model: dm, imp: di });
                    }
                }
            }
        }
    }
    Ok(diffs)
}

/// delete import notes / steps while `still_bad` holds
pub fn shrink(h: &History, mut still_bad: impl FnMut(&History) -> bool) -> History {
    let mut cur = h.clone();
    loop {
        let mut progress = false;
        for i in (0..cur.steps.len()).rev() {
            let mut c = cur.clone();
            c.steps.remove(i);
            if still_bad(&c) {
                cur = c;
                progress = true;
            }
        }
        for i in (0..cur.import.len()).rev() {
            if cur.import.len() <= 1 {
                break;
            }
            let mut c = cur.clone();
            c.import.remove(i);
            if still_bad(&c) {
                cur = c;
                progress = true;
            }
        }
        // shrink texts: drop trailing paragraphs (blank-line separated chunks)
        for which in 0..(cur.import.len() + cur.steps.len()) {
            loop {
                let text = if which < cur.import.len() { cur.import[which].1.clone() } else { cur.steps[which - cur.import.len()].1.clone() };
                let chunks: Vec<&str> = text.split("\n\n").collect();
                if chunks.len() <= 1 {
                    break;
                }
                let mut done = false;
                for drop in (0..chunks.len()).rev() {
                    let mut cs = chunks.clone();
                    cs.remove(drop);
                    let t = cs.join("\n\n");
                    let mut c = cur.clone();
                    if which < c.import.len() { c.import[which].1 = t } else { let n = c.import.len(); c.steps[which - n].1 = t }
                    if still_bad(&c) {
                        cur = c;
                        progress = true;
                        done = true;
                        break;
                    }
                }
                if !done {
                    break;
                }
            }
        }
        if !progress {
            return cur;
        }
    }
}

pub fn to_json(h: &History) -> serde_json::Value {
    serde_json::json!({"ext": h.ext, "import": h.import, "steps": h.steps})
}

pub fn from_json(v: &serde_json::Value) -> Option<History> {
    let pairs = |x: &serde_json::Value| -> Option<Vec<(String, String)>> {
        x.as_array()?.iter().map(|p| Some((p.get(0)?.as_str()?.to_string(), p.get(1)?.as_str()?.to_string()))).collect()
    };
    Some(History { ext: v.get("ext")?.as_str()?.to_string(), import: pairs(v.get("import")?)?, steps: pairs(v.get("steps")?)? })
}

pub fn model_reply(model: &mut Model, h: &History) -> Option<String> {
    request(h).map(|r| model.call(&r))
}

/// only the named parts are computed by the model (the others come back as `(name skipped)`)
pub fn model_reply_parts(model: &mut Model, h: &History, parts: &[&str]) -> Option<String> {
    request(h).map(|r| {
        let r = format!("{} (parts {}))", &r[..r.len() - 1], parts.join(" "));
        model.call(&r)
    })
}

/// the `md` part of state `step` of a model reply: (key, Ok(text) | Err(site))
pub fn model_md(reply: &str, step: usize) -> Vec<(String, Result<String, String>)> {
    let states = dump::children(reply);
    let Some(st) = states.get(step + 1) else { return vec![] };
    let parts = dump::children(st);
    let Some(md) = parts.iter().find(|p| p.starts_with("(md")) else { return vec![] };
    dump::children(md)[1..]
        .iter()
        .map(|e| {
            let c = dump::children(e);
            let k = unhex(c[1 - 1]).unwrap_or_default();
            let v = c.get(1).cloned().unwrap_or("");
            (k, unhex(v).ok_or_else(|| v.to_string()))
        })
        .collect()
}
