//! C12 — every request gets exactly one response and the server keeps serving.
//! Part 1 (schedules with panicking handlers) is shared with C11; part 2 sends every advertised
//! method with every parameter class over the real message loop and matches responses by id.
use crate::known;
use crate::props::c11;
use crate::{model::Model, report::Report, rng::Rng, Ctx};
use crossbeam_channel::{unbounded, Receiver, Sender};
use iwes::router::{LspClient, Router, ServerConfig};
use liwe::model::config::Configuration;
use lsp_server::{Message, Notification, Request, RequestId};
use serde_json::{json, Value};
use std::collections::HashMap;
use std::time::Duration;

pub struct Session {
    to_server: Sender<Message>,
    from_server: Receiver<Message>,
    /// the message loop's result arrives here when `run` returns
    done: Receiver<bool>,
    next_id: i32,
}

impl Session {
    pub fn start(state: HashMap<String, String>) -> Session {
        let (to_server, server_rx): (Sender<Message>, Receiver<Message>) = unbounded();
        let (server_tx, from_server): (Sender<Message>, Receiver<Message>) = unbounded();
        let router = Router::new(server_tx, ServerConfig { base_path: "/lib".to_string(), state, sequential_ids: Some(true), configuration: Configuration::default(), lsp_client: LspClient::Unknown });
        let (done_tx, done) = unbounded();
        std::thread::spawn(move || {
            let _ = done_tx.send(router.run(server_rx).is_ok());
        });
        Session { to_server, from_server, done, next_id: 1 }
    }
    /// send a request, wait for the response with that id: (responses with this id, saw other ids)
    pub fn request(&mut self, method: &str, params: Value, wait: Duration) -> Vec<Value> {
        let id = self.next_id;
        self.next_id += 1;
        self.to_server.send(Message::Request(Request { id: RequestId::from(id), method: method.to_string(), params })).unwrap();
        let mut got = vec![];
        let deadline = std::time::Instant::now() + wait;
        loop {
            let left = deadline.saturating_duration_since(std::time::Instant::now());
            match self.from_server.recv_timeout(if got.is_empty() { left } else { Duration::from_millis(20) }) {
                Ok(Message::Response(r)) => {
                    if format!("{}", r.id) == id.to_string() {
                        got.push(json!({"result": r.result, "error": r.error.map(|e| e.message)}));
                    }
                }
                Ok(_) => {}
                Err(_) => break,
            }
        }
        got
    }
    pub fn notify(&mut self, method: &str, params: Value) {
        self.to_server.send(Message::Notification(Notification { method: method.to_string(), params })).unwrap();
    }
    pub fn finish(mut self) -> bool {
        self.notify("exit", json!(null));
        // a loop that is blocked behind a handler that never returns does not end: that is a verdict, not a reason to
        // wait for ever (the thread is left behind)
        self.done.recv_timeout(DEADLINE).unwrap_or(false)
    }
}

fn library() -> HashMap<String, String> {
    let mut st = HashMap::new();
    st.insert("a".to_string(), "# A\n\ntext [b](b) more\n\n[b](b)\n\n[gone](missing)\n\n- item one\n- item two\n\n## Sub\n\n[d](d/x)\n".to_string());
    st.insert("b".to_string(), "[top](a)\n\n# B\n\npara\n".to_string());
    st.insert("d/x".to_string(), "# X\n\n[up](../a)\n\ninline [a](../a) link\n".to_string());
    // notes without a heading (no title) that include each other, and one that includes itself: whatever walks from a
    // note to its including notes must terminate on them (keys sort behind `d/x`: the node ids of a, b, d/x stay)
    st.insert("h1".to_string(), "[two](h2)\n".to_string());
    st.insert("h2".to_string(), "[one](h1)\n\ntext [one](h1) inline\n".to_string());
    st.insert("hs".to_string(), "[self](hs)\n".to_string());
    st.insert("r".to_string(), "# Root\n\n## Part\n\n[a](a)\n".to_string());
    // dangling block references with long non-ASCII targets, shifted by 0-3 ASCII bytes so that any fixed byte
    // position falls inside a multi-byte character for some of them (whatever handles the panic text of a
    // request on them must cope with that)
    st.insert("u".to_string(), nonascii_note());
    st
}

pub const NONASCII_TARGETS: usize = 8;

fn nonascii_note() -> String {
    let mut t = String::from("# Ü\n");
    for i in 0..NONASCII_TARGETS {
        let base = if i % 2 == 0 { "список-прочитанных-книг-за-прошлый-год-и-планы-на-следующий" } else { "日本語のノートの長い名前がここに入りますそしてまだ続きます" };
        t.push_str(&format!("\n[ссылка]({}{})\n", "abc".chars().take(i / 2).collect::<String>(), base));
    }
    t
}

pub fn uri(k: &str) -> String {
    format!("file:///lib/{}.md", k)
}

/// (label, method, params): every advertised method × parameter classes
pub fn request_classes() -> Vec<(String, String, Value)> {
    let mut out = vec![];
    let uris = [("known", uri("a")), ("known-subdir", uri("d/x")), ("headingless-cycle", uri("h1")), ("headingless-self", uri("hs")), ("unknown-file", uri("nope")), ("outside-library", "file:///elsewhere/z.md".to_string())];
    let positions = [("inside-link", json!({"line": 2, "character": 7})), ("no-link", json!({"line": 0, "character": 0})), ("beyond-text", json!({"line": 9999, "character": 9999})), ("dangling-link", json!({"line": 6, "character": 3})), ("block-ref", json!({"line": 4, "character": 2}))];
    for (ul, u) in &uris {
        let td = json!({"uri": u});
        out.push((format!("formatting/{}", ul), "textDocument/formatting".into(), json!({"textDocument": td, "options": {"tabSize": 2, "insertSpaces": true}})));
        out.push((format!("documentSymbol/{}", ul), "textDocument/documentSymbol".into(), json!({"textDocument": td})));
        out.push((format!("inlayHint/{}", ul), "textDocument/inlayHint".into(), json!({"textDocument": td, "range": {"start": {"line": 0, "character": 0}, "end": {"line": 100, "character": 0}}})));
        out.push((format!("inlineValues/{}", ul), "textDocument/inlineValues".into(), json!({"textDocument": td, "range": {"start": {"line": 0, "character": 0}, "end": {"line": 1, "character": 0}}, "context": {"frameId": 0, "stoppedLocation": {"start": {"line": 0, "character": 0}, "end": {"line": 0, "character": 0}}}})));
        for (pl, p) in &positions {
            out.push((format!("definition/{}/{}", ul, pl), "textDocument/definition".into(), json!({"textDocument": td, "position": p})));
            out.push((format!("references/{}/{}", ul, pl), "textDocument/references".into(), json!({"textDocument": td, "position": p, "context": {"includeDeclaration": false}})));
            out.push((format!("prepareRename/{}/{}", ul, pl), "textDocument/prepareRename".into(), json!({"textDocument": td, "position": p})));
            out.push((format!("rename-free/{}/{}", ul, pl), "textDocument/rename".into(), json!({"textDocument": td, "position": p, "newName": "fresh"})));
            out.push((format!("rename-taken/{}/{}", ul, pl), "textDocument/rename".into(), json!({"textDocument": td, "position": p, "newName": "b"})));
            out.push((format!("completion/{}/{}", ul, pl), "textDocument/completion".into(), json!({"textDocument": td, "position": p})));
            out.push((format!("codeAction/{}/{}", ul, pl), "textDocument/codeAction".into(), json!({"textDocument": td, "range": {"start": p, "end": p}, "context": {"diagnostics": []}})));
        }
    }
    for i in 0..NONASCII_TARGETS {
        let td = json!({"uri": uri("u")});
        let p = json!({"line": 2 + 2 * i, "character": 12});
        out.push((format!("rename-free/non-ascii-dangling/{}", i), "textDocument/rename".into(), json!({"textDocument": td, "position": p, "newName": "fresh"})));
        out.push((format!("definition/non-ascii-dangling/{}", i), "textDocument/definition".into(), json!({"textDocument": td, "position": p})));
        out.push((format!("codeAction/non-ascii-dangling/{}", i), "textDocument/codeAction".into(), json!({"textDocument": td, "range": {"start": p, "end": p}, "context": {"diagnostics": []}})));
    }
    out.push(("workspaceSymbol/empty".into(), "workspace/symbol".into(), json!({"query": ""})));
    out.push(("workspaceSymbol/query".into(), "workspace/symbol".into(), json!({"query": "sub"})));
    out.push(("completionResolve".into(), "completionItem/resolve".into(), json!({"label": "x"})));
    // code-action resolve: every kind × node classes (reference with target, dangling reference, reference before any heading, list item, heading, stale id, non-numeric data, missing data, unknown kind)
    let kinds = ["refactor.rewrite.list.type", "refactor.rewrite.list.section", "refactor.inline.reference.section", "refactor.inline.reference.quote", "refactor.rewrite.section.list", "refactor.extract.section", "refactor.extract.subsections", "refactor.unknown.kind"];
    for k in kinds {
        for (dl, d) in [("node1", json!(1)), ("node2", json!(2)), ("node3", json!(3)), ("node4", json!(4)), ("node6", json!(6)), ("node8", json!(8)), ("b-top-ref", json!(14)), ("stale", json!(99999)), ("non-numeric", json!("x")), ("missing", Value::Null)] {
            let mut ca = json!({"title": "t", "kind": k});
            if !d.is_null() {
                ca["data"] = d;
            }
            out.push((format!("codeActionResolve/{}/{}", k.rsplit('.').next().unwrap_or(""), dl), "codeAction/resolve".into(), ca));
        }
    }
    out.push(("executeCommand/unknown".into(), "workspace/executeCommand".into(), json!({"command": "nope", "arguments": []})));
    // the generate command in its failing variants: no arguments, arguments of the wrong shape, notes that do not exist
    out.push(("executeCommand/generate-no-arguments".into(), "workspace/executeCommand".into(), json!({"command": "generate", "arguments": []})));
    out.push(("executeCommand/generate-wrong-shape".into(), "workspace/executeCommand".into(), json!({"command": "generate", "arguments": [42]})));
    out.push(("executeCommand/generate-unknown-notes".into(), "workspace/executeCommand".into(), json!({"command": "generate", "arguments": [{"prompt_key": "nope", "target_key": "nope-too"}]})));
    out.push(("executeCommand/generate-known-notes".into(), "workspace/executeCommand".into(), json!({"command": "generate", "arguments": [{"prompt_key": "a", "target_key": "b"}]})));
    out.push(("unknown-method".into(), "textDocument/hover".into(), json!({"textDocument": {"uri": uri("a")}, "position": {"line": 0, "character": 0}})));
    // implementation-dependent (`$/…`) methods sent as *requests* must be answered like any unknown request
    out.push(("unknown-method-dollar".into(), "$/doesNotExist".into(), json!({})));
    out.push(("unknown-method-dollar-cancel".into(), "$/cancelRequest".into(), json!({"id": 1})));
    out.push(("unknown-method-empty-name".into(), "".into(), json!(null)));
    out.push(("malformed-params".into(), "textDocument/formatting".into(), json!({"nonsense": true})));
    out
}

/// one request in a fresh session followed by a liveness probe; None = fine
pub fn check_request(label: &str, method: &str, params: &Value) -> Option<String> {
    let mut s = Session::start(library());
    // the wait ends with the response; the deadline only bounds a request that is never answered (generous: the
    // machine may be loaded).  `workspace/executeCommand` is answered by a server→client request, not a response
    let replies = s.request(method, params.clone(), if method == "workspace/executeCommand" { Duration::from_millis(400) } else { DEADLINE });
    let what = if method == "workspace/executeCommand" && replies.len() <= 1 {
        None // a successful command is answered by a server→client request (by design of the handler); never twice
    } else if replies.is_empty() {
        Some(format!("{}: no response within {} s", label, DEADLINE.as_secs()))
    } else if replies.len() > 1 {
        Some(format!("{}: {} responses", label, replies.len()))
    } else {
        None
    };
    // the server keeps serving: a didChange and a formatting request afterwards
    s.notify("textDocument/didChange", json!({"textDocument": {"uri": uri("b"), "version": 2}, "contentChanges": [{"text": "# probe\n"}]}));
    let probe = s.request("textDocument/formatting", json!({"textDocument": {"uri": uri("b")}, "options": {"tabSize": 2, "insertSpaces": true}}), DEADLINE);
    let alive = probe.len() == 1 && probe[0]["result"][0]["newText"].as_str() == Some("# probe\n");
    // … and answers the other kinds of request exactly as a session that never saw the request does
    // (not looked at when the request itself or the liveness probe already failed: one finding per class)
    let after = if what.is_some() || !alive { vec![] } else { battery(&mut s) };
    // the end of a session: `shutdown` is a request like any other (one response), and so is whatever an editor still
    // sends between `shutdown` and `exit`
    let lifecycle = if what.is_some() || !alive {
        None
    } else {
        let sd = s.request("shutdown", json!(null), DEADLINE);
        let late = s.request("workspace/symbol", json!({"query": ""}), DEADLINE);
        if sd.len() != 1 {
            Some(format!("{}: the shutdown request afterwards gets {} responses", label, sd.len()))
        } else if late.len() != 1 {
            Some(format!("{}: a workspace/symbol request sent after shutdown and before exit gets {} responses", label, late.len()))
        } else {
            None
        }
    };
    let ended = s.finish();
    let isolated = {
        let base = BASELINE.get_or_init(|| {
            let mut b = Session::start(library());
            b.notify("textDocument/didChange", json!({"textDocument": {"uri": uri("b"), "version": 2}, "contentChanges": [{"text": "# probe\n"}]}));
            let out = battery(&mut b);
            b.finish();
            out
        });
        if after.is_empty() { None } else { base.iter().zip(after.iter()).find(|(b, a)| b != a) }.map(|(b, a)| format!("{}: a later request is answered differently than in a session without it: {} instead of {}", label, cut(a), cut(b)))
    };
    what.or(if !alive { Some(format!("{}: afterwards the server does not answer a formatting request correctly ({:?})", label, probe)) } else { None })
        .or(isolated)
        .or(lifecycle)
        .or(if !ended { Some(format!("{}: the loop does not end cleanly on exit", label)) } else { None })
}

const DEADLINE: Duration = Duration::from_secs(20);

static BASELINE: std::sync::OnceLock<Vec<String>> = std::sync::OnceLock::new();

fn cut(s: &str) -> String {
    s.chars().take(300).collect()
}

/// requests of every family with answers that depend only on the library; canonical strings
fn battery(s: &mut Session) -> Vec<String> {
    let canon = |method: &str, replies: Vec<Value>| -> String {
        if replies.len() != 1 {
            return format!("{}: {} responses", method, replies.len());
        }
        let r = &replies[0];
        let body = match &r["result"] {
            Value::Array(a) => {
                let mut items: Vec<String> = a.iter().map(|v| v.to_string()).collect();
                items.sort();
                format!("[{}]", items.join(","))
            }
            // a completion list: the order of items with equal sort text is the client's business
            Value::Object(o) if o.get("items").map(|i| i.is_array()).unwrap_or(false) => {
                let mut items: Vec<String> = o["items"].as_array().unwrap().iter().map(|v| v.to_string()).collect();
                items.sort();
                format!("{{items:[{}],isIncomplete:{}}}", items.join(","), o.get("isIncomplete").cloned().unwrap_or(Value::Null))
            }
            v => v.to_string(),
        };
        format!("{}: result {} error {}", method, body, r["error"])
    };
    let w = DEADLINE;
    let at = |l: u32, c: u32| json!({"line": l, "character": c});
    let mut out = vec![];
    for (method, params) in [
        ("textDocument/codeAction", json!({"textDocument": {"uri": uri("a")}, "range": {"start": at(8, 0), "end": at(8, 0)}, "context": {"diagnostics": []}})),
        ("textDocument/codeAction", json!({"textDocument": {"uri": uri("a")}, "range": {"start": at(11, 0), "end": at(11, 0)}, "context": {"diagnostics": []}})),
        ("codeAction/resolve", json!({"title": "t", "kind": "refactor.rewrite.list.type", "data": 6})),
        ("textDocument/references", json!({"textDocument": {"uri": uri("a")}, "position": at(0, 0), "context": {"includeDeclaration": false}})),
        ("textDocument/definition", json!({"textDocument": {"uri": uri("a")}, "position": at(2, 7)})),
        ("textDocument/documentSymbol", json!({"textDocument": {"uri": uri("a")}})),
        ("textDocument/inlayHint", json!({"textDocument": {"uri": uri("a")}, "range": {"start": at(0, 0), "end": at(100, 0)}})),
        ("textDocument/completion", json!({"textDocument": {"uri": uri("a")}, "position": at(0, 0)})),
        ("workspace/symbol", json!({"query": ""})),
        ("textDocument/rename", json!({"textDocument": {"uri": uri("a")}, "position": at(2, 7), "newName": "fresh"})),
    ] {
        let r = s.request(method, params, w);
        out.push(canon(method, r));
    }
    out
}

pub fn run(ctx: &Ctx, model: &mut Model, rep: &mut Report) {
    // part 1: schedules with panicking handlers through the real router, tied to the model machine
    c11::run_prop(ctx, model, rep, "C12");
    if ctx.replay.is_some() {
        return;
    }
    rep.rule.push_str("; plus every advertised method × parameter classes (URIs inside/outside the library and unknown, positions inside/outside the text, dangling links, references outside a section, every code-action kind × node classes incl. stale / non-numeric / missing data, unknown kind, unknown method, malformed params), each in a fresh session over the real message loop with a liveness probe (didChange + formatting), an isolation battery (10 later requests of every family answered exactly as in a session that never saw the request) and a clean exit");
    let open: Vec<String> = known::open(ctx, "C12").iter().filter_map(|f| f.witness.get("label").and_then(|l| l.as_str()).map(|s| s.to_string())).collect();
    let classes = request_classes();
    let mut r = Rng::new(ctx.seed ^ 0xC12C);
    let take = if ctx.thorough { classes.len() } else { 110 };
    let mut idx: Vec<usize> = (0..classes.len()).collect();
    for i in (1..idx.len()).rev() {
        idx.swap(i, r.below(i + 1));
    }
    // the known-finding classes are always exercised
    let mut chosen: Vec<usize> = idx.iter().cloned().filter(|i| open.iter().any(|o| classes[*i].0.starts_with(o.as_str())) || classes[*i].0.starts_with("rename-free/non-ascii-dangling") || ((classes[*i].0.contains("/headingless-") || classes[*i].0.contains("/unknown-file") || classes[*i].0.contains("/outside-library")) && classes[*i].0.matches('/').count() == 1) || classes[*i].0.starts_with("unknown-method") || classes[*i].0 == "codeActionResolve/kind/node1" || classes[*i].0 == "codeActionResolve/kind/missing" || classes[*i].0 == "codeActionResolve/kind/stale" || classes[*i].0.starts_with("executeCommand/") || classes[*i].0 == "malformed-params").collect();
    for i in idx {
        if chosen.len() >= take.max(chosen.len()) {
            break;
        }
        if !chosen.contains(&i) {
            chosen.push(i);
        }
    }
    let mut still_failing: HashMap<String, String> = HashMap::new();
    for i in chosen {
        let (label, method, params) = &classes[i];
        rep.case(label, true);
        rep.count(&format!("method_{}", method.rsplit('/').next().unwrap_or("")));
        if let Some(what) = check_request(label, method, params) {
            if let Some(o) = open.iter().find(|o| label.starts_with(o.as_str())) {
                still_failing.entry(o.clone()).or_insert(what);
                rep.count("attributed_to_known_request_class");
            } else {
                rep.fail(json!({"kind": "request", "label": label, "method": method, "params": params, "what": what}));
                if !ctx.thorough && rep.impl_failures.len() >= 8 {
                    rep.count("stopped_early_after_8_failures");
                    break;
                }
            }
        }
    }
    if let Some(b) = BASELINE.get() {
        rep.sample(json!({"isolation_baseline": b.iter().map(|x| cut(x)).collect::<Vec<_>>()}));
    }
    for f in known::open(ctx, "C12") {
        if let Some(l) = f.witness.get("label").and_then(|l| l.as_str()) {
            match still_failing.get(l) {
                Some(w) => rep.known_findings.push(json!({"id": f.id, "what": format!("{} — witness still fails: {}", f.what, w)})),
                None => rep.resolved_findings.push(json!({"id": f.id, "what": f.what})),
            }
        }
    }
}
