//! C13 — positions sent and received refer to the right place in the editor's text.
use crate::act;
use crate::known;
use crate::oracle::md;
use crate::sexp::*;
use crate::{dump, model::Model, report::Report, rng::Rng, Ctx};
use liwe::graph::Reader;
use liwe::markdown::MarkdownReader;
use liwe::model::document::{DocumentBlock, DocumentInline};
use lsp_types::*;
use pulldown_cmark::{Event, Parser, Tag};
use serde_json::json;

/// LSP position (line, UTF-16 column) of a byte offset
fn lsp_pos(text: &str, off: usize) -> (u32, u32) {
    let before = &text[..off.min(text.len())];
    let line = before.matches('\n').count() as u32;
    let start = before.rfind('\n').map(|i| i + 1).unwrap_or(0);
    (line, before[start..].encode_utf16().count() as u32)
}

#[derive(Clone, Debug)]
struct Span {
    start: usize,
    end: usize,
    dest: String,
    regular: bool,
}

fn link_spans(text: &str) -> Vec<Span> {
    let mut out = vec![];
    for (ev, range) in Parser::new_ext(text, md::options()).into_offset_iter() {
        if let Event::Start(Tag::Link { dest_url, link_type, .. }) = ev {
            out.push(Span { start: range.start, end: range.end, dest: dest_url.to_string(), regular: matches!(link_type, pulldown_cmark::LinkType::Inline) });
        }
    }
    out
}

fn block_ranges(text: &str) -> Vec<(usize, usize)> {
    let mut out = vec![];
    // a tight list item has no paragraph event: the reader makes a paragraph with the range of the item's first inline
    let mut pending_item = false;
    let mut depth_inline = 0usize;
    for (ev, range) in Parser::new_ext(text, md::options()).into_offset_iter() {
        match ev {
            Event::Start(Tag::Item) => pending_item = true,
            Event::Start(Tag::Paragraph | Tag::Heading { .. } | Tag::CodeBlock(_) | Tag::BlockQuote(_) | Tag::Table(_)) | Event::Rule => {
                pending_item = false;
                out.push((range.start, range.end))
            }
            Event::Start(Tag::List(_)) => pending_item = false,
            Event::Start(Tag::Emphasis | Tag::Strong | Tag::Strikethrough | Tag::Link { .. } | Tag::Image { .. }) => {
                if pending_item && depth_inline == 0 {
                    out.push((range.start, range.end));
                    pending_item = false;
                }
                depth_inline += 1;
            }
            Event::End(pulldown_cmark::TagEnd::Emphasis | pulldown_cmark::TagEnd::Strong | pulldown_cmark::TagEnd::Strikethrough | pulldown_cmark::TagEnd::Link | pulldown_cmark::TagEnd::Image) => depth_inline = depth_inline.saturating_sub(1),
            Event::Text(_) | Event::Code(_) | Event::InlineMath(_) | Event::InlineHtml(_) => {
                if pending_item && depth_inline == 0 {
                    out.push((range.start, range.end));
                    pending_item = false;
                }
            }
            _ => {}
        }
    }
    out
}

/// byte ranges of the blocks that can hold a link: paragraphs, headings, and list items (a tight item has no
/// paragraph of its own; its text starts on the item's line)
fn holder_ranges(text: &str) -> Vec<(usize, usize)> {
    let mut out = vec![];
    for (ev, range) in Parser::new_ext(text, md::options()).into_offset_iter() {
        if let Event::Start(Tag::Paragraph | Tag::Heading { .. } | Tag::Item) = ev {
            out.push((range.start, range.end));
        }
    }
    out
}

fn reader_links(bs: &[DocumentBlock], out: &mut Vec<((usize, usize), (usize, usize))>) {
    fn inl(i: &DocumentInline, out: &mut Vec<((usize, usize), (usize, usize))>) {
        if let DocumentInline::Link(l) = i {
            out.push(((l.inline_range.start.line, l.inline_range.start.character), (l.inline_range.end.line, l.inline_range.end.character)));
        }
        for c in i.child_inlines() {
            inl(c, out);
        }
    }
    for b in bs {
        for i in b.child_inlines() {
            inl(&i, out);
        }
        match b {
            DocumentBlock::BlockQuote(q) => reader_links(&q.blocks, out),
            DocumentBlock::BulletList(l) => l.items.iter().for_each(|it| reader_links(it, out)),
            DocumentBlock::OrderedList(l) => l.items.iter().for_each(|it| reader_links(it, out)),
            _ => {}
        }
    }
}

fn reader_blocks(bs: &[DocumentBlock], out: &mut Vec<(usize, usize)>) {
    for b in bs {
        match b {
            DocumentBlock::BulletList(l) => l.items.iter().for_each(|it| reader_blocks(it, out)),
            DocumentBlock::OrderedList(l) => l.items.iter().for_each(|it| reader_blocks(it, out)),
            DocumentBlock::BlockQuote(q) => {
                out.push((q.line_range.start, q.line_range.end));
                reader_blocks(&q.blocks, out)
            }
            other => {
                let r = other.line_range();
                out.push((r.start, r.end));
            }
        }
    }
}

pub fn gen_text(r: &mut Rng, ascii_lf: bool) -> String {
    let words: &[&str] = if ascii_lf { &["alpha", "b", "see", "x y", "Title"] } else { &["alpha", "é", "日本", "😀", "naïve", "b"] };
    let mut lines: Vec<String> = vec![];
    for _ in 0..r.range(2, 7) {
        let w = r.pick(words).to_string();
        let line = match r.below(10) {
            // a list whose only item is still empty (the user has just typed the marker)
            8 => "-".to_string(),
            9 => "1.".to_string(),
            0 => format!("# {} [t](n1) end", w),
            1 => format!("{} [text {}](n2) and [[n3]] tail", w, r.pick(words)),
            2 => format!("- {} [i](n1.md)", w),
            3 => format!("[ref {}](n2)", w),
            4 => format!("> {} [q](n3) {}", w, r.pick(words)),
            5 => String::new(),
            6 => format!("{} **[b](n1)** `code` [[n2|p {}]]", w, r.pick(words)),
            _ => format!("{} plain {}", w, r.pick(words)),
        };
        let is_item = line.starts_with("- ") || line == "-" || line == "1.";
        lines.push(line);
        // a line right after a tight list item would be its lazy continuation (finding D33)
        if is_item || r.chance(1, 2) {
            lines.push(String::new());
        }
    }
    let sep = if ascii_lf { "\n" } else if r.chance(1, 2) { "\r\n" } else { "\n" };
    lines.join(sep) + sep
}

/// every (line, character) of the text: definition / prepare-rename act exactly inside link spans
thread_local! {
    /// also judge the prepare-rename range of links that span lines (finding D42's witness)
    static MULTILINE_RANGES: std::cell::Cell<bool> = std::cell::Cell::new(false);
}

/// `check_text` including the rename range of links whose source spans lines
pub fn multiline_rename_range(text: &str) -> Option<String> {
    MULTILINE_RANGES.with(|m| m.set(true));
    let r = check_text(text);
    MULTILINE_RANGES.with(|m| m.set(false));
    r
}

pub fn check_text(text: &str) -> Option<String> {
    let mut lib = act::Lib::new();
    lib.insert("a".to_string(), text.to_string());
    for k in ["n1", "n2", "n3"] {
        lib.insert(k.to_string(), format!("# {}\n", k));
    }
    let server = dump::catch(|| act::server(&lib, "", true)).ok()?;
    let spans = link_spans(text);
    let td = TextDocumentIdentifier { uri: act::uri("a") };
    let nlines = text.matches('\n').count() as u32 + 1;
    for line in 0..nlines {
        let line_text = text.split('\n').nth(line as usize).unwrap_or("").trim_end_matches('\r');
        let width = line_text.encode_utf16().count() as u32;
        for ch in 0..=width + 1 {
            let want = spans.iter().find(|s| {
                let (a, b) = (lsp_pos(text, s.start), lsp_pos(text, s.end));
                (a.0 < line || (a.0 == line && a.1 <= ch)) && (line < b.0 || (line == b.0 && ch < b.1))
            });
            let pos = TextDocumentPositionParams { text_document: td.clone(), position: Position::new(line, ch) };
            let def = dump::catch(|| server.handle_goto_definition(GotoDefinitionParams { text_document_position_params: pos.clone(), work_done_progress_params: Default::default(), partial_result_params: Default::default() })).ok()?;
            let got_dest = match &def {
                GotoDefinitionResponse::Scalar(l) => Some(act::key_of_uri(&l.uri)),
                _ => None,
            };
            let want_dest = want.map(|s| md::strip_md(&s.dest));
            if got_dest != want_dest {
                return Some(format!("go-to-definition at {}:{} → {:?}, the text has {:?} there (line {:?})", line, ch, got_dest, want_dest, line_text));
            }
            let pr = dump::catch(|| server.handle_prepare_rename(pos.clone())).ok()?;
            match (&pr, want) {
                (None, None) => {}
                (Some(PrepareRenameResponse::RangeWithPlaceholder { range, placeholder }), Some(s)) => {
                    if placeholder != &s.dest {
                        return Some(format!("prepare-rename at {}:{}: placeholder {:?}, link destination {:?}", line, ch, placeholder, s.dest));
                    }
                    // (a link whose source wraps over a line break: finding D42, judged by `multiline_rename_range`)
                    if s.regular && (!text[s.start..s.end].contains('\n') || MULTILINE_RANGES.with(|m| m.get())) {
                        // the range must be the destination: `[text](dest)` ends with `dest)`
                        let dest_start = s.end - 1 - s.dest.len();
                        let (a, b) = (lsp_pos(text, dest_start), lsp_pos(text, s.end - 1));
                        if (range.start.line, range.start.character, range.end.line, range.end.character) != (a.0, a.1, b.0, b.1) {
                            return Some(format!("prepare-rename at {}:{}: range {}:{}-{}:{}, the destination {:?} is at {}:{}-{}:{}", line, ch, range.start.line, range.start.character, range.end.line, range.end.character, s.dest, a.0, a.1, b.0, b.1));
                        }
                    }
                }
                (a, b) => return Some(format!("prepare-rename at {}:{}: answered {:?}, link there: {:?}", line, ch, a.is_some(), b.map(|s| &s.dest))),
            }
        }
    }
    // locations returned: the references to n1 / n2 name the first line of the block that holds the link
    // (links inside quotes are reported at line 0 — finding D22 — and are left to C05)
    let holders = holder_ranges(text);
    let quotes: Vec<(usize, usize)> = Parser::new_ext(text, md::options()).into_offset_iter().filter_map(|(ev, r)| if let Event::Start(Tag::BlockQuote(_)) = ev { Some((r.start, r.end)) } else { None }).collect();
    for target in ["n1", "n2"] {
        let to_target: Vec<&Span> = spans.iter().filter(|s| md::strip_md(&s.dest) == target).collect();
        if to_target.iter().any(|s| quotes.iter().any(|q| q.0 <= s.start && s.start < q.1)) {
            continue;
        }
        let mut want: Vec<u32> = to_target.iter().filter_map(|s| holders.iter().filter(|b| b.0 <= s.start && s.start < b.1).max_by_key(|b| b.0).map(|b| lsp_pos(text, b.0).0)).collect();
        want.sort();
        want.dedup(); // one location per linking block
        let locs = dump::catch(|| {
            server.handle_references(ReferenceParams {
                text_document_position: TextDocumentPositionParams { text_document: TextDocumentIdentifier { uri: act::uri(target) }, position: Position::new(0, 0) },
                work_done_progress_params: Default::default(),
                partial_result_params: Default::default(),
                context: ReferenceContext { include_declaration: false },
            })
        })
        .ok()?;
        let mut got: Vec<u32> = locs.iter().filter(|l| act::key_of_uri(&l.uri) == "a").map(|l| l.range.start.line).collect();
        got.sort();
        got.dedup();
        if got != want {
            return Some(format!("references to {}: reported at lines {:?} of the note, the blocks holding the links start at lines {:?}", target, got, want));
        }
    }
    // document symbols of the note (its own headings and those of the notes it includes): every location names a
    // heading line of the note its uri addresses
    if let Ok(syms) = dump::catch(|| server.handle_document_symbols(DocumentSymbolParams { text_document: td.clone(), work_done_progress_params: Default::default(), partial_result_params: Default::default() })) {
        for s in syms {
            let k = act::key_of_uri(&s.location.uri);
            let Some(t) = lib.get(&k) else { return Some(format!("document symbol {:?} points to {}, which is no note of the library", s.name, s.location.uri)) };
            let l = s.location.range.start.line;
            // line → plain text of the heading that starts there
            let mut heads: std::collections::HashMap<u32, String> = Default::default();
            let mut cur: Option<u32> = None;
            for (ev, r) in Parser::new_ext(t, md::options()).into_offset_iter() {
                match ev {
                    Event::Start(Tag::Heading { .. }) => {
                        cur = Some(lsp_pos(t, r.start).0);
                        heads.insert(cur.unwrap(), String::new());
                    }
                    Event::End(pulldown_cmark::TagEnd::Heading(_)) => cur = None,
                    Event::Text(x) | Event::Code(x) => {
                        if let Some(c) = cur {
                            heads.get_mut(&c).unwrap().push_str(&x);
                        }
                    }
                    _ => {}
                }
            }
            let squeeze = |x: &str| x.chars().filter(|c| !c.is_whitespace()).collect::<String>();
            match heads.get(&l) {
                None => return Some(format!("document symbol {:?} is located at {}:{}, which is not a heading line of that note ({:?})", s.name, k, l, t.split('\n').nth(l as usize))),
                Some(h) if squeeze(h) != squeeze(&s.name) => return Some(format!("document symbol {:?} is located at {}:{}, where the heading {:?} is", s.name, k, l, h)),
                _ => {}
            }
        }
    }
    // code actions offered at a line operate on the block covering it: "Extract section" is only offered on a
    // heading line, the list conversions only on a line of a list
    // the lines of headings (ATX and setext) and of lists, from the oracle's own parser pass
    let mut heading_lines: std::collections::HashSet<u32> = Default::default();
    let mut list_lines: std::collections::HashSet<u32> = Default::default();
    for (ev, r) in Parser::new_ext(text, md::options()).into_offset_iter() {
        let span = |set: &mut std::collections::HashSet<u32>| {
            let (a, b) = (lsp_pos(text, r.start).0, lsp_pos(text, r.end.saturating_sub(1).max(r.start)).0);
            for l in a..=b {
                set.insert(l);
            }
        };
        match ev {
            Event::Start(Tag::Heading { .. }) => span(&mut heading_lines),
            Event::Start(Tag::List(_)) => span(&mut list_lines),
            _ => {}
        }
    }
    for line in 0..nlines {
        let line_text = text.split('\n').nth(line as usize).unwrap_or("").trim_end_matches('\r');
        if let Ok(actions) = act::actions_at(&server, "a", line) {
            for (kind, _, _) in &actions {
                if kind == "refactor.extract.section" && !heading_lines.contains(&line) {
                    return Some(format!("\"Extract section\" is offered at line {} which is not a heading line: {:?}", line, line_text));
                }
                if (kind == "refactor.rewrite.list.type" || kind == "refactor.rewrite.list.section") && !list_lines.contains(&line) {
                    return Some(format!("a list conversion is offered at line {} which is not a line of a list: {:?}", line, line_text));
                }
            }
        }
    }
    None
}

/// Helix sends its selection with every code-action request: a selection that starts on line L — the whole line
/// `(L,0)-(L+1,0)`, the line break `(L,len)-(L+1,0)`, one character — is answered with the actions of the block at line L,
/// exactly as the empty range at `(L,0)` is (same kinds, same target node)
pub fn check_helix_ranges(text: &str) -> Option<String> {
    use iwes::router::{server::Server, LspClient, ServerConfig};
    use liwe::model::config::Configuration;
    let mut state: std::collections::HashMap<String, String> = std::collections::HashMap::new();
    state.insert("a".to_string(), text.to_string());
    for k in ["n1", "n2", "n3"] {
        state.insert(k.to_string(), format!("# {}\n", k));
    }
    let server = dump::catch(|| Server::new(ServerConfig { base_path: "/lib".to_string(), state, sequential_ids: Some(true), configuration: Configuration::default(), lsp_client: LspClient::Helix })).ok()?;
    let td = TextDocumentIdentifier { uri: act::uri("a") };
    let offered = |sl: u32, sc: u32, el: u32, ec: u32| -> Option<Vec<String>> {
        dump::catch(|| {
            server.handle_code_action(&CodeActionParams {
                text_document: td.clone(),
                range: Range::new(Position::new(sl, sc), Position::new(el, ec)),
                context: CodeActionContext { diagnostics: vec![], only: None, trigger_kind: None },
                work_done_progress_params: Default::default(),
                partial_result_params: Default::default(),
            })
        })
        .ok()
        .map(|acts| {
            let mut v: Vec<String> = acts
                .iter()
                .map(|a| match a {
                    CodeActionOrCommand::CodeAction(c) => format!("{:?} {:?} {:?}", c.title, c.kind, c.data),
                    CodeActionOrCommand::Command(c) => format!("command {:?}", c.title),
                })
                .collect();
            v.sort();
            v
        })
    };
    let lines: Vec<&str> = text.split('\n').collect();
    for (l, line_text) in lines.iter().enumerate() {
        let l = l as u32;
        let len = line_text.trim_end_matches('\r').encode_utf16().count() as u32;
        let base = offered(l, 0, l, 0)?;
        for (sc, el, ec, what) in [(0, l + 1, 0, "the whole line"), (len, l + 1, 0, "the line break"), (0, l, 1, "one character")] {
            let got = offered(l, sc, el, ec)?;
            if got != base {
                return Some(format!("helix selection of {} at line {} ({}:{}-{}:{}) is offered {:?}, the cursor at {}:0 is offered {:?}", what, l, l, sc, el, ec, got, l, base));
            }
        }
    }
    None
}

pub fn run(ctx: &Ctx, model: &mut Model, rep: &mut Report) {
    rep.rule = "small notes with links in headings, paragraphs, list items, quotes, emphasis, wiki links (bare, piped), block references; every (line, character) position of the text incl. one past each line end; ASCII + LF texts in the main stream, CRLF and multi-byte / astral characters in the attribution stream; correspondence: the model's inline range and line range of every link / block byte range (from the harness' own pulldown pass) vs the ranges in the real reader's output; oracle: go-to-definition and prepare-rename act exactly inside link source spans (LSP UTF-16 positions), prepare-rename range = destination span; references to a note are reported at the first line of the block holding the link; \"Extract section\" only on heading lines and list conversions only on list lines; every note loaded by one of five loading modes (incl. a shift of all lines by an edit); non-trivial = text with a link; distinct by text".to_string();
    if let Some(path) = &ctx.replay {
        let v: serde_json::Value = serde_json::from_str(&std::fs::read_to_string(path).unwrap()).unwrap();
        rep.evaluations += 1;
        if v["kind"] == "helix_selection" {
            if let Some(w) = check_helix_ranges(v["text"].as_str().unwrap_or("")) {
                rep.fail(json!({"kind": "helix_selection", "text": v["text"], "what": w}));
            }
            return;
        }
        if let Some(w) = act::with_via(act::via_from(&v["via"]), || check_text(v["text"].as_str().unwrap_or(""))) {
            rep.fail(json!({"kind": "position", "text": v["text"], "what": w}));
        }
        return;
    }
    let mut open = vec![];
    for f in known::open(ctx, "C13") {
        rep.evaluations += 1;
        open.push(f.id.clone());
        let wt = f.witness["text"].as_str().unwrap_or("");
        match if f.id == "D42" { multiline_rename_range(wt) } else { check_text(wt) } {
            Some(w) => rep.known_findings.push(json!({"id": f.id, "what": format!("{} — witness still fails: {}", f.what, w)})),
            None => rep.resolved_findings.push(json!({"id": f.id, "what": f.what})),
        }
    }
    let d14 = open.iter().any(|o| o == "D14");
    // links whose source wraps over a line break (the generated texts keep every paragraph on one line because of
    // findings D8 / D33): every position of every line, in every loading mode
    for (k, t) in [
        "see [the wrapped\ntitle](n1) for details\n\nnext paragraph\n",
        "# H\n\ntext before [a link text that\nwraps over\nthree lines](n2) and after it [one](n3)\n\nclosing\n",
        "> quoted [wrapped\n> link](n1) here\n\nafter\n",
        "intro\n\n[block\nreference](n2)\n\nend\n",
        "a [first](n1) b [second\nwrapped](n2) c [third](n3)\n\nlast\n",
    ]
    .iter()
    .enumerate()
    {
        for m in 0..6u64 {
            let via = act::via_for(m);
            rep.evaluations += 1;
            rep.count("wrapped_link_cases");
            if let Some(w) = act::with_via(via, || check_text(t)) {
                rep.fail(json!({"kind": "position", "text": t, "via": format!("{:?}", via), "what": format!("wrapped link text {}: {}", k, w)}));
                break;
            }
        }
    }
    let n = if ctx.thorough { 3000 } else { 1000 };
    for i in 0..n {
        let mut r = Rng::for_case(ctx.seed ^ 0xC13, i as u64);
        let ascii_lf = i % 4 != 3;
        let text = gen_text(&mut r, ascii_lf);
        rep.case(&text, text.contains("]("));
        if i < 2 {
            rep.sample(json!({"text": text}));
        }
        // correspondence: model ranges vs the reader's
        if let Ok(doc) = dump::catch(|| MarkdownReader::new().document(&text)) {
            let spans = link_spans(&text);
            let blocks = block_ranges(&text);
            let reqs: Vec<String> = spans.iter().map(|s| format!("(r {} {})", s.start, s.end)).chain(blocks.iter().map(|b| format!("(r {} {})", b.0, b.1))).collect();
            let reply = model.call(&format!("(pos.ranges {} {})", hex(&text), reqs.join(" ")));
            let rs: Vec<Vec<usize>> = dump::children(&reply).iter().skip(1).map(|r| dump::children(r).iter().skip(1).filter_map(|x| x.parse().ok()).collect()).collect();
            let mut rl = vec![];
            reader_links(&doc.blocks, &mut rl);
            let mut rb = vec![];
            reader_blocks(&doc.blocks, &mut rb);
            rep.correspondence_cases += 1;
            let model_links: Vec<((usize, usize), (usize, usize))> = rs.iter().take(spans.len()).map(|v| ((v[0], v[1]), (v[2], v[3]))).collect();
            let model_blocks: Vec<(usize, usize)> = rs.iter().skip(spans.len()).map(|v| (v[4], v[5])).collect();
            if model_links != rl {
                rep.disagree(json!({"op": "to_inline_range of links", "text": text, "model": format!("{:?}", model_links), "impl": format!("{:?}", rl)}));
            } else if model_blocks != rb {
                rep.disagree(json!({"op": "to_line_range of blocks", "text": text, "model": format!("{:?}", model_blocks), "impl": format!("{:?}", rb)}));
            }
        }
        if i % 4 == 1 {
            rep.count("helix_selection_cases");
            if let Some(w) = check_helix_ranges(&text) {
                rep.fail(json!({"kind": "helix_selection", "text": text, "what": w}));
            }
        }
        let via = act::via_for(i as u64);
        // `Echo`: the text under test is the note as iwe formats it (what the editor holds after a formatting edit)
        let text = if via == act::Via::Echo { crate::props::c01::format_single("n", &text, "").unwrap_or(text) } else { text };
        rep.count(&format!("loaded_via_{:?}", via));
        if let Some(w) = act::with_via(via, || check_text(&text)) {
            if !ascii_lf && d14 {
                rep.count("attributed_to_D14");
                continue;
            }
            rep.fail(json!({"kind": "position", "text": text, "via": format!("{:?}", via), "what": w}));
        }
    }
}
