//! C05 — backlinks are exact: every link to a note is found, nothing else is.
use crate::dump;
use crate::gen;
use crate::hist::{self, History};
use crate::known;
use crate::oracle::md;
use crate::props::c01;
use crate::{model::Model, report::Report, rng::Rng, Ctx};
use liwe::model::Key;
use lsp_types::{InlayHintLabel, InlayHintParams, Position, Range, ReferenceContext, ReferenceParams, TextDocumentIdentifier, TextDocumentPositionParams};
use serde_json::json;
use std::collections::{BTreeMap, HashMap};

/// a library for C05/C06: notes in sub-directories carry block references only (inline links there
/// are keyed from the library root by the implementation — finding D12 — and are exercised by the
/// known-finding witness instead), no links inside block quotes (finding D22)
pub fn gen_library(r: &mut Rng, with_known_features: bool) -> Vec<(String, String)> {
    gen_library_opts(r, with_known_features, false)
}

/// `quoted_links`: note links inside block quotes are allowed (they have no line of their own — finding D22 — which matters
/// to the properties that report lines, not to those that rewrite links)
pub fn gen_library_opts(r: &mut Rng, with_known_features: bool, quoted_links: bool) -> Vec<(String, String)> {
    let n = r.range(2, 6);
    let mut pool: Vec<String> = hist::KEY_POOL.iter().map(|s| s.to_string()).collect();
    for i in (1..pool.len()).rev() {
        let j = r.below(i + 1);
        pool.swap(i, j);
    }
    let keys: Vec<String> = pool[..n].to_vec();
    let mut all = keys.clone();
    all.push("ghost".to_string());
    keys.iter()
        .map(|k| {
            let mut p = hist::profile_for(&all, k, true);
            p.table_markup = with_known_features;
            p.inline_note_links = with_known_features || !k.contains('/');
            p.max_blocks = 6;
            let mut text;
            loop {
                text = gen::document(r, &p);
                if with_known_features || quoted_links {
                    break;
                }
                let rd = md::read(&text, &crate::oracle::md::dir_of(k));
                // no note link inside a quote; no multi-line structure that would move a block's first line
                if rd.links.iter().all(|l| md::is_external(&l.dest) || !l.ctx.iter().any(|c| c.starts_with("quote"))) {
                    break;
                }
            }
            // what some editors put at the start of a file: the byte order mark belongs to the first line
            // (root notes only: with the mark a leading block reference is an inline link, and inline links of notes in
            // sub-directories are finding D12)
            if r.chance(1, 12) && !k.contains('/') {
                // … unless the mark changes what the first line is (`5) item` is no list item behind it: the lines that
                // follow become one multi-line paragraph, a table row behind it starts no table: outside the class of texts generated
                // here — finding D33)
                let marked = format!("\u{feff}{}", text);
                let shape = |t: &str| -> Vec<(usize, Vec<String>, String)> { md::read(t, &crate::oracle::md::dir_of(k)).links.iter().map(|l| (l.line, l.ctx.clone(), l.holder.clone())).collect() };
                if shape(&marked) == shape(&text) {
                    text = marked;
                }
            }
            (k.clone(), text)
        })
        .collect()
}

#[derive(Debug, Clone, PartialEq, Eq, PartialOrd, Ord)]
pub struct Place {
    pub src: String,
    pub line: usize,
}

/// expected backlinks of every key by an independent scan: (block-level, inline) places;
/// `as_implemented`: reproduce findings D12 (inline links keyed from the root) and D22 (line 0 inside quotes)
pub fn scan(lib: &[(String, String)], as_implemented: bool) -> BTreeMap<String, (Vec<Place>, Vec<Place>)> {
    let mut out: BTreeMap<String, (Vec<Place>, Vec<Place>)> = BTreeMap::new();
    for (k, _) in lib {
        out.entry(Key::from_file_name(k).to_string()).or_default();
    }
    for (k, text) in lib {
        let src = Key::from_file_name(k).to_string();
        let dir = crate::oracle::md::dir_of(k);
        let rd = md::read(text, &dir);
        let mut inline_seen: Vec<(String, usize)> = vec![];
        for l in &rd.links {
            if md::is_external(&l.dest) || l.holder == "cell" {
                continue;
            }
            let in_quote = l.ctx.iter().any(|c| c.starts_with("quote"));
            let line = if as_implemented && in_quote { 0 } else { l.line };
            if l.block_level {
                let target = md::resolve(&l.dest, &dir);
                out.entry(target).or_default().0.push(Place { src: src.clone(), line });
            } else {
                let target = if as_implemented { md::strip_md(&l.dest) } else { md::resolve(&l.dest, &dir) };
                // one place per linking block
                if !inline_seen.contains(&(target.clone(), l.line)) {
                    inline_seen.push((target.clone(), l.line));
                    out.entry(target).or_default().1.push(Place { src: src.clone(), line });
                }
            }
        }
    }
    for v in out.values_mut() {
        v.0.sort();
        v.1.sort();
    }
    out
}

fn key_of_uri(uri: &lsp_types::Url) -> String {
    uri.path().trim_start_matches("/lib/").trim_end_matches(".md").to_string()
}

/// (all reference places, inline count from the hint, block-reference hint count)
fn real_answers(lib: &[(String, String)], key: &str) -> Result<(Vec<Place>, Option<usize>), String> {
    let st: HashMap<String, String> = lib.iter().cloned().collect();
    dump::catch(|| {
        let server = c01::server_for(&st, "");
        let locs = server.handle_references(ReferenceParams {
            text_document_position: TextDocumentPositionParams { text_document: TextDocumentIdentifier { uri: c01::uri_for(key) }, position: Position::new(0, 0) },
            work_done_progress_params: Default::default(),
            partial_result_params: Default::default(),
            context: ReferenceContext { include_declaration: false },
        });
        let mut places: Vec<Place> = locs.iter().map(|l| Place { src: key_of_uri(&l.uri), line: l.range.start.line as usize }).collect();
        places.sort();
        let hints_for = |range: Range| server.handle_inlay_hints(InlayHintParams { text_document: TextDocumentIdentifier { uri: c01::uri_for(key) }, range, work_done_progress_params: Default::default() });
        let hints = hints_for(Range::default());
        // the hints of the whole note do not depend on how the editor describes "the whole note": the empty range,
        // the exact extent of the text, and a range ending at the line after the last one
        if let Some((_, text)) = lib.iter().find(|(k, _)| Key::from_file_name(k).to_string() == key) {
            let nl = text.lines().count() as u32;
            let last_len = text.lines().last().map(|l| l.encode_utf16().count()).unwrap_or(0) as u32;
            let labels = |hs: &Vec<lsp_types::InlayHint>| {
                let mut v: Vec<String> = hs.iter().map(|h| format!("{}:{:?}", h.position.line, h.label)).collect();
                v.sort();
                v
            };
            for range in [Range::new(Position::new(0, 0), Position::new(nl.saturating_sub(1), last_len)), Range::new(Position::new(0, 0), Position::new(nl + 1, 0))] {
                let other = hints_for(range);
                if labels(&other) != labels(&hints) {
                    panic!("HINT-RANGE the hints for the range {:?} of note {:?} are {:?}, for the empty range {:?}", range, key, labels(&other), labels(&hints));
                }
            }
        }
        let inline_count = hints.iter().find_map(|h| match &h.label {
            InlayHintLabel::String(s) if s.starts_with('‹') => s.trim_start_matches('‹').trim_end_matches('›').parse::<usize>().ok(),
            _ => None,
        });
        (places, inline_count)
    })
}

pub fn check_library(lib: &[(String, String)], allow_known: bool) -> Option<(String, bool)> {
    let full = scan(lib, false);
    let known = scan(lib, true);
    for (k, _) in lib {
        let key = Key::from_file_name(k).to_string();
        let (places, inline_count) = match real_answers(lib, &key) {
            Ok(x) => x,
            Err(e) if e.contains("HINT-RANGE") => return Some((e.replace("HINT-RANGE ", ""), false)),
            Err(_) => return None, // panics belong to C12
        };
        let expect = |m: &BTreeMap<String, (Vec<Place>, Vec<Place>)>| {
            let (b, i) = m.get(&key).cloned().unwrap_or_default();
            let mut all = b.clone();
            all.extend(i.clone());
            all.sort();
            (all, i.len())
        };
        let (want, want_inline) = expect(&full);
        let count_ok = |n: usize| inline_count.unwrap_or(0) == n;
        if places == want && count_ok(want_inline) {
            continue;
        }
        let (kwant, kinline) = expect(&known);
        let what = format!(
            "references to {:?}: reported {:?} (inline count hint {:?}), the notes contain {:?} ({} inline places)",
            key,
            places.iter().map(|p| format!("{}:{}", p.src, p.line)).collect::<Vec<_>>(),
            inline_count,
            want.iter().map(|p| format!("{}:{}", p.src, p.line)).collect::<Vec<_>>(),
            want_inline
        );
        if allow_known && places == kwant && count_ok(kinline) {
            return Some((what, true));
        }
        return Some((what, false));
    }
    None
}

/// inlay hints: the model's `Hints.inlayHints` on the last state of a history vs `handle_inlay_hints` of a server that
/// went through the same history (labels and lines, in order)
fn hints_correspondence(model: &mut Model, rep: &mut Report, h: &History) {
    let Some(reply) = hist::model_reply_parts(model, h, &["hints"]) else { return };
    let states = dump::children(&reply);
    let Some(last) = states.last() else { return };
    let parts = dump::children(last);
    let Some(mh) = parts.iter().find(|p| p.starts_with("(hints")) else {
        rep.count("hints_corr_skipped_model_error_or_unmodelled");
        return;
    };
    let mut keys: Vec<String> = h.import.iter().chain(h.steps.iter()).map(|(k, _)| Key::from_file_name(k).to_string()).collect();
    keys.sort();
    keys.dedup();
    let real = dump::catch(|| {
        crate::act::with_via(crate::act::Via::Import, || {
            let state: HashMap<String, String> = h.import.iter().cloned().collect();
            let mut server = c01::server_for(&state, &h.ext);
            for (k, t) in &h.steps {
                server.handle_did_change_text_document(lsp_types::DidChangeTextDocumentParams {
                    text_document: lsp_types::VersionedTextDocumentIdentifier { uri: c01::uri_for(k), version: 2 },
                    content_changes: vec![lsp_types::TextDocumentContentChangeEvent { range: None, range_length: None, text: t.clone() }],
                });
            }
            let mut out = String::from("(hints");
            for k in &keys {
                let hs = dump::catch(|| server.handle_inlay_hints(InlayHintParams { text_document: TextDocumentIdentifier { uri: c01::uri_for(k) }, range: Range::default(), work_done_progress_params: Default::default() }));
                match hs {
                    Ok(hs) => {
                        let items: String = hs
                            .iter()
                            .map(|h| match &h.label {
                                InlayHintLabel::String(s) => format!(" ({} {})", crate::sexp::hex(s), h.position.line),
                                _ => " (?)".to_string(),
                            })
                            .collect();
                        out.push_str(&format!(" ({} (ok{}))", crate::sexp::hex(k), items));
                    }
                    Err(_) => out.push_str(&format!(" ({} (error))", crate::sexp::hex(k))),
                }
            }
            out.push(')');
            out
        })
    });
    let Ok(real) = real else {
        rep.count("hints_corr_skipped_impl_panic");
        return;
    };
    rep.correspondence_cases += 1;
    rep.count("hints_corr_cases");
    // error sites are compared as a class only
    let norm = |s: &str| -> String {
        dump::children(s)[1..].iter().map(|e| if e.contains("(error") { format!("{} error", dump::children(e)[0]) } else { e.to_string() }).collect::<Vec<_>>().join(" ")
    };
    if norm(mh) != norm(&real) {
        rep.disagree(json!({"op": "Hints.inlayHints (last state of graph.history)", "model": norm(mh), "impl": norm(&real), "history": hist::to_json(h)}));
    }
}

pub fn run(ctx: &Ctx, model: &mut Model, rep: &mut Report) {
    rep.rule = "libraries of 2-6 notes in root and sub-directories with block references and inline links (in paragraphs, headings, list items, emphasis) to existing, missing and own notes, many links to one note, external urls, `.md` suffixes; correspondence: model block/inline reference sets and line ranges vs the real getters after import and edits; oracle: textDocument/references + backlink-count hints of every note vs an independent scan of the sources (own pulldown pass + crate relative-path); non-trivial = ≥1 link to a note; distinct by text".to_string();
    let parse_lib = |v: &serde_json::Value| -> Vec<(String, String)> { v.as_array().map(|a| a.iter().map(|p| (p[0].as_str().unwrap().to_string(), p[1].as_str().unwrap().to_string())).collect()).unwrap_or_default() };
    if let Some(path) = &ctx.replay {
        let v: serde_json::Value = serde_json::from_str(&std::fs::read_to_string(path).unwrap()).unwrap();
        let lib = parse_lib(&v["library"]);
        rep.evaluations += 1;
        if let Some((what, _)) = crate::act::with_via(crate::act::via_from(&v["via"]), || check_library(&lib, false)) {
            rep.fail(json!({"kind": "backlinks", "library": lib, "via": v["via"], "what": what}));
        }
        return;
    }
    let mut open_ids = vec![];
    for f in known::open(ctx, "C05") {
        let lib = parse_lib(&f.witness["library"]);
        rep.evaluations += 1;
        open_ids.push(f.id.clone());
        match check_library(&lib, false) {
            Some((what, _)) => rep.known_findings.push(json!({"id": f.id, "what": format!("{} — witness still fails: {}", f.what, what.chars().take(300).collect::<String>())})),
            None => rep.resolved_findings.push(json!({"id": f.id, "what": f.what})),
        }
    }
    // hints around every place where a count is formatted: exactly n notes include one target (`⎘`, `⎘²` … `⎘⁹`, `⎘+`)
    // and n blocks link to it inline (`‹n›`) — model vs implementation, label for label
    for n in [1usize, 2, 3, 9, 10, 11, 12] {
        let mut import = vec![("t".to_string(), "# Target\n".to_string())];
        for i in 0..n {
            import.push((format!("s{:02}", i), format!("# S{}\n\n[t](t)\n\nsee [t](t) here\n", i)));
        }
        let h = History { ext: String::new(), import, steps: vec![] };
        hints_correspondence(model, rep, &h);
        rep.count("hints_count_ladder");
    }
    let known_open = open_ids.contains(&"D12".to_string()) || open_ids.contains(&"D22".to_string());
    let n = if ctx.thorough { 5000 } else { 1200 };
    for i in 0..n {
        let mut r = Rng::for_case(ctx.seed ^ 0xC05, i as u64);
        // every 8th library carries the features of the known findings (attribution stream)
        let wild = i % 8 == 7;
        let mut lib = gen_library(&mut r, wild);
        if i % 5 == 1 && lib.len() >= 3 {
            // fan-in: one note links once, a later one several times, to the same target (an index that is
            // merged per target must keep the links of both)
            let t = lib[0].0.clone();
            for (j, n) in [1usize, 3].iter().enumerate() {
                let dir = crate::oracle::md::dir_of(&lib[j + 1].0);
                let url = md::rel_url(&t, &dir);
                // (a text without a final line end — an empty note with a byte order mark — would take the first
                // appended link into its last paragraph)
                if !lib[j + 1].1.is_empty() && !lib[j + 1].1.ends_with('\n') {
                    lib[j + 1].1.push('\n');
                }
                for _ in 0..*n {
                    lib[j + 1].1.push_str(&format!("\n[fan]({})\n", url));
                }
                if dir.is_empty() {
                    lib[j + 1].1.push_str(&format!("\nsee [fan in text]({}) here\n", url));
                }
            }
        }
        let text = format!("{:?}", lib);
        rep.case(&text, text.contains("]("));
        if i < 1 {
            rep.sample(json!({"library": lib}));
        }
        // correspondence on the reference getters and line ranges
        if !wild {
            let mut h = History { ext: String::new(), import: lib.clone(), steps: vec![] };
            if i % 3 == 0 {
                let extra = gen_library(&mut r, false);
                h.steps.push((lib[0].0.clone(), extra[0].1.clone()));
            }
            if let Some(reply) = hist::model_reply_parts(model, &h, &["brefs", "irefs", "ranges"]) {
                let imp = hist::run_impl(&h, |_, _| {});
                match hist::compare(&reply, &imp, &["brefs", "irefs", "ranges"]) {
                    Err(e) if e == "unmodelled" => rep.count("corr_skipped_unmodelled_builder_state"),
                    Err(e) => rep.disagree(json!({"op": "graph.history", "what": e, "history": hist::to_json(&h)})),
                    Ok(diffs) => {
                        rep.correspondence_cases += 1;
                        if let Some(d) = diffs.first() {
                            rep.disagree(json!({"op": format!("graph.history part {} at step {}", d.part, d.step), "model": d.model, "impl": d.imp, "history": hist::to_json(&h)}));
                        }
                    }
                }
            }
            hints_correspondence(model, rep, &h);
        }
        let via = crate::act::via_for(i as u64);
        rep.count(&format!("loaded_via_{:?}", via));
        match crate::act::with_via(via, || check_library(&lib, wild && known_open)) {
            None => {}
            Some((_, true)) => rep.count("attributed_to_D12_or_D22"),
            Some((what, false)) => rep.fail(json!({"kind": "backlinks", "library": lib, "via": format!("{:?}", via), "what": what})),
        }
    }
}
