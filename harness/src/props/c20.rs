//! C20 — the document graph stays a well-formed forest after every operation.
use crate::dump;
use crate::hist::{self, History, ImplState};
use crate::known;
use liwe::graph::Reader;
use liwe::model::document::DocumentBlock;
use crate::{model::Model, report::Report, rng::Rng, sexp::*, Ctx};
use liwe::graph::{Graph, GraphContext};
use liwe::model::node::{NodeIter, NodePointer};
use serde_json::json;

/// well-formedness of the real arena, decided by the Lean `wfCheck` on its dump; navigation compared
fn check_graph(model: &mut Model, g: &Graph) -> Vec<String> {
    let mut problems = vec![];
    let arena = format!("(arena{})", g.nodes().iter().map(|n| format!(" {}", dump::gnode(g, n))).collect::<String>());
    let mut keys = g.keys();
    keys.sort_by_key(|k| k.to_string());
    let keys_s = format!("(keys{})", keys.iter().map(|k| format!(" ({} {})", hex(&k.to_string()), g.get_node_id(k).unwrap())).collect::<String>());
    let reply = model.call(&format!("(arena.wf {} {})", arena, keys_s));
    if reply != "ok" {
        let why: Vec<String> = dump::children(&reply).iter().skip(1).filter_map(|s| unhex(s)).collect();
        problems.push(format!("arena not well-formed: {}", why.join("; ")));
    }
    // navigation: implementation vs Lean navigation on the same arena
    let nav = model.call(&format!("(arena.nav {})", arena));
    let mut imp_rows = vec![];
    for n in g.nodes().iter() {
        if n.is_empty() {
            continue;
        }
        let id = n.id();
        let p = dump::catch(|| g.node(id).to_parent().and_then(|p| p.id()));
        let k = dump::catch(|| g.node(id).to_document().and_then(|d| d.document_key()).map(|k| k.to_string()));
        let l = dump::catch(|| g.node(id).is_in_list());
        match (p, k, l) {
            (Ok(p), Ok(k), Ok(l)) => imp_rows.push(format!(
                "({} {} {} {})",
                id,
                p.map(|x| x.to_string()).unwrap_or("none".into()),
                opt(k.map(|k| hex(&k))),
                l
            )),
            _ => problems.push(format!("navigation from node {} panics", id)),
        }
    }
    let imp_nav = format!("(nav{})", imp_rows.iter().map(|r| format!(" {}", r)).collect::<String>());
    if imp_nav != nav && problems.is_empty() {
        let a = dump::children(&nav);
        let b = dump::children(&imp_nav);
        let d = a.iter().zip(b.iter()).find(|(x, y)| x != y).map(|(x, y)| format!("model {} impl {}", x, y)).unwrap_or_default();
        problems.push(format!("parent / owning note / in-list answer differs from the tree: {}", d));
    }
    // walking a note from its root visits precisely its live blocks, each live block belongs to exactly one note
    let mut seen = std::collections::HashMap::new();
    for k in &keys {
        if let Ok(ids) = dump::catch(|| g.node(g.get_node_id(k).unwrap()).get_all_sub_nodes()) {
            for id in ids {
                if let Some(prev) = seen.insert(id, k.to_string()) {
                    problems.push(format!("block {} is reachable from note {} and from note {}", id, prev, k));
                }
                if g.graph_node(id).is_empty() {
                    problems.push(format!("note {} reaches removed block {}", k, id));
                }
            }
        } else {
            problems.push(format!("walking note {} panics", k));
        }
    }
    let live = g.nodes().iter().filter(|n| !n.is_empty()).count();
    if seen.len() != live && problems.is_empty() {
        problems.push(format!("{} live blocks but {} reachable from the notes", live, seen.len()));
    }
    problems
}

fn oracle(model: &mut Model, h: &History) -> Option<(usize, String)> {
    let mut bad: Option<(usize, String)> = None;
    // the rendered text of every note after the previous operation
    let mut prev: std::collections::BTreeMap<String, String> = Default::default();
    hist::run_impl_resilient(h, |step, g, dirty| {
        if bad.is_some() {
            return;
        }
        // while a note's latest update has panicked its tree may be half built (the panic is C03's finding D9 / D21):
        // the forest is judged again once that note has been updated successfully
        if dirty {
            prev.clear();
            return;
        }
        let mut p = check_graph(model, g);
        // the text content (line slot) of a live block is its own: no two live blocks share one
        let mut slots: std::collections::HashMap<usize, u64> = Default::default();
        for n in g.nodes().iter().filter(|n| !n.is_empty()) {
            if let Some(l) = n.line_id() {
                if let Some(other) = slots.insert(l as usize, n.id()) {
                    p.push(format!("live blocks {} and {} share the text slot {}", other, n.id(), l));
                }
            }
        }
        // an operation on one note does not disturb the blocks of another note
        let touched = if step == 0 { None } else { h.steps.get(step - 1).map(|(k, _)| liwe::model::Key::from_file_name(k).to_string()) };
        let mut now: std::collections::BTreeMap<String, String> = Default::default();
        for k in g.keys() {
            // the stored blocks of the note (ids, links, stored text), not its rendering: rendering reads
            // the titles of other notes by design (C06)
            if let Ok(t) = dump::catch(|| {
                let root = g.get_node_id(&k).unwrap();
                let mut ids = vec![root];
                ids.extend(g.node(root).get_all_sub_nodes());
                ids.iter().map(|id| format!("{} ", dump::gnode(g, &g.graph_node(*id)))).collect::<String>()
            }) {
                now.insert(k.to_string(), t);
            }
        }
        if step > 0 && !prev.is_empty() {
            for (k, before) in &prev {
                if Some(k) != touched.as_ref() {
                    match now.get(k) {
                        Some(after) if after == before => {}
                        Some(after) => p.push(format!("the update of {:?} changed note {:?}: {:?} became {:?}", touched, k, before.chars().take(120).collect::<String>(), after.chars().take(120).collect::<String>())),
                        None => p.push(format!("the update of {:?} removed note {:?}", touched, k)),
                    }
                }
            }
        }
        prev = now;
        if !p.is_empty() {
            bad = Some((step, p.join(" | ")));
        }
    });
    bad
}

pub fn run(ctx: &Ctx, model: &mut Model, rep: &mut Report) {
    rep.rule = "random libraries (1-5 notes over root and sub-directories, cross-links, all block kinds) and edit histories (update existing / insert new keys); after import and after every step: model arena + keys vs real arena + keys (exact ids), Lean wfCheck on the real arena, navigation (parent, owning note, in-list) of every live id, reachability partition, no text slot shared by two live blocks, the stored blocks (ids, links, text) of every note not touched by a step unchanged by it; non-trivial = history with ≥1 step or ≥2 notes; distinct by text".to_string();
    if let Some(path) = &ctx.replay {
        let v: serde_json::Value = serde_json::from_str(&std::fs::read_to_string(path).unwrap()).unwrap();
        if let Some(h) = v.get("history").and_then(hist::from_json) {
            rep.evaluations += 1;
            if let Some((step, what)) = oracle(model, &h) {
                rep.fail(json!({"kind": "wf", "history": hist::to_json(&h), "step": step, "what": what}));
            }
        }
        return;
    }
    // known findings: replay each open witness
    for f in known::open(ctx, "C20") {
        if let Some(h) = f.witness.get("history").and_then(hist::from_json) {
            rep.evaluations += 1;
            match oracle(model, &h) {
                Some((_, what)) => rep.known_findings.push(json!({"id": f.id, "what": format!("{} — witness still fails: {}", f.what, what)})),
                None => rep.resolved_findings.push(json!({"id": f.id, "what": f.what})),
            }
        }
    }
    let d23_open = known::is_open(ctx, "C20", "D23");
    let n = if ctx.thorough { 6000 } else { 500 };
    for i in 0..n {
        let mut r = Rng::for_case(ctx.seed ^ 0xC20, i as u64);
        let wf = !r.chance(1, 6);
        let mut h = hist::gen_history(&mut r, wf, 6);
        // an edit that the builder rejects with a panic (a list item starting with a quote: finding D9), then a good
        // edit of the same note: the server catches the panic and keeps serving, the forest must be whole again
        if i % 7 == 3 && !h.import.is_empty() {
            let k = h.import[r.below(h.import.len())].0.clone();
            h.steps.push((k.clone(), "# broken\n\n- > quoted\n\ntail\n".to_string()));
            if r.chance(1, 2) {
                let other = h.import[0].0.clone();
                h.steps.push((other, "# another note edited meanwhile\n".to_string()));
            }
            h.steps.push((k, "# recovered\n\ntext [link](a)\n".to_string()));
        }
        let text = format!("{:?}", h);
        rep.case(&text, h.steps.len() >= 1 || h.import.len() >= 2);
        rep.count(&format!("steps_{}", h.steps.len()));
        rep.count(&format!("notes_{}", h.import.len()));
        if i < 1 {
            rep.sample(hist::to_json(&h));
        }
        // correspondence on arena + keys
        match hist::model_reply_parts(model, &h, &["arena", "keys"]) {
            None => rep.count("corr_skipped_unmodelled_inline_or_reader_panic"),
            Some(reply) => {
                let imp = hist::run_impl(&h, |_, _| {});
                match hist::compare(&reply, &imp, &["arena", "keys"]) {
                    Err(e) if e == "unmodelled" => rep.count("corr_skipped_unmodelled_builder_state"),
                    Err(e) => rep.disagree(json!({"op": "graph.history", "what": e, "history": hist::to_json(&h)})),
                    Ok(diffs) => {
                        rep.correspondence_cases += 1;
                        if imp.iter().any(|s| matches!(s, ImplState::Panic(_))) {
                            rep.count("corr_both_fail");
                        }
                        if let Some(d) = diffs.first() {
                            let small = hist::shrink(&h, |c| {
                                hist::model_reply_parts(model, c, &["arena", "keys"]).map(|rp| hist::compare(&rp, &hist::run_impl(c, |_, _| {}), &["arena", "keys"]).map(|d| !d.is_empty()).unwrap_or(false)).unwrap_or(false)
                            });
                            rep.disagree(json!({"op": format!("graph.history part {} at step {}", d.part, d.step), "model": d.model, "impl": d.imp, "history": hist::to_json(&small)}));
                        }
                    }
                }
            }
        }
        // oracle on the implementation
        if let Some((step, what)) = oracle(model, &h) {
            let small = hist::shrink(&h, |c| oracle(model, c).is_some());
            let (step, what) = oracle(model, &small).unwrap_or((step, what));
            if d23_open && history_has_leading_list_item_with_tail(&small) {
                rep.count("attributed_to_D23");
                continue;
            }
            rep.fail(json!({"kind": "wf", "history": hist::to_json(&small), "step": step, "what": what}));
        }
    }
}

/// feature of finding D23: a list item whose first block is a list and which continues with further blocks
fn leading_list_item_with_tail(bs: &[DocumentBlock]) -> bool {
    bs.iter().any(|b| match b {
        DocumentBlock::BulletList(l) => l.items.iter().any(|it| item_has(it)),
        DocumentBlock::OrderedList(l) => l.items.iter().any(|it| item_has(it)),
        DocumentBlock::BlockQuote(q) => leading_list_item_with_tail(&q.blocks),
        _ => false,
    })
}
fn item_has(it: &[DocumentBlock]) -> bool {
    (it.len() > 1 && matches!(it[0], DocumentBlock::BulletList(_) | DocumentBlock::OrderedList(_))) || leading_list_item_with_tail(it)
}
pub fn history_has_leading_list_item_with_tail(h: &History) -> bool {
    h.import.iter().chain(h.steps.iter()).any(|(_, t)| {
        dump::catch(|| liwe::markdown::MarkdownReader::new().document(t)).map(|d| leading_list_item_with_tail(&d.blocks)).unwrap_or(false)
    })
}
