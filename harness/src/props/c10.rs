//! C10 — list/section conversions keep content and undo each other.  (Also the shared
//! model-vs-implementation comparison of code actions used by C09.)
use crate::act::{self, Change, Lib};
use crate::gen;
use crate::hist::{self, History};
use crate::known;
use crate::oracle::md;
use crate::sexp::*;
use crate::{dump, model::Model, report::Report, rng::Rng, Ctx};
use liwe::model::Key;
use serde_json::json;

pub static D29_OPEN: std::sync::atomic::AtomicBool = std::sync::atomic::AtomicBool::new(false);
pub static D10_OPEN: std::sync::atomic::AtomicBool = std::sync::atomic::AtomicBool::new(false);
pub static D30_OPEN: std::sync::atomic::AtomicBool = std::sync::atomic::AtomicBool::new(false);
pub static D28_OPEN: std::sync::atomic::AtomicBool = std::sync::atomic::AtomicBool::new(false);
pub const LIST_TYPE: &str = "refactor.rewrite.list.type";
pub const LIST_SECTION: &str = "refactor.rewrite.list.section";
pub const SECTION_LIST: &str = "refactor.rewrite.section.list";

pub fn payloads(text: &str, dir: &str) -> Vec<String> {
    md::atoms(text, dir).into_iter().map(|a| a.payload).collect()
}

pub fn gen_note_library(r: &mut Rng) -> Vec<(String, String)> {
    let keys: Vec<String> = vec!["a".into(), "b".into(), "d/x".into(), "d/y".into()];
    let main = if r.chance(1, 4) { "d/x" } else { "a" };
    keys.iter()
        .map(|k| {
            let mut p = hist::profile_for(&keys, k, true);
            if k == main {
                p.max_blocks = 9;
                p.max_depth = 4;
            } else {
                p.max_blocks = 3;
            }
            p.inline_note_links = !k.contains('/');
            (k.clone(), gen::document(r, &p))
        })
        .collect()
}

/// a note whose sections are preceded by a list (or not) in their parent's body: a heading, its own blocks ending in a
/// bullet list / ordered list / paragraph, then two or three sub-sections with blocks of their own, then perhaps a second
/// top-level section — a conversion of the second or third sub-section must leave the blocks before it where they are
pub fn shaped_note(r: &mut Rng) -> String {
    const W: &[&str] = &["alpha", "beta", "gamma", "delta", "eps", "zeta", "eta", "theta"];
    let n = std::cell::Cell::new(0usize);
    let word = |r: &mut Rng| {
        n.set(n.get() + 1);
        format!("{}{}", r.pick(W), n.get())
    };
    let body = |r: &mut Rng, out: &mut String| match r.below(4) {
        0 => out.push_str(&format!("- {}\n- {}\n\n", word(r), word(r))),
        1 => out.push_str(&format!("1.  {}\n2.  {}\n\n", word(r), word(r))),
        2 => out.push_str(&format!("{} {}\n\n- {}\n\n", word(r), word(r), word(r))),
        _ => out.push_str(&format!("{} {}\n\n", word(r), word(r))),
    };
    let mut out = String::new();
    let top = r.chance(3, 4);
    if top {
        out.push_str(&format!("# {}\n\n", word(r)));
    }
    body(r, &mut out);
    let sub = if top { "##" } else { "#" };
    for _ in 0..r.range(2, 4) {
        out.push_str(&format!("{} {}\n\n", sub, word(r)));
        if r.chance(2, 3) {
            body(r, &mut out);
        }
        if r.chance(1, 3) {
            out.push_str(&format!("{}# {}\n\n{}\n\n", sub, word(r), word(r)));
        }
    }
    if top && r.chance(1, 3) {
        out.push_str(&format!("# {}\n\n{}\n", word(r), word(r)));
    }
    out
}

/// what the model says about the actions at (key, line) vs the implementation
pub fn compare_actions(model: &mut Model, lib: &Lib, ext: &str, key: &str, line: u32, kinds: &[&str], real: &Result<Vec<(String, u64, Result<Vec<Change>, String>)>, String>) -> Option<Result<(), String>> {
    let h = History { ext: ext.to_string(), import: lib.iter().map(|(k, v)| (k.clone(), v.clone())).collect(), steps: vec![] };
    let req = hist::request(&h)?;
    let inner = req.strip_prefix("(graph.history ")?.strip_suffix(')')?;
    let reply = model.call(&format!("(graph.actions {} {} {})", inner, hex(key), line));
    if reply.contains("unmodelled") {
        return None;
    }
    let parts = dump::children(&reply);
    let real = match real {
        Ok(r) => r,
        Err(e) => {
            return Some(if parts.first() == Some(&"error") { Ok(()) } else { Err(format!("implementation panics ({}), model says {}", e, cut(&reply))) });
        }
    };
    if parts.first() != Some(&"actions") {
        return Some(Err(format!("model: {}; implementation offers {:?}", cut(&reply), real.iter().map(|r| &r.0).collect::<Vec<_>>())));
    }
    let model_entries: Vec<Vec<&str>> = parts.iter().skip(2).map(|e| dump::children(e)).collect();
    let mk: Vec<&str> = model_entries.iter().map(|e| e[0]).collect();
    let rk: Vec<&str> = real.iter().map(|r| r.0.as_str()).collect();
    if mk != rk {
        return Some(Err(format!("offered actions differ: model {:?}, implementation {:?}", mk, rk)));
    }
    if let (Some(id), Some(first)) = (parts.get(1), real.first()) {
        if id.parse::<u64>().ok() != Some(first.1) {
            return Some(Err(format!("target node differs: model {}, implementation {}", id, first.1)));
        }
    }
    for (e, (kind, _, res)) in model_entries.iter().zip(real.iter()) {
        if !kinds.is_empty() && !kinds.contains(&kind.as_str()) {
            continue;
        }
        let m = e.get(1).cloned().unwrap_or("");
        match res {
            Err(p) => {
                if !(m == "none" || m.starts_with("(error")) {
                    return Some(Err(format!("{}: implementation panics ({}), model gives changes", kind, p)));
                }
            }
            Ok(cs) => {
                let want = format!("(changes{})", cs.iter().map(|c| format!(" {}", act::change_s(c))).collect::<String>());
                if m != want {
                    return Some(Err(format!("{}: changes differ: model {} implementation {}", kind, crate::props::c04::decode(&cut(m)), crate::props::c04::decode(&cut(&want)))));
                }
            }
        }
    }
    Some(Ok(()))
}

fn cut(s: &str) -> String {
    s.chars().take(500).collect()
}

fn count_lists(text: &str) -> usize {
    md::atoms(text, "").iter().flat_map(|a| a.path.iter()).filter(|p| *p == "ul" || *p == "ol").count().min(1) + text.lines().filter(|l| l.trim_start().starts_with("- ") || l.trim_start().chars().next().map(|c| c.is_ascii_digit()).unwrap_or(false)).count()
}

/// the three conversions at every line of `key`
pub fn check_note(l0: &Lib, ext: &str, key: &str) -> Option<String> {
    let dir = crate::oracle::md::dir_of(key);
    // finding D28 (front-matter dropped by every action) has its own witness; the rest is checked without front-matter
    let mut l0 = l0.clone();
    if D28_OPEN.load(std::sync::atomic::Ordering::Relaxed) {
        if let Some(t) = l0.get(key).cloned() {
            if t.starts_with("---\n") {
                let body = t.splitn(3, "---\n").nth(2).unwrap_or("").trim_start_matches('\n').to_string();
                l0.insert(key.to_string(), body);
            }
        }
    }
    let l0 = &l0;
    let text0 = l0.get(key)?.clone();
    let server = act::server(l0, ext, true);
    let nlines = text0.lines().count() as u32;
    for line in 0..nlines {
        let Ok(actions) = act::actions_at_guarded(&server, l0, key, line) else { continue };
        for (kind, _, res) in &actions {
            if ![LIST_TYPE, LIST_SECTION, SECTION_LIST].contains(&kind.as_str()) {
                continue;
            }
            let Ok(changes) = res else { continue }; // panics are C12's
            // rewrites only this note
            if changes.iter().any(|c| !matches!(c, Change::Update(k, _) if k == key)) {
                return Some(format!("{} at line {}: touches more than note {:?}: {:?}", kind, line, key, changes.iter().map(|c| format!("{:?}", c).chars().take(60).collect::<String>()).collect::<Vec<_>>()));
            }
            let l1 = act::apply(l0, changes);
            let text1 = l1.get(key).cloned().unwrap_or_default();
            // every word, link and nested block kept, in order
            let (mut p0, p1) = (payloads(&text0, &dir), payloads(&text1, &dir));
            // every code action re-renders the note without its front-matter (finding D28)
            if D28_OPEN.load(std::sync::atomic::Ordering::Relaxed) && text0.starts_with("---\n") && !text1.starts_with("---\n") {
                p0.remove(0);
            }
            if p0 != p1 {
                if D10_OPEN.load(std::sync::atomic::Ordering::Relaxed) && kind == SECTION_LIST && section_has_rule_or_table(&text0, line as usize) {
                    continue;
                }
                let i = p0.iter().zip(p1.iter()).position(|(a, b)| a != b).unwrap_or(p0.len().min(p1.len()));
                return Some(format!("{} at line {}: content changed at atom {}: before {:?}, after {:?} ({} vs {} atoms) — result {:?}", kind, line, i, p0.get(i), p1.get(i), p0.len(), p1.len(), cut(&text1)));
            }
            // the result is itself formatted (a fixpoint)
            if let Ok(again) = crate::props::c01::format_single(key, &text1, ext) {
                if again != text1 && l0.len() == 1 {
                    return Some(format!("{} at line {}: the rewritten note is not in normal form", kind, line));
                }
            }
            // undo
            let server1 = act::server(&l1, ext, true);
            let back_kind = match kind.as_str() {
                LIST_TYPE => LIST_TYPE,
                SECTION_LIST => LIST_SECTION,
                _ => continue,
            };
            let Ok(actions1) = act::actions_at_guarded(&server1, &l1, key, line) else { continue };
            let Some((_, _, Ok(changes1))) = actions1.iter().find(|a| a.0 == back_kind) else {
                return Some(format!("{} at line {}: the inverse action {} is not offered at that line afterwards", kind, line, back_kind));
            };
            let l2 = act::apply(&l1, changes1);
            let text2 = l2.get(key).cloned().unwrap_or_default();
            let text0 = if D28_OPEN.load(std::sync::atomic::Ordering::Relaxed) && text0.starts_with("---\n") && !text2.starts_with("---\n") {
                text0.splitn(3, "---\n").nth(2).map(|s| s.trim_start_matches('\n').to_string()).unwrap_or(text0.clone())
            } else {
                text0.clone()
            };
            if text2 != text0 {
                let (n0, n1) = (md::read(&text0, &dir).lists, md::read(&text1, &dir).lists);
                // section → list next to another list merges with it when the text is read back: excluded by the property
                if kind == SECTION_LIST && n1 != n0 + 1 {
                    continue;
                }
                // a section that follows a sibling section: as a list it belongs to that sibling, and comes back as its sub-section (finding D30)
                if kind == SECTION_LIST && D30_OPEN.load(std::sync::atomic::Ordering::Relaxed) && has_preceding_sibling_section(&text0, line as usize) {
                    continue;
                }
                if D10_OPEN.load(std::sync::atomic::Ordering::Relaxed) && kind == SECTION_LIST && section_has_rule_or_table(&text0, line as usize) {
                    continue;
                }
                // change-type on a list adjacent to a list of the other kind merges the two (finding D29)
                if kind == LIST_TYPE && n1 < n0 {
                    if D29_OPEN.load(std::sync::atomic::Ordering::Relaxed) {
                        continue;
                    }
                    return Some(format!("{} at line {}: the list merges with its neighbour of the other kind ({} lists before, {} after): twice does not restore", kind, line, n0, n1));
                }
                return Some(format!("{} at line {} then {}: does not restore the note: {}", kind, line, back_kind, crate::props::c02::first_line_diff(&text0, &text2)));
            }
        }
    }
    None
}

/// is the section starting at `line` directly preceded or followed by a list (same level of the text)?
fn adjacent_list(text: &str, line: usize) -> bool {
    let lines: Vec<&str> = text.lines().collect();
    let is_item = |l: &str| l.starts_with("- ") || l.chars().next().map(|c| c.is_ascii_digit()).unwrap_or(false) || l.starts_with("  ");
    // previous non-blank line
    let prev = lines[..line].iter().rev().find(|l| !l.trim().is_empty());
    if prev.map(|l| is_item(l)).unwrap_or(false) {
        return true;
    }
    // the block after the section: first line at or after the next heading of level ≤ this one, or any list right after
    let level = lines[line].chars().take_while(|c| *c == '#').count();
    for l in &lines[line + 1..] {
        let lv = l.chars().take_while(|c| *c == '#').count();
        if lv > 0 && lv <= level && l.chars().nth(lv) == Some(' ') {
            return false;
        }
    }
    // the section runs to the end or is followed by a list somewhere inside the same parent: be conservative
    lines[line + 1..].iter().any(|l| is_item(l))
}

pub fn run(ctx: &Ctx, model: &mut Model, rep: &mut Report) {
    rep.rule = "libraries whose main note has headings at several depths, nested and mixed lists, sections holding code, quotes, tables and references; the formatted note is taken as start; every line at which section-to-list, list-to-sections or change-list-type is offered; correspondence: offered actions, target node and resulting text model vs implementation; oracle: only this note is rewritten, atom payload sequence unchanged, change-type twice and section→list→back (not adjacent to another list) restore the note byte for byte; non-trivial = some action offered; distinct by text".to_string();
    let parse_lib = |v: &serde_json::Value| -> Vec<(String, String)> { v.as_array().map(|a| a.iter().map(|p| (p[0].as_str().unwrap().to_string(), p[1].as_str().unwrap().to_string())).collect()).unwrap_or_default() };
    if let Some(path) = &ctx.replay {
        let v: serde_json::Value = serde_json::from_str(&std::fs::read_to_string(path).unwrap()).unwrap();
        let lib = parse_lib(&v["library"]);
        rep.evaluations += 1;
        if let Some(l0) = act::formatted(&lib, v["ext"].as_str().unwrap_or("")) {
            if let Some(what) = act::with_via(act::via_from(&v["via"]), || check_note(&l0, v["ext"].as_str().unwrap_or(""), v["key"].as_str().unwrap_or("a"))) {
                rep.fail(json!({"kind": "conversion", "library": lib, "ext": v["ext"], "key": v["key"], "what": what}));
            }
        }
        return;
    }
    for f in known::open(ctx, "C10") {
        let lib = parse_lib(&f.witness["library"]);
        rep.evaluations += 1;
        let r = act::formatted(&lib, "").and_then(|l0| check_note(&l0, "", f.witness["key"].as_str().unwrap_or("a")));
        match r {
            Some(what) => rep.known_findings.push(json!({"id": f.id, "what": format!("{} — witness still fails: {}", f.what, cut(&what))})),
            None => rep.resolved_findings.push(json!({"id": f.id, "what": f.what})),
        }
    }
    D29_OPEN.store(known::is_open(ctx, "C10", "D29"), std::sync::atomic::Ordering::Relaxed);
    D28_OPEN.store(known::is_open(ctx, "C10", "D28"), std::sync::atomic::Ordering::Relaxed);
    D10_OPEN.store(known::is_open(ctx, "C10", "D10"), std::sync::atomic::Ordering::Relaxed);
    D30_OPEN.store(known::is_open(ctx, "C10", "D30"), std::sync::atomic::Ordering::Relaxed);
    let n = if ctx.thorough { 1500 } else { 60 };
    for i in 0..n {
        let mut r = Rng::for_case(ctx.seed ^ 0xC10, i as u64);
        let mut lib = gen_note_library(&mut r);
        if i % 3 == 1 {
            // every third case: a small outline whose sections follow a list or a paragraph of their parent
            let text = shaped_note(&mut r);
            let big = if lib.iter().find(|(k, _)| k == "d/x").map(|(_, t)| t.len()).unwrap_or(0) > lib.iter().find(|(k, _)| k == "a").map(|(_, t)| t.len()).unwrap_or(0) { "d/x" } else { "a" };
            for (k, t) in lib.iter_mut() {
                if k == big {
                    *t = text.clone();
                }
            }
            rep.count("shaped_outline_cases");
        }
        let ext = if i % 3 == 0 { ".md" } else { "" };
        let Some(l0) = act::formatted(&lib, ext) else { continue };
        let key = if l0.get("d/x").map(|t| t.len()).unwrap_or(0) > l0.get("a").map(|t| t.len()).unwrap_or(0) { "d/x" } else { "a" };
        let text = format!("{:?}", l0);
        let server = act::server(&l0, ext, true);
        let nlines = l0[key].lines().count() as u32;
        let mut offered_any = false;
        for line in 0..nlines {
            let real = act::actions_at_guarded(&server, &l0, key, line);
            if let Ok(a) = &real {
                for (k, _, _) in a {
                    rep.count(&format!("offered_{}", k.rsplit('.').next().unwrap_or("")));
                    offered_any = true;
                }
            }
            // correspondence on every 2nd line (quick) / every line (thorough)
            if ctx.thorough || line % 3 == 0 {
                match compare_actions(model, &l0, ext, key, line, &[LIST_TYPE, LIST_SECTION, SECTION_LIST], &real) {
                    None => rep.count("corr_skipped_unmodelled"),
                    Some(Ok(())) => rep.correspondence_cases += 1,
                    Some(Err(e)) => {
                        rep.correspondence_cases += 1;
                        rep.disagree(json!({"op": format!("code actions at {}:{}", key, line), "what": e, "library": l0, "ext": ext}));
                    }
                }
            }
        }
        rep.case(&text, offered_any);
        if i < 1 {
            rep.sample(json!({"library": l0, "ext": ext, "key": key}));
        }
        let via = act::via_for(i as u64);
        rep.count(&format!("loaded_via_{:?}", via));
        if let Some(what) = act::with_via(via, || check_note(&l0, ext, key)) {
            rep.fail(json!({"kind": "conversion", "library": lib, "ext": ext, "key": key, "via": format!("{:?}", via), "what": what}));
        }
    }
}

fn heading_level(l: &str) -> usize {
    let n = l.chars().take_while(|c| *c == '#').count();
    if n > 0 && l.chars().nth(n) == Some(' ') { n } else { 0 }
}

/// the nearest heading before `line` is not an ancestor of the section at `line`
fn has_preceding_sibling_section(text: &str, line: usize) -> bool {
    let lines: Vec<&str> = text.lines().collect();
    let level = heading_level(lines.get(line).cloned().unwrap_or(""));
    let mut in_code = false;
    let mut prev = 0;
    for l in &lines[..line.min(lines.len())] {
        if l.starts_with("```") {
            in_code = !in_code;
        }
        if !in_code && heading_level(l) > 0 {
            prev = heading_level(l);
        }
    }
    level > 0 && prev >= level
}

/// the body of the section at `line` (up to the next heading) holds a rule or a table directly
fn section_has_rule_or_table(text: &str, line: usize) -> bool {
    let lines: Vec<&str> = text.lines().collect();
    // the converted section reaches to the next heading of the same or a higher level (its sub-sections go with it)
    let own = lines.get(line).map(|l| heading_level(l)).unwrap_or(0);
    let mut in_code = false;
    for l in lines.iter().skip(line + 1) {
        // `# …` lines inside a fenced code block are not headings
        if l.trim_start().starts_with("```") {
            in_code = !in_code;
            continue;
        }
        if in_code {
            continue;
        }
        let h = heading_level(l);
        if h > 0 && (own == 0 || h <= own) {
            break;
        }
        // also nested in quotes and list items of the section
        let t = l.trim_start().trim_start_matches('>').trim_start();
        let t = t.trim_start_matches('>').trim_start();
        if t.starts_with("----") || t.starts_with('|') {
            return true;
        }
    }
    false
}
