//! C09 — extract and inline refactorings move content without losing or duplicating it.
use crate::act::{self, Change, Lib};
use crate::known;
use crate::oracle::md;
use crate::props::c10;
use crate::{dump, model::Model, report::Report, rng::Rng, Ctx};
use liwe::model::Key;
use serde_json::json;
use std::sync::atomic::{AtomicBool, Ordering};

pub const EXTRACT: &str = "refactor.extract.section";
pub const EXTRACT_SUBS: &str = "refactor.extract.subsections";
pub const INLINE_SECTION: &str = "refactor.inline.reference.section";
pub const INLINE_QUOTE: &str = "refactor.inline.reference.quote";

static D28_OPEN: AtomicBool = AtomicBool::new(false);
static D10_OPEN: AtomicBool = AtomicBool::new(false);

fn sorted(mut v: Vec<String>) -> Vec<String> {
    v.sort();
    v
}

fn strip_front_matter(t: &str) -> String {
    if t.starts_with("---\n") {
        t.splitn(3, "---\n").nth(2).unwrap_or("").trim_start_matches('\n').to_string()
    } else {
        t.to_string()
    }
}

fn cut(s: &str) -> String {
    s.chars().take(400).collect()
}

fn multiset_diff(a: &[String], b: &[String]) -> String {
    let mut extra = b.to_vec();
    let mut missing = vec![];
    for x in a {
        if let Some(i) = extra.iter().position(|y| y == x) {
            extra.remove(i);
        } else {
            missing.push(x.clone());
        }
    }
    format!("lost {:?}, new {:?}", missing.iter().take(5).collect::<Vec<_>>(), extra.iter().take(5).collect::<Vec<_>>())
}

/// extract / inline at every line of `key`, with random (production-mode) keys
pub fn check_note(l0: &Lib, ext: &str, key: &str) -> Option<String> {
    let mut l0 = l0.clone();
    if D28_OPEN.load(Ordering::Relaxed) {
        // finding D28 (front-matter dropped by every action) has its own witness
        for (_, t) in l0.iter_mut() {
            *t = strip_front_matter(t);
        }
    }
    let l0 = &l0;
    let dir = crate::oracle::md::dir_of(key);
    let text0 = l0.get(key)?.clone();
    let server = act::server(l0, ext, false);
    let nlines = text0.lines().count() as u32;
    for line in 0..nlines {
        let Ok(actions) = act::actions_at_guarded(&server, l0, key, line) else { continue };
        for (kind, _, res) in &actions {
            let Ok(changes) = res else { continue }; // panics (dangling reference, reference outside a section, self reference) are C12's
            let l1 = act::apply(l0, changes);
            match kind.as_str() {
                EXTRACT | EXTRACT_SUBS => {
                    let created: Vec<&String> = changes.iter().filter_map(|c| if let Change::Create(k) = c { Some(k) } else { None }).collect();
                    for k in &created {
                        if l0.contains_key(*k) {
                            return Some(format!("{} at line {}: the new note {:?} already exists", kind, line, k));
                        }
                    }
                    if kind == EXTRACT && created.len() != 1 {
                        return Some(format!("{} at line {}: {} notes created", kind, line, created.len()));
                    }
                    let mut uniq = created.clone();
                    uniq.sort();
                    uniq.dedup();
                    if uniq.len() != created.len() {
                        return Some(format!("{} at line {}: the same new key {:?} is used for several extracted sections", kind, line, created));
                    }
                    // only the source and the new notes are touched
                    for c in changes {
                        let k = match c { Change::Create(k) | Change::Update(k, _) | Change::Remove(k) => k };
                        if k != key && !created.contains(&k) {
                            return Some(format!("{} at line {}: touches unrelated note {:?}", kind, line, k));
                        }
                    }
                    // conservation: atoms(source') + atoms(new notes) = atoms(source) + one reference per new note
                    let mut after = c10::payloads(l1.get(key).map(|s| s.as_str()).unwrap_or(""), &dir);
                    for k in &created {
                        let d = crate::oracle::md::dir_of(k);
                        after.extend(c10::payloads(l1.get(*k).map(|s| s.as_str()).unwrap_or(""), &d));
                    }
                    let mut before = c10::payloads(&text0, &dir);
                    for k in &created {
                        before.push(format!("ref→{}", k));
                    }
                    if sorted(after.clone()) != sorted(before.clone()) {
                        if D10_OPEN.load(Ordering::Relaxed) && (text0.contains("\n----") || text0.contains("\n|")) && after.len() + 2 >= before.len() {
                            continue;
                        }
                        return Some(format!("{} at line {}: content not conserved across source and new notes: {}", kind, line, multiset_diff(&before, &after)));
                    }
                    // headings of the new note start at level 1
                    for k in &created {
                        let t = l1.get(*k).cloned().unwrap_or_default();
                        if !t.starts_with("# ") {
                            return Some(format!("{} at line {}: the new note does not start with a top-level heading: {:?}", kind, line, cut(&t)));
                        }
                    }
                    // extract the first sub-section and inline it again: the formatted original comes back
                    if kind == EXTRACT {
                        let new_key = created[0];
                        let src1 = l1.get(key).cloned().unwrap_or_default();
                        let ref_line = src1.lines().position(|l| l.contains(&format!("]({}", md::rel_url(new_key, &dir))) && l.starts_with('['));
                        if let Some(rl) = ref_line {
                            if is_first_subsection(&text0, line as usize) {
                                let server1 = act::server(&l1, ext, false);
                                if let Ok(a1) = act::actions_at_guarded(&server1, &l1, key, rl as u32) {
                                    if let Some((_, _, Ok(ch1))) = a1.iter().find(|a| a.0 == INLINE_SECTION) {
                                        let l2 = act::apply(&l1, ch1);
                                        if l2.contains_key(new_key) {
                                            return Some(format!("inline at line {}: the inlined note {:?} is not deleted", rl, new_key));
                                        }
                                        let text2 = l2.get(key).cloned().unwrap_or_default();
                                        if text2 != text0 {
                                            return Some(format!("{} at line {} then inline section at line {}: does not restore the note: {}", kind, line, rl, crate::props::c02::first_line_diff(&text0, &text2)));
                                        }
                                    }
                                }
                            }
                        }
                    }
                }
                INLINE_SECTION | INLINE_QUOTE => {
                    let removed: Vec<&String> = changes.iter().filter_map(|c| if let Change::Remove(k) = c { Some(k) } else { None }).collect();
                    if removed.len() != 1 {
                        return Some(format!("{} at line {}: {} notes removed", kind, line, removed.len()));
                    }
                    let target = removed[0];
                    let Some(target_text) = l0.get(target) else { continue };
                    if target == key {
                        continue; // a note inlined into itself is deleted by its own edit: outside the statement
                    }
                    let tdir = crate::oracle::md::dir_of(target);
                    let mut before = c10::payloads(&text0, &dir);
                    let refp = format!("ref→{}", target);
                    if let Some(i) = before.iter().position(|p| p == &refp) {
                        before.remove(i);
                    }
                    // a piped wiki reference carries its own text, which goes away with the reference
                    if let Some(l) = md::read(&text0, &dir).links.iter().find(|l| l.line == line as usize && l.block_level && l.kind == "wikiPiped") {
                        for w in l.text.replace(crate::oracle::md::MARKUP, "").split_whitespace() {
                            if let Some(i) = before.iter().position(|p| p == w) {
                                before.remove(i);
                            }
                        }
                    }
                    // block references of the inlined note are re-written relative to the new place: compare resolved keys
                    before.extend(c10::payloads(target_text, &tdir));
                    let after = c10::payloads(l1.get(key).map(|s| s.as_str()).unwrap_or(""), &dir);
                    if sorted(after.clone()) != sorted(before.clone()) {
                        let has_rule_or_table = |t: &str| t.contains("----") || t.starts_with('|') || t.contains("\n|") || t.contains("> |") || t.contains("  |");
                        // finding D10 also glues two quotes that follow each other inside a tight list item: "Inline quote" on a
                        // reference whose neighbour block is a quote produces exactly that
                        let neighbour_is_quote = {
                            let lines: Vec<&str> = text0.lines().collect();
                            let l = line as usize;
                            let next = lines.iter().skip(l + 1).find(|x| !x.trim().is_empty());
                            let prev = lines.iter().take(l).rev().find(|x| !x.trim().is_empty());
                            kind == INLINE_QUOTE && lines.get(l).map(|x| x.starts_with(' ')).unwrap_or(false) && (next.map(|x| x.trim_start().starts_with('>')).unwrap_or(false) || prev.map(|x| x.trim_start().starts_with('>')).unwrap_or(false))
                        };
                        if D10_OPEN.load(Ordering::Relaxed) && (has_rule_or_table(target_text) || has_rule_or_table(&text0) || neighbour_is_quote) {
                            continue;
                        }
                        return Some(format!("{} at line {} (target {:?}): content not conserved: {}", kind, line, target, multiset_diff(&before, &after)));
                    }
                }
                _ => {}
            }
        }
    }
    None
}

/// the section at `line` is the first sub-section of its parent section (nearest previous heading is its parent)
fn is_first_subsection(text: &str, line: usize) -> bool {
    let lines: Vec<&str> = text.lines().collect();
    let lv = |l: &str| {
        let n = l.chars().take_while(|c| *c == '#').count();
        if n > 0 && l.chars().nth(n) == Some(' ') { n } else { 0 }
    };
    let level = lv(lines.get(line).cloned().unwrap_or(""));
    let mut prev = 0;
    let mut in_code = false;
    for l in &lines[..line.min(lines.len())] {
        if l.starts_with("```") {
            in_code = !in_code;
        }
        if !in_code && lv(l) > 0 {
            prev = lv(l);
        }
    }
    level > 1 && prev == level - 1
}

pub fn run(ctx: &Ctx, model: &mut Model, rep: &mut Report) {
    rep.rule = "libraries (root and sub-directory notes, sections at every depth, block references incl. dangling, to the note itself and outside any section); the formatted library is the start; every line at which extract-section, extract-sub-sections, inline-as-section or inline-as-quote is offered; correspondence (sequential test keys): offered actions, target node and all resulting edits model vs implementation; oracle (random production keys): new keys fresh and distinct, only source and new/inlined notes touched, atom multiset conserved across the edited notes with exactly one reference per extracted section, new note starts at level 1, inlined note deleted, extract-first-sub-section then inline restores the note byte for byte; non-trivial = some action offered; distinct by text".to_string();
    let parse_lib = |v: &serde_json::Value| -> Vec<(String, String)> { v.as_array().map(|a| a.iter().map(|p| (p[0].as_str().unwrap().to_string(), p[1].as_str().unwrap().to_string())).collect()).unwrap_or_default() };
    D28_OPEN.store(known::is_open(ctx, "C09", "D28"), Ordering::Relaxed);
    D10_OPEN.store(known::is_open(ctx, "C09", "D10"), Ordering::Relaxed);
    if let Some(path) = &ctx.replay {
        let v: serde_json::Value = serde_json::from_str(&std::fs::read_to_string(path).unwrap()).unwrap();
        let lib = parse_lib(&v["library"]);
        rep.evaluations += 1;
        D28_OPEN.store(false, Ordering::Relaxed);
        D10_OPEN.store(false, Ordering::Relaxed);
        if let Some(l0) = act::formatted(&lib, v["ext"].as_str().unwrap_or("")) {
            if let Some(what) = act::with_via(act::via_from(&v["via"]), || check_note(&l0, v["ext"].as_str().unwrap_or(""), v["key"].as_str().unwrap_or("a"))) {
                rep.fail(json!({"kind": "extract_inline", "library": lib, "ext": v["ext"], "key": v["key"], "via": v["via"], "what": what}));
            }
        }
        return;
    }
    for f in known::open(ctx, "C09") {
        let lib = parse_lib(&f.witness["library"]);
        rep.evaluations += 1;
        let (d28, d10) = (D28_OPEN.load(Ordering::Relaxed), D10_OPEN.load(Ordering::Relaxed));
        D28_OPEN.store(false, Ordering::Relaxed);
        D10_OPEN.store(false, Ordering::Relaxed);
        let r = if f.id == "D20" { check_sequential_keys(&lib) } else { act::formatted(&lib, "").and_then(|l0| check_note(&l0, "", f.witness["key"].as_str().unwrap_or("a"))) };
        D28_OPEN.store(d28, Ordering::Relaxed);
        D10_OPEN.store(d10, Ordering::Relaxed);
        match r {
            Some(what) => rep.known_findings.push(json!({"id": f.id, "what": format!("{} — witness still fails: {}", f.what, cut(&what))})),
            None => rep.resolved_findings.push(json!({"id": f.id, "what": f.what})),
        }
    }
    let n = if ctx.thorough { 1500 } else { 120 };
    for i in 0..n {
        let mut r = Rng::for_case(ctx.seed ^ 0xC09, i as u64);
        let mut lib = c10::gen_note_library(&mut r);
        // references to the other notes, to a missing note, to the note itself, before any heading
        let main = if lib[2].1.len() > lib[0].1.len() { 2 } else { 0 };
        let dir = crate::oracle::md::dir_of(&lib[main].0);
        let rel = |k: &str| md::rel_url(k, &dir);
        match r.below(7) {
            0 => lib[main].1 = format!("[top]({})\n\n{}", rel("b"), lib[main].1),
            1 => {
                let me = lib[main].0.clone();
                let add = format!("\n## tail\n\n[gone]({})\n\n[self]({})\n", rel("missing"), rel(&me));
                lib[main].1.push_str(&add)
            }
            2 => lib[main].1.push_str(&format!("\n# more\n\n[b]({})\n\n## sub one\n\ntext one\n\n## sub two\n\ntext two\n", rel("b"))),
            3 | 4 => {
                // a reference to a note in the other directory which itself refers to notes of both directories:
                // inlining it has to re-write those references relative to the host
                let (target, near, far) = if main == 0 { (3, "d/x", "b") } else { (1, "a", "d/y") };
                let tdir = crate::oracle::md::dir_of(&lib[target].0);
                let trel = |k: &str| md::rel_url(k, &tdir);
                let add = format!("\n## refs\n\n[near]({})\n\n[far]({})\n", trel(near), trel(far));
                lib[target].1.push_str(&add);
                let t = lib[target].0.clone();
                let host = format!("\n# inlined\n\n[moved]({})\n", rel(&t));
                lib[main].1.push_str(&host);
            }
            _ => {}
        }
        let ext = if i % 3 == 0 { ".md" } else { "" };
        let Some(l0) = act::formatted(&lib, ext) else { continue };
        let key = lib[main].0.clone();
        let server = act::server(&l0, ext, true);
        let nlines = l0[&key].lines().count() as u32;
        let mut offered_any = false;
        for line in 0..nlines {
            let real = act::actions_at_guarded(&server, &l0, &key, line);
            if let Ok(a) = &real {
                for (k, _, res) in a {
                    if [EXTRACT, EXTRACT_SUBS, INLINE_SECTION, INLINE_QUOTE].contains(&k.as_str()) {
                        rep.count(&format!("offered_{}", k.rsplit('.').next().unwrap_or("")));
                        if res.is_err() {
                            rep.count("resolve_panics_or_skipped");
                        }
                        offered_any = true;
                    }
                }
            }
            if ctx.thorough || line % 3 == 0 {
                // a self reference is never resolved in-process (D25): leave it out of the comparison
                if act::is_self_reference(&l0, &key, line) {
                    continue;
                }
                match c10::compare_actions(model, &l0, ext, &key, line, &[EXTRACT, EXTRACT_SUBS, INLINE_SECTION, INLINE_QUOTE], &real) {
                    None => rep.count("corr_skipped_unmodelled"),
                    Some(Ok(())) => rep.correspondence_cases += 1,
                    Some(Err(e)) => {
                        rep.correspondence_cases += 1;
                        rep.disagree(json!({"op": format!("code actions at {}:{}", key, line), "what": e, "library": l0, "ext": ext}));
                    }
                }
            }
        }
        rep.case(&format!("{:?}", l0), offered_any);
        if i < 1 {
            rep.sample(json!({"library": l0, "ext": ext, "key": key}));
        }
        let via = act::via_for(i as u64);
        rep.count(&format!("loaded_via_{:?}", via));
        if let Some(what) = act::with_via(via, || check_note(&l0, ext, &key)) {
            rep.fail(json!({"kind": "extract_inline", "library": lib, "ext": ext, "key": key, "via": format!("{:?}", via), "what": what}));
        }
    }
    let _ = dump::catch(|| ());
}

/// finding D20: in `sequential_ids` (test) mode, "Extract sub-sections" draws the same new key for every sub-section
fn check_sequential_keys(lib: &[(String, String)]) -> Option<String> {
    let l0 = act::formatted(lib, "")?;
    let key = lib[0].0.clone();
    let server = act::server(&l0, "", true);
    for line in 0..l0[&key].lines().count() as u32 {
        if let Ok(a) = act::actions_at(&server, &key, line) {
            if let Some((_, _, Ok(ch))) = a.iter().find(|x| x.0 == EXTRACT_SUBS) {
                let created: Vec<&String> = ch.iter().filter_map(|c| if let Change::Create(k) = c { Some(k) } else { None }).collect();
                let mut u = created.clone();
                u.sort();
                u.dedup();
                if u.len() != created.len() {
                    return Some(format!("sequential keys: {:?} created for {} sub-sections", created, created.len()));
                }
            }
        }
    }
    None
}
