//! C02 — normalisation is a fixpoint: formatting twice equals formatting once.
use crate::dump;
use crate::gen;
use crate::hist::{self, History};
use crate::known;
use crate::props::c01;
use crate::sexp::*;
use crate::{model::Model, report::Report, rng::Rng, Ctx};
use liwe::graph::Graph;
use liwe::model::config::MarkdownOptions;
use liwe::model::document::LinkType;
use liwe::model::graph::{blocks_to_markdown_sparce, GraphBlock, GraphInline};
use liwe::model::node::ColumnAlignment;
use liwe::model::Key;
use lsp_types::{DidChangeTextDocumentParams, DocumentFormattingParams, FormattingOptions, TextDocumentContentChangeEvent, TextDocumentIdentifier, VersionedTextDocumentIdentifier};
use serde_json::json;
use std::collections::HashMap;

pub fn check_doc(key: &str, text: &str) -> Option<String> {
    for ext in ["", ".md"] {
        let once = c01::format_single(key, text, ext).ok()?;
        let twice = match c01::format_single(key, &once, ext) {
            Ok(t) => t,
            Err(e) => return Some(format!("formatting the formatted text panics: {} — formatted once: {:?}", e, cut(&once))),
        };
        if once != twice {
            return Some(format!("ext {:?}: format∘format ≠ format: {}", ext, first_line_diff(&once, &twice)));
        }
        // single-key update of the same graph with its own output
        let r = dump::catch(|| {
            let mut st = HashMap::new();
            st.insert(key.to_string(), text.to_string());
            let mut g = Graph::import(&st, MarkdownOptions { refs_extension: ext.to_string() });
            let y = g.to_markdown(&Key::from_file_name(key));
            g.update_key(Key::from_file_name(key), &y);
            (y, g.to_markdown(&Key::from_file_name(key)))
        });
        if let Ok((y, z)) = r {
            if y != z {
                return Some(format!("ext {:?}: update_key with the formatted text changes it: {}", ext, first_line_diff(&y, &z)));
            }
        }
        // LSP: format, send the result as didChange, format again
        let r = dump::catch(|| {
            let mut st = HashMap::new();
            st.insert(key.to_string(), text.to_string());
            let mut server = c01::server_for(&st, ext);
            let fmt = |s: &iwes::router::server::Server| {
                s.handle_document_formatting(DocumentFormattingParams {
                    text_document: TextDocumentIdentifier { uri: c01::uri_for(key) },
                    options: FormattingOptions::default(),
                    work_done_progress_params: Default::default(),
                })[0]
                    .new_text
                    .clone()
            };
            let y = fmt(&server);
            server.handle_did_change_text_document(DidChangeTextDocumentParams {
                text_document: VersionedTextDocumentIdentifier { uri: c01::uri_for(key), version: 2 },
                content_changes: vec![TextDocumentContentChangeEvent { range: None, range_length: None, text: y.clone() }],
            });
            (y, fmt(&server))
        });
        if let Ok((y, z)) = r {
            if y != z {
                return Some(format!("ext {:?}: LSP format-on-save does not converge after one save: {}", ext, first_line_diff(&y, &z)));
            }
        }
    }
    None
}

fn cut(s: &str) -> String {
    s.chars().take(300).collect()
}

pub fn first_line_diff(a: &str, b: &str) -> String {
    let (la, lb): (Vec<&str>, Vec<&str>) = (a.lines().collect(), b.lines().collect());
    for i in 0..la.len().max(lb.len()) {
        if la.get(i) != lb.get(i) {
            let ctx = |l: &Vec<&str>| l[i.saturating_sub(2)..(i + 2).min(l.len())].join("\\n");
            return format!("line {}: first pass {:?}, second pass {:?}; around: first {:?} second {:?}", i, la.get(i), lb.get(i), ctx(&la), ctx(&lb));
        }
    }
    "texts differ in trailing newlines".to_string()
}

pub fn check_library(lib: &[(String, String)], ext: &str) -> Option<String> {
    let st: HashMap<String, String> = lib.iter().cloned().collect();
    let opts = MarkdownOptions { refs_extension: ext.to_string() };
    let once = dump::catch(|| Graph::import(&st, opts.clone()).export()).ok()?;
    let twice = dump::catch(|| Graph::import(&once, opts.clone()).export()).ok()?;
    let mut keys: Vec<&String> = once.keys().collect();
    keys.sort();
    for k in keys {
        if once.get(k) != twice.get(k) {
            return Some(format!("note {:?}: `iwe normalize` run twice changes it the second time: {}", k, first_line_diff(&once[k], twice.get(k).map(|s| s.as_str()).unwrap_or(""))));
        }
    }
    None
}

// ---------- rendered blocks generated directly (renderer exercised beyond what the parser produces) ----------
fn gen_inlines(r: &mut Rng) -> Vec<GraphInline> {
    (0..r.range(1, 3))
        .map(|_| match r.below(6) {
            0 => GraphInline::Emph(vec![GraphInline::Str(r.pick(&["a", "bc"]).to_string())]),
            1 => GraphInline::Code(None, "co de".into()),
            2 => GraphInline::Link(r.pick(&["k", "d/k", "https://x.y"]).to_string(), String::new(), *r.pick(&[LinkType::Regular, LinkType::WikiLink, LinkType::WikiLinkPiped]), vec![GraphInline::Str("t".into())]),
            3 => GraphInline::Strong(vec![GraphInline::Str("s".into())]),
            _ => GraphInline::Str(r.pick(&["word", "two words", "ü", "x "]).to_string()),
        })
        .collect()
}
fn gen_block(r: &mut Rng, depth: usize) -> GraphBlock {
    match r.below(if depth > 2 { 5 } else { 9 }) {
        0 => GraphBlock::Para(gen_inlines(r)),
        1 => GraphBlock::Plain(gen_inlines(r)),
        2 => GraphBlock::Header(r.range(1, 7) as u8, gen_inlines(r)),
        3 => GraphBlock::CodeBlock(if r.chance(1, 2) { Some(r.pick(&["rs", " ", ""]).to_string()) } else { None }, r.pick(&["x", "\nx\n\n", "a\n  b", ""]).to_string()),
        4 => GraphBlock::HorizontalRule,
        5 => GraphBlock::BlockQuote((0..r.range(0, 2)).map(|_| gen_block(r, depth + 1)).collect()),
        6 => GraphBlock::BulletList((0..r.range(0, 3)).map(|_| (0..r.range(0, 3)).map(|_| gen_block(r, depth + 1)).collect()).collect()),
        7 => GraphBlock::OrderedList((0..if r.chance(1, 5) { 11 } else if depth == 0 && r.chance(1, 10) { r.range(100, 102) } else { r.range(1, 3) }).map(|_| (0..r.range(1, 2)).map(|_| gen_block(r, depth + 1)).collect()).collect()),
        _ => GraphBlock::Table(
            vec![vec![GraphInline::Str("h1".into())], vec![GraphInline::Str(r.pick(&["h", "", "long head"]).to_string())]],
            vec![*r.pick(&[ColumnAlignment::None, ColumnAlignment::Left, ColumnAlignment::Center, ColumnAlignment::Right]), ColumnAlignment::None],
            (0..r.range(0, 2)).map(|_| vec![vec![GraphInline::Str("c".into())], vec![GraphInline::Str("d e".into())]]).collect(),
        ),
    }
}
fn gblock_s(b: &GraphBlock) -> String {
    let items = |its: &Vec<Vec<GraphBlock>>| its.iter().map(|it| format!(" (item{})", it.iter().map(|b| format!(" {}", gblock_s(b))).collect::<String>())).collect::<String>();
    match b {
        GraphBlock::Plain(x) => format!("(plain {})", dump::gil(x)),
        GraphBlock::Para(x) => format!("(para {})", dump::gil(x)),
        GraphBlock::CodeBlock(l, t) => format!("(code {} {})", opt(l.as_ref().map(|l| hex(l))), hex(t)),
        GraphBlock::BlockQuote(bs) => format!("(quote{})", bs.iter().map(|b| format!(" {}", gblock_s(b))).collect::<String>()),
        GraphBlock::OrderedList(its) => format!("(olist{})", items(its)),
        GraphBlock::BulletList(its) => format!("(blist{})", items(its)),
        GraphBlock::Header(l, x) => format!("(header {} {})", l, dump::gil(x)),
        GraphBlock::HorizontalRule => "rule".to_string(),
        GraphBlock::Table(h, a, rows) => format!(
            "(table (head{}) (align{}) (rows{}))",
            h.iter().map(|c| format!(" {}", dump::gil(c))).collect::<String>(),
            a.iter().map(|a| format!(" {}", dump::align(a))).collect::<String>(),
            rows.iter().map(|r| format!(" (row{})", r.iter().map(|c| format!(" {}", dump::gil(c))).collect::<String>())).collect::<String>()
        ),
        _ => "rule".to_string(),
    }
}

pub fn run(ctx: &Ctx, model: &mut Model, rep: &mut Report) {
    rep.rule = "type-directed documents in the well-formedness class (as C01) and libraries; correspondence: byte-exact formatted text model vs implementation, plus rendered-block values generated directly (all block kinds, empty lists/quotes, >9 items, odd code bodies, tables with every alignment) through blocks_to_markdown_sparce; oracle: format(format(x)) = format(x) byte for byte via import, update_key with own output, LSP formatting after didChange(previous result), both refs_extension settings, and `normalize` twice on libraries; non-trivial = ≥2 blocks; distinct by text".to_string();
    if let Some(path) = &ctx.replay {
        let v: serde_json::Value = serde_json::from_str(&std::fs::read_to_string(path).unwrap()).unwrap();
        rep.evaluations += 1;
        if let Some(what) = check_doc(v["key"].as_str().unwrap_or("a"), v["text"].as_str().unwrap_or("")) {
            rep.fail(json!({"kind": "fixpoint", "key": v["key"], "text": v["text"], "what": what}));
        }
        return;
    }
    for f in known::open(ctx, "C02") {
        let (k, t) = (f.witness["key"].as_str().unwrap_or("a").to_string(), f.witness["text"].as_str().unwrap_or("").to_string());
        rep.evaluations += 1;
        match check_doc(&k, &t) {
            Some(what) => rep.known_findings.push(json!({"id": f.id, "what": format!("{} — witness still fails: {}", f.what, cut(&what))})),
            None => rep.resolved_findings.push(json!({"id": f.id, "what": f.what})),
        }
    }
    for f in known::load(ctx, "C02").into_iter().filter(|f| f.status == "fixed") {
        let (k, t) = (f.witness["key"].as_str().unwrap_or("a").to_string(), f.witness["text"].as_str().unwrap_or("").to_string());
        rep.evaluations += 1;
        rep.count("corpus_fixed_witnesses");
        if let Some(what) = check_doc(&k, &t) {
            rep.fail(json!({"kind": "fixpoint", "key": k, "text": t, "what": format!("regression of repaired defect {}: {}", f.id, what)}));
        }
    }
    let keys: Vec<String> = hist::KEY_POOL.iter().map(|s| s.to_string()).collect();
    let n = if ctx.thorough { 12000 } else { 800 };
    for i in 0..n {
        let mut r = Rng::for_case(ctx.seed ^ 0xC02, i as u64);
        let key = r.pick(&keys[..]).clone();
        let mut p = hist::profile_for(&keys, &key, true);
        // odd cases (oracle only, the correspondence takes the even ones): table cells with inline markup
        p.table_markup = i % 2 == 1;
        let text = if i % 97 == 5 || i % 97 == 6 { gen::long_ordered_list(&mut r) } else { gen::document(&mut r, &p) };
        rep.case(&text, text.split("\n\n").count() >= 2);
        if i < 2 {
            rep.sample(json!({"key": key, "text": text}));
        }
        if ctx.thorough || i % 2 == 0 {
            let ext = if i % 4 == 0 { "" } else { ".md" };
            let h = History { ext: ext.into(), import: vec![(key.clone(), text.clone())], steps: vec![] };
            if let Some(reply) = hist::model_reply_parts(model, &h, &["md"]) {
                match (hist::model_md(&reply, 0).first().cloned(), c01::format_single(&key, &text, ext)) {
                    (Some((_, Ok(mt))), Ok(rt)) => {
                        rep.correspondence_cases += 1;
                        if mt != rt {
                            rep.disagree(json!({"op": "format (bytes)", "key": key, "text": text, "diff": first_line_diff(&mt, &rt)}));
                        }
                    }
                    (Some((_, Err(e))), Ok(_)) if e.contains("unmodelled") => rep.count("corr_skipped_unmodelled"),
                    (Some((_, Err(e))), Ok(_)) => rep.disagree(json!({"op": "format (outcome)", "key": key, "text": text, "model": e})),
                    (Some((_, Ok(_))), Err(e)) => rep.disagree(json!({"op": "format (outcome)", "key": key, "text": text, "impl": format!("panic {}", e)})),
                    _ => rep.count("corr_both_fail_or_no_reply"),
                }
            }
        }
        if let Some(what) = check_doc(&key, &text) {
            rep.fail(json!({"kind": "fixpoint", "key": key, "text": text, "what": what}));
        }
    }
    // rendered blocks generated directly
    for i in 0..(if ctx.thorough { 20000 } else { 1500 }) {
        let mut r = Rng::for_case(ctx.seed ^ 0xC02B, i as u64);
        let bs: Vec<GraphBlock> = (0..r.range(1, 4)).map(|_| gen_block(&mut r, 0)).collect();
        let ext = if i % 2 == 0 { "" } else { ".md" };
        let real = dump::catch(|| blocks_to_markdown_sparce(&bs, &MarkdownOptions { refs_extension: ext.to_string() }));
        let reply = model.call(&format!("(render.blocks {}{})", hex(ext), bs.iter().map(|b| format!(" {}", gblock_s(b))).collect::<String>()));
        rep.correspondence_cases += 1;
        rep.case(&reply, true);
        match (unhex(&reply), real) {
            (Some(m), Ok(rt)) => {
                if m != rt {
                    rep.disagree(json!({"op": "blocks_to_markdown_sparce", "blocks": format!("{:?}", bs), "diff": first_line_diff(&m, &rt), "model": m, "impl": rt}));
                }
            }
            (None, Ok(rt)) => {
                if reply.contains("unmodelled") {
                    rep.count("render_skipped_unmodelled");
                } else {
                    rep.disagree(json!({"op": "blocks_to_markdown_sparce", "blocks": format!("{:?}", bs), "model": reply, "impl": rt}));
                }
            }
            (Some(_), Err(e)) => rep.disagree(json!({"op": "blocks_to_markdown_sparce", "blocks": format!("{:?}", bs), "impl": format!("panic {}", e)})),
            _ => {}
        }
    }
    // libraries: normalize twice
    for i in 0..(if ctx.thorough { 1500 } else { 100 }) {
        let mut r = Rng::for_case(ctx.seed ^ 0xC02C, i as u64);
        let h = hist::gen_history(&mut r, true, 0);
        rep.case(&format!("{:?}", h.import), h.import.len() >= 2);
        if let Some(what) = check_library(&h.import, &h.ext) {
            rep.fail(json!({"kind": "fixpoint_library", "library": h.import, "ext": h.ext, "what": what}));
        }
    }
}
