//! C15 — relative links written by iwe resolve back to the note they were written for.
use crate::{model::Model, report::Report, rng::Rng, sexp::*, Ctx};
use liwe::graph::Graph;
use liwe::model::config::MarkdownOptions;
use liwe::model::{is_ref_url, Key};
use serde_json::json;
use std::collections::HashMap;

fn strings_up_to(alphabet: &[&str], depth: usize) -> Vec<String> {
    let mut all = vec![String::new()];
    let mut layer = vec![String::new()];
    for _ in 0..depth {
        let mut next = vec![];
        for p in &layer {
            for a in alphabet {
                let s = if p.is_empty() { a.to_string() } else { format!("{}/{}", p, a) };
                next.push(s);
            }
        }
        all.extend(next.iter().cloned());
        layer = next;
    }
    all
}

fn catch<T>(f: impl FnOnce() -> T + std::panic::UnwindSafe) -> Result<T, String> {
    std::panic::catch_unwind(f).map_err(|e| {
        if let Some(s) = e.downcast_ref::<&str>() {
            s.to_string()
        } else if let Some(s) = e.downcast_ref::<String>() {
            s.clone()
        } else {
            "panic".to_string()
        }
    })
}

/// the property itself, on the implementation
fn round_trip(k: &str, d: &str) -> Result<(), String> {
    let key = Key::from_file_name(k);
    let link = key.to_rel_link_url(d);
    let back = Key::from_rel_link_url(&link, d);
    if back.to_string() != k {
        return Err(format!("link {:?} written for key {:?} from {:?} resolves to {:?}", link, k, d, back.to_string()));
    }
    let back_md = Key::from_rel_link_url(&format!("{}.md", link), d);
    if back_md.to_string() != k {
        return Err(format!("link {:?}.md written for key {:?} from {:?} resolves to {:?}", link, k, d, back_md.to_string()));
    }
    Ok(())
}

/// a block reference in note `d/n` to key `k` survives export with its target
/// a block reference of the given form (regular / wiki / piped wiki) to note `k` in a note of directory `d`:
/// after export (formatting) the note still holds exactly one block reference and it resolves to `k`.
/// The input url comes from the oracle's own `rel_url`, the output is read with the oracle's own reader.
fn export_keeps_target(k: &str, d: &str, ext: &str, form: &str, container: &str) -> Result<(), String> {
    use crate::oracle::md;
    let src_key = if d.is_empty() { "n".to_string() } else { format!("{}/n", d) };
    if src_key == k {
        return Ok(());
    }
    let link = md::rel_url(k, d);
    let line = match form {
        "wiki" => format!("[[{}]]", link),
        "wikiPiped" => format!("[[{}|t]]", link),
        _ => format!("[t]({})", link),
    };
    let mut state: HashMap<String, String> = HashMap::new();
    // where the reference stands: at the top level, in a quote, in a quote inside a quote, as second block of a list item
    let body = match container {
        "quote" => format!("> {}\n", line),
        "quote2" => format!("> > {}\n", line),
        "item" => format!("- item\n\n  {}\n", line),
        _ => format!("{}\n", line),
    };
    state.insert(src_key.clone(), format!("# src\n\n{}", body));
    // the target's title: a word of its own, or (regular references) the file name itself, so that the refreshed
    // link text equals the url written from the same directory
    let title = if form == "regular" && (k.len() + d.len()) % 2 == 0 { k.rsplit('/').next().unwrap_or(k).to_string() } else { "target".to_string() };
    state.insert(k.to_string(), format!("# {}\n", title));
    let graph = Graph::import(&state, MarkdownOptions { refs_extension: ext.to_string() });
    let out = graph.to_markdown(&Key::from_file_name(&src_key));
    let links: Vec<_> = md::read(&out, d).links.into_iter().filter(|l| l.block_level || container != "top").collect();
    if links.len() != 1 {
        return Err(format!("note {:?}: {} written for {:?}: the export {:?} holds {} block references", src_key, line, k, out, links.len()));
    }
    let back = md::resolve(&links[0].dest, d);
    if back != k {
        return Err(format!("note {:?}: reference {} written as {:?} resolves to {:?}, not {:?} (export {:?})", src_key, line, links[0].dest, back, k, out));
    }
    if form == "regular" && !out.contains(&format!("[{}](", title)) {
        return Err(format!("note {:?}: reference to {:?} lost its target's title (export {:?})", src_key, k, out));
    }
    // formatting again changes nothing
    let mut st2 = state.clone();
    st2.insert(src_key.clone(), out.clone());
    let again = Graph::import(&st2, MarkdownOptions { refs_extension: ext.to_string() }).to_markdown(&Key::from_file_name(&src_key));
    if again != out {
        return Err(format!("note {:?}: a second export differs: {:?} then {:?}", src_key, out, again));
    }
    Ok(())
}

pub fn run(ctx: &Ctx, model: &mut Model, rep: &mut Report) {
    let thorough = ctx.thorough;
    rep.rule = "model-vs-impl: every pair (url/key string, directory string) over a component alphabet incl. '.', '..', empty pieces and '.md' names, up to the tier's depth, for from_rel_link_url, to_rel_link_url, parent, from_file_name, is_ref_url; oracle: resolve(relative(K,D),D)=K on normal paths (exhaustive small scope + random deep/unicode pairs) and through Graph export of a block reference in each form (regular, wiki, piped wiki; written with the oracle's own relative-url function, re-read with the oracle's own reader; key = directory and prefix-named directories included); non-trivial = pair with K≠'' or D≠''; distinct by text".to_string();

    if let Some(path) = &ctx.replay {
        let v: serde_json::Value = serde_json::from_str(&std::fs::read_to_string(path).unwrap()).unwrap();
        if let Some(r) = crate::cli::replay(&v) {
            rep.evaluations += 1;
            if let Some(w) = r {
                let mut f = v.clone();
                f["what"] = json!(w);
                rep.fail(f);
            }
            return;
        }
        let g = |f: &str| v[f].as_str().unwrap_or("").to_string();
        let single = match v["kind"].as_str() {
            Some("round_trip") => Some(round_trip(&g("key"), &g("dir"))),
            Some("export_reference") => Some(catch(|| { let c = g("container"); export_keeps_target(&g("key"), &g("dir"), &g("ext"), &g("form"), if c.is_empty() { "top" } else { &c }) }).unwrap_or_else(|p| Err(format!("panic: {}", p)))),
            _ => None,
        };
        if let Some(r) = single {
            rep.evaluations += 1;
            if let Err(e) = r {
                rep.fail(json!({"kind": v["kind"], "key": v["key"], "dir": v["dir"], "ext": v["ext"], "form": v["form"], "what": e}));
            }
            return;
        }
        // other kinds: the whole (deterministic) run is the replay
    }
    // ---------- correspondence: exhaustive small scope ----------
    let alpha = ["a", "b", "a.md", "..", ".", ""];
    let depth = if thorough { 3 } else { 2 };
    let ks = strings_up_to(&alpha, depth);
    let ds = strings_up_to(&["a", "b", "..", ".", ""], depth);
    let mut reqs = vec![];
    let mut impls = vec![];
    let mut labels = vec![];
    for k in &ks {
        reqs.push(call("key.parent", &[hex(k)]));
        impls.push(catch(|| Key::from_file_name(k).parent()).unwrap_or_else(|e| format!("PANIC {}", e)));
        // Key::parent is called on keys (already trimmed); compare on the trimmed string
        let trimmed = Key::from_file_name(k).to_string();
        *reqs.last_mut().unwrap() = call("key.parent", &[hex(&trimmed)]);
        labels.push(format!("parent({:?})", trimmed));
        reqs.push(call("key.fromFileName", &[hex(k)]));
        impls.push(Key::from_file_name(k).to_string());
        labels.push(format!("from_file_name({:?})", k));
        for d in &ds {
            reqs.push(call("key.fromRel", &[hex(k), hex(d)]));
            impls.push(catch(|| Key::from_rel_link_url(k, d).to_string()).unwrap_or_else(|e| format!("PANIC {}", e)));
            labels.push(format!("from_rel_link_url({:?},{:?})", k, d));
            let trimmed = Key::from_file_name(k);
            reqs.push(call("key.toRel", &[hex(&trimmed.to_string()), hex(d)]));
            impls.push(catch(|| trimmed.to_rel_link_url(d)).unwrap_or_else(|e| format!("PANIC {}", e)));
            labels.push(format!("to_rel_link_url({:?},{:?})", trimmed.to_string(), d));
        }
    }
    // is_ref_url
    for u in [
        "http://x", "HTTP://x", "https://x", "hTTps://x", "mailto:x", "MAILTO:x", "ftp://x", "httpx://", "http:/x", "a", "",
        "mail", "../http://x", "http", "https:/", "Http://é", "\u{212A}http://", "ma\u{130}lto:x", "x/y.md", "#frag",
        "日本語のノート", "заметка", "abcde日本語", "abcdef日本語", "abcdefg日本語", "é", "éééé", "ééééé", "ht日本tp://x", "mailto\u{ff1a}x", "😀😀", "a😀😀b", "https://日本.jp/パス", "HTTPS://ÀÉ",
    ] {
        reqs.push(call("isRefUrl", &[hex(u)]));
        impls.push(catch(|| if is_ref_url(u) { "true".to_string() } else { "false".to_string() }).unwrap_or_else(|e| format!("PANIC {}", e)));
        labels.push(format!("is_ref_url({:?})", u));
    }
    // random deep / unicode
    let names = ["a", "b", "c", "x.y", "ü", "日本", "n.md", "..", ".", "a b", "%41"];
    let n_random = if thorough { 20000 } else { 2000 };
    for i in 0..n_random {
        let mut r = Rng::for_case(ctx.seed, i as u64);
        let k: Vec<&str> = (0..r.range(0, 6)).map(|_| *r.pick(&names)).collect();
        let d: Vec<&str> = (0..r.range(0, 6)).map(|_| *r.pick(&names)).collect();
        let sep = if r.chance(1, 10) { "//" } else { "/" };
        let (k, d) = (k.join(sep), d.join("/"));
        reqs.push(call("key.fromRel", &[hex(&k), hex(&d)]));
        impls.push(catch(|| Key::from_rel_link_url(&k, &d).to_string()).unwrap_or_else(|e| format!("PANIC {}", e)));
        labels.push(format!("from_rel_link_url({:?},{:?})", k, d));
        let trimmed = Key::from_file_name(&k);
        reqs.push(call("key.toRel", &[hex(&trimmed.to_string()), hex(&d)]));
        impls.push(catch(|| trimmed.to_rel_link_url(&d)).unwrap_or_else(|e| format!("PANIC {}", e)));
        labels.push(format!("to_rel_link_url({:?},{:?})", trimmed.to_string(), d));
    }
    let replies = model.call_many(&reqs);
    rep.correspondence_cases = reqs.len() as u64;
    for ((reply, imp), label) in replies.iter().zip(&impls).zip(&labels) {
        let m = unhex(reply).unwrap_or_else(|| reply.clone());
        rep.case(label, !label.contains("(\"\",\"\")"));
        if &m != imp {
            rep.disagree(json!({"op": label, "model": m, "impl": imp}));
        }
    }
    rep.count_n("corr_pairs_exhaustive", (ks.len() * ds.len()) as u64);
    rep.count_n("corr_random_pairs", n_random as u64);

    // repaired defects: their witnesses run as ordinary corpus cases
    for f in crate::known::load(ctx, "C15").into_iter().filter(|f| f.status == "fixed") {
        if let (Some(k), Some(d)) = (f.witness["key"].as_str(), f.witness["dir"].as_str()) {
            rep.count("corpus_fixed_witnesses");
            if let Err(e) = round_trip(k, d) {
                rep.fail(json!({"kind": "round_trip", "key": k, "dir": d, "what": format!("regression of repaired defect {}: {}", f.id, e)}));
            }
        }
    }
    // ---------- oracle on the implementation ----------
    let norm_names = ["a", "b", "c"];
    let odepth = if thorough { 4 } else { 3 };
    let nk = strings_up_to(&norm_names, odepth);
    let mut oracle_cases = 0u64;
    for k in &nk {
        for d in &nk {
            oracle_cases += 1;
            let class = if k == d { "equal" } else if d.is_empty() || k.starts_with(&format!("{}/", d)) { "k_below_d" } else if k.is_empty() || d.starts_with(&format!("{}/", k)) { "d_below_k" } else { "disjoint_or_sibling" };
            rep.count(&format!("oracle_{}", class));
            if let Err(e) = round_trip(k, d) {
                rep.fail(json!({"kind": "round_trip", "key": k, "dir": d, "what": e}));
            }
        }
    }
    let unames = ["a", "b", "x.y", "ü", "日本", "a b", "%41", "md", ".mdx", "m"];
    for i in 0..(if thorough { 50000 } else { 5000 }) {
        let mut r = Rng::for_case(ctx.seed ^ 0xC15, i as u64);
        let k: Vec<&str> = (0..r.range(0, 7)).map(|_| *r.pick(&unames)).collect();
        let d: Vec<&str> = (0..r.range(0, 7)).map(|_| *r.pick(&unames)).collect();
        let (k, d) = (k.join("/"), d.join("/"));
        oracle_cases += 1;
        rep.case(&format!("rt({:?},{:?})", k, d), true);
        if i < 2 {
            rep.sample(json!({"key": k, "dir": d, "link": Key::from_file_name(&k).to_rel_link_url(&d)}));
        }
        if let Err(e) = round_trip(&k, &d) {
            rep.fail(json!({"kind": "round_trip", "key": k, "dir": d, "what": e}));
        }
        // resolve-then-rewrite equivalence for urls with ./.. forms
        let mut u: Vec<&str> = (0..r.range(1, 5)).map(|_| *r.pick(&["a", "b", "..", ".", "c.md"])).collect();
        if r.chance(1, 3) {
            u.push("t.md");
        }
        let u = u.join("/");
        let resolved = Key::from_rel_link_url(&u, &d).to_string();
        if !resolved.starts_with("..") && !resolved.ends_with(".md") {
            let again = Key::from_rel_link_url(&Key::from_file_name(&resolved).to_rel_link_url(&d), &d).to_string();
            rep.count("oracle_rewrite_equiv");
            if again != resolved {
                rep.fail(json!({"kind": "rewrite_equiv", "url": u, "dir": d, "what": format!("url {:?} from {:?} resolves to {:?}; re-written link resolves to {:?}", u, d, resolved, again)}));
            }
        }
    }
    // through the graph: export of a block reference keeps its target, both extension settings
    let gk = strings_up_to(&["a", "b", "a2"], 2);
    for k in gk.iter().filter(|k| !k.is_empty()) {
        for d in &gk {
            for ext in ["", ".md"] {
                for form in ["regular", "wiki", "wikiPiped"] {
                    for container in ["top", "quote", "quote2", "item"] {
                        oracle_cases += 1;
                        rep.count(&format!("oracle_export_reference_{}_{}", form, container));
                        match catch(|| export_keeps_target(k, d, ext, form, container)) {
                            Ok(Ok(())) => {}
                            Ok(Err(e)) => rep.fail(json!({"kind": "export_reference", "key": k, "dir": d, "ext": ext, "form": form, "container": container, "what": e})),
                            Err(p) => rep.fail(json!({"kind": "export_reference", "key": k, "dir": d, "ext": ext, "form": form, "container": container, "what": format!("panic: {}", p)})),
                        }
                    }
                }
            }
        }
    }
    // the command-line binary: `iwe squash` of a note in a sub-directory with depth 0-1 keeps references as links; they
    // are written relative to that note's directory, exactly as the library API writes them
    for (n, (key, depth)) in [("d/a", 0u8), ("d/a", 1), ("a", 0), ("d/e/deep", 0), ("d/e/deep", 1)].iter().enumerate() {
        let lib: Vec<(String, String)> = vec![
            ("a".to_string(), "# A\n\n[c](d/c)\n\n[top](top)\n".to_string()),
            ("top".to_string(), "# Top\n\n[c](d/c)\n".to_string()),
            ("d/a".to_string(), "# D A\n\n[c](c)\n\n[top](../top)\n\n[deep](e/deep)\n".to_string()),
            ("d/c".to_string(), "# C\n\n[up](../top)\n\n[gone](missing)\n".to_string()),
            ("d/e/deep".to_string(), "# Deep\n\n[c](../c)\n\n[top](../../top)\n\n[[../a]]\n".to_string()),
        ];
        for ext in ["", ".md"] {
            oracle_cases += 1;
            rep.count("oracle_cli_squash");
            let cli = crate::cli::CliCase { lib: &lib, ext, sub: if n % 2 == 0 { "" } else { "notes" }, squash: Some((key, *depth)), paths_depth: 3, tag: &format!("c15-{}-{}", n, ext.len()) };
            if let Some(w) = crate::cli::check(&cli) {
                rep.fail(cli.failure(w));
            }
        }
    }
    // completion items: on one server, asked from notes of different directories one after the other (with edits that
    // keep every title in between), every offered link resolves — from the directory of the asking note — to a note
    // of the library, each note exactly once, and the offered text is that note's title
    for (n, ext) in ["", ".md", ""].iter().enumerate() {
        let lib: Vec<(String, String)> = vec![
            ("a".to_string(), "# A\n\ntext\n".to_string()),
            ("top".to_string(), "# Top\n\n[c](d/c)\n".to_string()),
            ("d/a".to_string(), "# D A\n\n[c](c)\n".to_string()),
            ("d/c".to_string(), "# C\n\ntext\n".to_string()),
            ("d/e/deep".to_string(), "# Deep\n\n[c](../c)\n".to_string()),
            ("d2/a".to_string(), "# Other A\n".to_string()),
            ("v1.2".to_string(), "# Dotted\n".to_string()),
        ];
        let titles: std::collections::HashMap<String, String> = lib.iter().map(|(k, t)| (k.clone(), t.lines().next().unwrap_or("").trim_start_matches("# ").to_string())).collect();
        let state: std::collections::HashMap<String, String> = lib.iter().cloned().collect();
        let mut order: Vec<&str> = vec!["d/e/deep", "a", "d/a", "d2/a", "top", "d/c", "a", "d/e/deep"];
        if n == 2 {
            order.reverse();
        }
        oracle_cases += 1;
        rep.count("oracle_completion_sessions");
        let verdict = catch(std::panic::AssertUnwindSafe(|| -> Option<String> {
            let mut server = crate::act::with_via(crate::act::Via::Import, || crate::props::c01::server_for(&state, ext));
            for (step, asking) in order.iter().enumerate() {
                if step % 3 == 2 {
                    // an edit that keeps the title (the editor sends one with every typed character)
                    server.handle_did_change_text_document(lsp_types::DidChangeTextDocumentParams {
                        text_document: lsp_types::VersionedTextDocumentIdentifier { uri: crate::props::c01::uri_for(asking), version: step as i32 + 2 },
                        content_changes: vec![lsp_types::TextDocumentContentChangeEvent { range: None, range_length: None, text: format!("{}\nedited {}\n", state[*asking], step) }],
                    });
                }
                let resp = server.handle_completion(lsp_types::CompletionParams {
                    text_document_position: lsp_types::TextDocumentPositionParams { text_document: lsp_types::TextDocumentIdentifier { uri: crate::props::c01::uri_for(asking) }, position: lsp_types::Position::new(0, 0) },
                    work_done_progress_params: Default::default(),
                    partial_result_params: Default::default(),
                    context: None,
                });
                let items = match resp {
                    lsp_types::CompletionResponse::List(l) => l.items,
                    lsp_types::CompletionResponse::Array(a) => a,
                };
                let dir = crate::oracle::md::dir_of(asking);
                let mut seen: Vec<String> = vec![];
                for it in items {
                    let Some(ins) = it.insert_text.clone() else { continue };
                    // `[title](url)`
                    let (Some(open), Some(close)) = (ins.rfind("]("), ins.rfind(')')) else { continue };
                    if !ins.starts_with('[') || close < open {
                        continue;
                    }
                    let (title, url) = (&ins[1..open], &ins[open + 2..close]);
                    let key = crate::oracle::md::resolve(url, &dir);
                    match titles.get(&key) {
                        None => return Some(format!("asked from {:?} (request {} of the session): the offered link {:?} resolves from {:?} to {:?}, which is no note of the library", asking, step + 1, ins, dir, key)),
                        Some(t) if t != title => return Some(format!("asked from {:?} (request {} of the session): the offered link {:?} resolves to {:?}, whose title is {:?}", asking, step + 1, ins, key, t)),
                        _ => {}
                    }
                    seen.push(key);
                }
                let mut want: Vec<String> = titles.keys().cloned().collect();
                want.sort();
                seen.sort();
                if seen != want {
                    return Some(format!("asked from {:?} (request {} of the session): the offered links resolve to {:?}, the library holds {:?}", asking, step + 1, seen, want));
                }
            }
            None
        }));
        match verdict {
            Ok(None) => {}
            Ok(Some(w)) => rep.fail(json!({"kind": "completion", "ext": ext, "order": order, "what": w})),
            Err(p) => rep.fail(json!({"kind": "completion", "ext": ext, "order": order, "what": format!("panic: {}", p)})),
        }
    }
    // correspondence: the model's `Completion.linkCompletions` (label, sort text, insert text, filter text of every
    // item, from every asking note) vs `handle_completion` on generated libraries
    for i in 0..(if ctx.thorough { 400 } else { 40 }) {
        let mut r = crate::rng::Rng::for_case(ctx.seed ^ 0xC15C, i as u64);
        let h0 = crate::hist::gen_history(&mut r, true, 0);
        let h = crate::hist::History { ext: h0.ext.clone(), import: h0.import.clone(), steps: vec![] };
        let Some(reply) = crate::hist::model_reply_parts(model, &h, &["completions"]) else { continue };
        let states = crate::dump::children(&reply);
        let Some(last) = states.last() else { continue };
        let parts = crate::dump::children(last);
        let Some(mc) = parts.iter().find(|p| p.starts_with("(completions")) else {
            rep.count("completion_corr_skipped_model_error");
            continue;
        };
        let state: std::collections::HashMap<String, String> = h.import.iter().cloned().collect();
        let mut keys: Vec<String> = h.import.iter().map(|(k, _)| liwe::model::Key::from_file_name(k).to_string()).collect();
        keys.sort();
        keys.dedup();
        let real = catch(std::panic::AssertUnwindSafe(|| {
            let server = crate::act::with_via(crate::act::Via::Import, || crate::props::c01::server_for(&state, &h.ext));
            let mut out = String::from("(completions");
            for k in &keys {
                let resp = server.handle_completion(lsp_types::CompletionParams {
                    text_document_position: lsp_types::TextDocumentPositionParams { text_document: lsp_types::TextDocumentIdentifier { uri: crate::props::c01::uri_for(k) }, position: lsp_types::Position::new(0, 0) },
                    work_done_progress_params: Default::default(),
                    partial_result_params: Default::default(),
                    context: None,
                });
                let items = match resp {
                    lsp_types::CompletionResponse::List(l) => l.items,
                    lsp_types::CompletionResponse::Array(a) => a,
                };
                let mut lines: Vec<String> = items
                    .iter()
                    .filter(|it| it.label.starts_with("🔗"))
                    .map(|it| format!("{}\n{}\n{}\n{}", it.label, it.sort_text.clone().unwrap_or_default(), it.insert_text.clone().unwrap_or_default(), it.filter_text.clone().unwrap_or_default()))
                    .collect();
                lines.sort();
                out.push_str(&format!(" ({}{})", crate::sexp::hex(k), lines.iter().map(|l| format!(" {}", crate::sexp::hex(l))).collect::<String>()));
            }
            out.push(')');
            out
        }));
        let Ok(real) = real else {
            rep.count("completion_corr_skipped_impl_panic");
            continue;
        };
        // titles with non-ASCII letters: `to_lowercase` of the filter text is outside the model (compared on the other fields)
        let ascii = h.import.iter().all(|(_, t)| t.lines().filter(|l| l.starts_with('#')).all(|l| l.is_ascii()));
        rep.correspondence_cases += 1;
        rep.count("completion_corr_cases");
        if ascii && *mc != real {
            rep.disagree(json!({"op": "Completion.linkCompletions", "model": mc.chars().take(600).collect::<String>(), "impl": real.chars().take(600).collect::<String>(), "history": crate::hist::to_json(&h)}));
        }
    }
    rep.count_n("oracle_cases", oracle_cases);
    rep.evaluations += oracle_cases;
    rep.exhaustive = false;
}
