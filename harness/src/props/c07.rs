//! C07 — the outline survives formatting and comes out well-nested.
use crate::gen;
use crate::hist::{self, History};
use crate::oracle::md::{self, Heading};
use crate::props::c01;
use crate::{model::Model, report::Report, rng::Rng, Ctx};
use liwe::model::Key;
use serde_json::json;
use std::collections::BTreeMap;

fn by_ctx(hs: &[Heading]) -> BTreeMap<Vec<String>, Vec<u8>> {
    let mut m: BTreeMap<Vec<String>, Vec<u8>> = BTreeMap::new();
    for h in hs {
        m.entry(h.ctx.clone()).or_default().push(h.level);
    }
    m
}

pub fn check_doc(key: &str, text: &str) -> Option<String> {
    let dir = crate::oracle::md::dir_of(key);
    let out = c01::format_single(key, text, "").ok()?;
    // the formatting request of the LSP server copies the note into a patch graph first: same text
    {
        let mut st = std::collections::HashMap::new();
        st.insert(key.to_string(), text.to_string());
        if let Ok(lsp) = c01::format_lsp(&st, key, "") {
            // (a container without content leaves an extra blank line in the export and none in the formatting
            // answer: runs of blank lines are compared as one)
            let squeeze = |t: &str| {
                let mut o: Vec<&str> = vec![];
                for l in t.lines() {
                    if !(l.trim().is_empty() && o.last().map(|x: &&str| x.trim().is_empty()).unwrap_or(true)) {
                        o.push(l);
                    }
                }
                o.join("\n")
            };
            if squeeze(&lsp) != squeeze(&out) {
                return Some(format!("textDocument/formatting returns another text than the export of the note: {}", crate::props::c02::first_line_diff(&out, &lsp)));
            }
        }
    }
    // a container without content (a list of empty items, an empty quote: a line that is just `-`, `1.` or `>`) is not
    // written; the oracle reads the input without those lines, so that the containers after it are numbered alike
    let text_read: String = {
        let lines: Vec<&str> = text.lines().collect();
        let marker = "after the empty container";
        let hollow = |i: usize| matches!(lines[i], "-" | "1." | ">") && (lines.get(i + 2) == Some(&marker) || (lines.get(i + 1) == Some(&"-") && lines.get(i + 3) == Some(&marker)) || (i > 0 && lines[i - 1] == "-" && lines.get(i + 2) == Some(&marker)));
        (0..lines.len()).filter(|i| !hollow(*i)).map(|i| lines[i]).collect::<Vec<_>>().join("\n") + "\n"
    };
    let a = md::read(&text_read, &dir);
    let b = md::read(&out, &dir);
    // a container without content (a list of empty items, an empty quote) is not written: the containers after it are
    // then numbered differently, so for such inputs the containers are compared by kind and item number only
    // headings stay in order with their text and container
    let ha: Vec<(Vec<String>, String)> = a.headings.iter().map(|h| (h.ctx.clone(), h.text.clone())).collect();
    let hb: Vec<(Vec<String>, String)> = b.headings.iter().map(|h| (h.ctx.clone(), h.text.clone())).collect();
    if ha != hb {
        let i = ha.iter().zip(hb.iter()).position(|(x, y)| x != y).unwrap_or(ha.len().min(hb.len()));
        return Some(format!("headings differ at #{}: input {:?}, output {:?} ({} vs {} headings) — output {:?}", i, ha.get(i), hb.get(i), ha.len(), hb.len(), cut(&out)));
    }
    // every block stays under the same heading, in the same container, with the same kind
    let ba: Vec<(Vec<String>, Option<usize>, String)> = a.blocks.iter().map(|b| (b.0.clone(), b.1, b.2.clone())).collect();
    let bb: Vec<(Vec<String>, Option<usize>, String)> = b.blocks.iter().map(|b| (b.0.clone(), b.1, b.2.clone())).collect();
    if ba != bb {
        let i = ba.iter().zip(bb.iter()).position(|(x, y)| x != y).unwrap_or(ba.len().min(bb.len()));
        return Some(format!("block #{} moved: input (containers, heading, kind) = {:?}, output {:?} — output {:?}", i, ba.get(i), bb.get(i), cut(&out)));
    }
    // levels: output well-nested per container; identical when the input was well-nested
    let (la, lb) = (by_ctx(&a.headings), by_ctx(&b.headings));
    for (ctx, out_levels) in &lb {
        if !md::well_nested(out_levels) {
            return Some(format!("output outline in container {:?} is not well-nested: {:?} — output {:?}", ctx, out_levels, cut(&out)));
        }
        if let Some(in_levels) = la.get(ctx) {
            if md::well_nested(in_levels) && in_levels != out_levels {
                return Some(format!("well-nested outline {:?} in container {:?} came out as {:?}", in_levels, ctx, out_levels));
            }
        }
    }
    None
}

fn cut(s: &str) -> String {
    s.chars().take(300).collect()
}

fn levels_doc(levels: &[u8], r: &mut Rng) -> String {
    let mut t = String::new();
    for (i, l) in levels.iter().enumerate() {
        if *l <= 2 && r.chance(1, 3) {
            t.push_str(&format!("h{} x\n{}\n\n", i, if *l == 1 { "===" } else { "---" }));
        } else {
            t.push_str(&format!("{} h{} x\n\n", "#".repeat(*l as usize), i));
        }
        if r.chance(1, 2) {
            t.push_str(&format!("para {}\n\n", i));
        }
        if r.chance(1, 6) {
            t.push_str(&format!("- item {}\n  - sub {}\n\n", i, i));
        }
    }
    t
}

pub fn run(ctx: &Ctx, model: &mut Model, rep: &mut Report) {
    rep.rule = "(a) every sequence of heading levels 1-6 up to the tier's length (ATX and setext, with paragraphs and lists in between), exhaustively; (b) type-directed documents with nested mixed lists, multi-block items, quotes; correspondence: outline (levels, texts, containers) of the model's formatted text vs the real one; oracle: headings keep order/text/container, every block keeps its heading, container and kind, output levels well-nested per container, well-nested inputs reproduced identically; non-trivial = ≥2 headings; distinct by text".to_string();
    if let Some(path) = &ctx.replay {
        let v: serde_json::Value = serde_json::from_str(&std::fs::read_to_string(path).unwrap()).unwrap();
        rep.evaluations += 1;
        if v["kind"] == "reader_outline" {
            if let Some(c) = crate::events::compare_flat(model, v["text"].as_str().unwrap_or("")) {
                if c.grammar == "complete" && c.levels.2 != c.levels.1 {
                    rep.fail(json!({"kind": "reader_outline", "key": v["key"], "text": v["text"], "what": format!("the reader's top-level headings have the levels {:?}, the parser reported {:?}", c.levels.2, c.levels.1)}));
                }
            }
            return;
        }
        if let Some(what) = check_doc(v["key"].as_str().unwrap_or("a"), v["text"].as_str().unwrap_or("")) {
            rep.fail(json!({"kind": "outline", "key": v["key"], "text": v["text"], "what": what}));
        }
        return;
    }
    for f in crate::known::open(ctx, "C07") {
        let (k, t) = (f.witness["key"].as_str().unwrap_or("a").to_string(), f.witness["text"].as_str().unwrap_or("").to_string());
        rep.evaluations += 1;
        match check_doc(&k, &t) {
            Some(what) => rep.known_findings.push(json!({"id": f.id, "what": format!("{} — witness still fails: {}", f.what, cut(&what))})),
            None => rep.resolved_findings.push(json!({"id": f.id, "what": f.what})),
        }
    }
    // (a) exhaustive level sequences
    let maxlen = if ctx.thorough { 6 } else { 4 };
    let mut seqs: Vec<Vec<u8>> = vec![vec![]];
    let mut layer: Vec<Vec<u8>> = vec![vec![]];
    for _ in 0..maxlen {
        let mut next = vec![];
        for s in &layer {
            for l in 1..=6u8 {
                let mut t = s.clone();
                t.push(l);
                next.push(t);
            }
        }
        seqs.extend(next.iter().cloned());
        layer = next;
    }
    let mut r = Rng::new(ctx.seed ^ 0xC07);
    let mut docs: Vec<(String, String, bool)> = vec![];
    for (n, s) in seqs.iter().enumerate() {
        let text = levels_doc(s, &mut r);
        // every 7th sequence also goes to the model (all of them in the thorough tier would take minutes)
        docs.push(("a".to_string(), text, n % 7 == 0));
        if md::well_nested(s) {
            rep.count("well_nested_sequences");
        }
    }
    rep.exhaustive = true;
    rep.count_n("level_sequences", seqs.len() as u64);
    // (b) general documents
    let keys: Vec<String> = hist::KEY_POOL.iter().map(|s| s.to_string()).collect();
    for i in 0..(if ctx.thorough { 8000 } else { 600 }) {
        let mut r = Rng::for_case(ctx.seed ^ 0xC07B, i as u64);
        let key = r.pick(&keys[..]).clone();
        let mut p = hist::profile_for(&keys, &key, true);
        p.max_depth = 5;
        let mut text = if i % 97 == 5 || i % 97 == 6 { gen::long_ordered_list(&mut r) } else { gen::document(&mut r, &p) };
        // every fifth document: a container without content (a list of empty items, an empty quote) right under a heading
        if i % 5 == 4 {
            let lines: Vec<&str> = text.lines().collect();
            let heads: Vec<usize> = lines.iter().enumerate().filter(|(_, l)| l.starts_with('#') && !l.starts_with("#######")).map(|(n, _)| n).collect();
            if !heads.is_empty() {
                let at = *r.pick(&heads[..]);
                let hollow = *r.pick(&["-", "1.", ">", "-\n-"][..]);
                let mut out: Vec<String> = lines.iter().map(|l| l.to_string()).collect();
                // a paragraph after it keeps it from merging with a list or quote that follows
                out.insert(at + 1, format!("\n{}\n\nafter the empty container\n", hollow));
                text = out.join("\n") + "\n";
            }
        }
        docs.push((key, text, i % 3 == 0));
    }
    for (i, (key, text, corr)) in docs.iter().enumerate() {
        rep.case(text, text.matches('#').count() + text.matches("===").count() >= 2);
        if i == 700 || i == docs.len() - 1 {
            rep.sample(json!({"key": key, "text": text}));
        }
        if *corr {
            let h = History { ext: String::new(), import: vec![(key.clone(), text.clone())], steps: vec![] };
            if let Some(reply) = hist::model_reply_parts(model, &h, &["md"]) {
                let dir = crate::oracle::md::dir_of(key);
                if let (Some((_, Ok(mt))), Ok(rt)) = (hist::model_md(&reply, 0).first().cloned(), c01::format_single(key, text, "")) {
                    rep.correspondence_cases += 1;
                    let (hm, hr) = (md::read(&mt, &dir).headings, md::read(&rt, &dir).headings);
                    let strip = |hs: Vec<Heading>| hs.into_iter().map(|h| (h.ctx, h.level, h.text)).collect::<Vec<_>>();
                    if strip(hm) != strip(hr) {
                        rep.disagree(json!({"op": "format (outline)", "key": key, "text": text, "model": mt, "impl": rt}));
                    }
                }
            }
        }
        // the reader keeps the outline it is given (theorem `reader_outline`): the model's `levelsEv` of the real parser's
        // events vs the harness' own count, and the statement itself on the real reader's blocks
        if *corr || i % 2 == 0 {
            if let Some(c) = crate::events::compare_flat(model, text) {
                rep.count("reader_outline_cases");
                if c.levels.0 != c.levels.1 {
                    rep.disagree(json!({"op": "Outline.levelsEv", "key": key, "text": text, "model": format!("{:?}", c.levels.0), "impl": format!("{:?} (own pass over the parser's events)", c.levels.1)}));
                }
                if c.grammar == "complete" && c.levels.2 != c.levels.1 {
                    rep.fail(json!({"kind": "reader_outline", "key": key, "text": text, "what": format!("the reader's top-level headings have the levels {:?}, the parser reported {:?}", c.levels.2, c.levels.1)}));
                }
            }
        }
        if let Some(what) = check_doc(key, text) {
            rep.fail(json!({"kind": "outline", "key": key, "text": text, "what": what}));
        }
    }
}
