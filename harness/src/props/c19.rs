//! C19 — on-disk normalize rewrites notes in place and never leaves a damaged file.
use crate::known;
use crate::sexp::*;
use crate::{dump, gen, hist, model::Model, report::Report, rng::Rng, Ctx};
use liwe::graph::Graph;
use liwe::model::config::MarkdownOptions;
use serde_json::json;
use std::collections::BTreeMap;
use std::path::{Path, PathBuf};
use std::process::Command;

pub const IWE_BIN: &str = "/verif/harness/target/iwe-bin/release/iwe";

type Snap = BTreeMap<String, Vec<u8>>;

fn snapshot(root: &Path) -> Snap {
    fn walk(dir: &Path, root: &Path, out: &mut Snap) {
        if let Ok(rd) = std::fs::read_dir(dir) {
            for e in rd.flatten() {
                let p = e.path();
                if p.is_dir() {
                    out.insert(format!("{}/", p.strip_prefix(root).unwrap().display()), vec![]);
                    walk(&p, root, out);
                } else {
                    out.insert(p.strip_prefix(root).unwrap().display().to_string(), std::fs::read(&p).unwrap_or_default());
                }
            }
        }
    }
    let mut out = Snap::new();
    walk(root, root, &mut out);
    out
}

fn write_tree(root: &Path, files: &[(String, String)]) {
    let _ = std::fs::remove_dir_all(root);
    std::fs::create_dir_all(root).unwrap();
    for (p, c) in files {
        let path = root.join(p);
        std::fs::create_dir_all(path.parent().unwrap()).unwrap();
        std::fs::write(path, c).unwrap();
    }
    // a note that is a symbolic link to a file that is no note (`linked.md` → `img/shared-target.txt`, same text): the note
    // is rewritten in the library like any other (temporary file + rename replaces the link), what it pointed to is not
    // touched
    if files.iter().any(|(p, _)| p == LINK_NOTE) && files.iter().any(|(p, _)| p == LINK_TARGET) {
        let _ = std::fs::remove_file(root.join(LINK_NOTE));
        std::os::unix::fs::symlink(LINK_TARGET, root.join(LINK_NOTE)).unwrap();
    }
}

const LINK_NOTE: &str = "linked.md";
const LINK_TARGET: &str = "img/shared-target.txt";

/// a directory tree of notes: nested directories, non-note files, names with spaces
pub fn gen_tree(r: &mut Rng, with_md_md: bool) -> Vec<(String, String)> {
    // names with a dot before `.md` (`release-1.2.md`) and directories with dots: the key keeps them
    let names = ["a", "b", "my note", "d/x", "d/e/z", "d/two words", "f/x", "ü", "release-1.2", "v1.0/notes.2024", "archive.md/old"];
    let keys: Vec<String> = names.iter().map(|s| s.to_string()).collect();
    let n = r.range(1, 6);
    let mut files: Vec<(String, String)> = vec![];
    for i in 0..n {
        let k = names[(i * 3 + r.below(2)) % names.len()];
        if files.iter().any(|(p, _)| p == &format!("{}.md", k)) {
            continue;
        }
        let mut p = hist::profile_for(&keys, k, true);
        p.max_blocks = 5;
        files.push((format!("{}.md", k), gen::document(r, &p)));
    }
    // every other tree: a note inside a directory whose own name ends in `.md`
    if r.chance(1, 2) && !files.iter().any(|(p, _)| p.starts_with("archive.md/")) {
        files.push(("archive.md/old.md".to_string(), "# Old   note\n\n*  kept  here *\n".to_string()));
    }
    // notes that are in iwe's normal form except for their line terminators: still rewritten to the exported text
    if r.chance(1, 2) {
        files.push(("crlf note.md".to_string(), "# Crlf\r\n\r\nline one\r\n\r\n- item\r\n".to_string()));
        files.push(("d/nofinal.md".to_string(), "# No final newline\n\ntext".to_string()));
    }
    // every other tree: a note that is a symbolic link (see `write_tree`)
    if r.chance(1, 2) {
        let text = "#  Shared   note\n\n*  text  behind a link *\n\n-  item\n".to_string();
        files.push((LINK_NOTE.to_string(), text.clone()));
        files.push((LINK_TARGET.to_string(), text));
    }
    files.push(("notes.txt".to_string(), "not a note\n".to_string()));
    files.push(("d/readme.markdown".to_string(), "* keep   me  *\n".to_string()));
    files.push(("img/pic.png".to_string(), "PNG".to_string()));
    // files whose extension is `md` in another case are not notes (the loader compares `md` exactly): untouched, and
    // no lower-case twin appears next to them
    files.push(("README.MD".to_string(), "*  upper case extension  *\n".to_string()));
    files.push(("d/CHANGES.Md".to_string(), "*  mixed case extension  *\n".to_string()));
    // a leftover temporary file of an earlier, killed run (longer than the note it belongs to): the next run
    // may replace or remove it, but the note must come out exactly as the export says
    if let Some((p, _)) = files.first().cloned() {
        if r.chance(1, 2) {
            files.push((format!("{}.tmp", p), format!("{}\n", "stale leftover line that is longer than anything the note will hold ".repeat(40))));
        }
    }
    if with_md_md {
        files.push(("x.md.md".to_string(), "# double\n".to_string()));
    }
    files
}

/// what `iwe normalize` has to leave on disk: the export of the library made of the tree's `*.md` files — taken from
/// the generated tree itself, not through the implementation's directory loader
fn expected(files: &[(String, String)]) -> Option<BTreeMap<String, String>> {
    let state: std::collections::HashMap<String, String> = files.iter().filter_map(|(p, t)| p.strip_suffix(".md").map(|k| (k.to_string(), t.clone()))).collect();
    let g = dump::catch(|| Graph::import(&state, MarkdownOptions::default())).ok()?;
    let e = dump::catch(|| g.export()).ok()?;
    Some(e.into_iter().map(|(k, v)| (format!("{}.md", k), v)).collect())
}

fn run_iwe(root: &Path, strace: Option<&[&str]>) -> (bool, String) {
    let mut cmd = match strace {
        None => Command::new(IWE_BIN),
        Some(args) => {
            let mut c = Command::new("strace");
            c.args(args).arg(IWE_BIN);
            c
        }
    };
    let out = cmd.arg("normalize").current_dir(root).output();
    match out {
        Ok(o) => (o.status.success(), String::from_utf8_lossy(&o.stderr).to_string()),
        Err(e) => (false, format!("cannot run: {}", e)),
    }
}

/// after a (possibly failed) run: every note file old or new, nothing else touched
fn check_after(before: &Snap, after: &Snap, want: &BTreeMap<String, String>, complete: bool, allow_tmp: bool) -> Option<String> {
    for (p, old) in before {
        // a leftover temporary file is the tool's own: it may be replaced or removed
        if p.ends_with(".md.tmp") {
            continue;
        }
        match after.get(p) {
            None => return Some(format!("{:?} was deleted", p)),
            Some(new) => {
                if let Some(w) = want.get(p) {
                    let is_new = new == w.as_bytes();
                    if complete && !is_new {
                        return Some(format!("note {:?} does not hold the exported text after a complete run", p));
                    }
                    if !is_new && new != old {
                        return Some(format!("note {:?} holds neither its old nor its new text ({} bytes; old {}, new {}): {:?}", p, new.len(), old.len(), w.len(), String::from_utf8_lossy(new).chars().take(60).collect::<String>()));
                    }
                } else if new != old {
                    return Some(format!("{:?} is not a note but was changed", p));
                }
            }
        }
    }
    for p in after.keys() {
        if !before.contains_key(p) && !(allow_tmp && p.ends_with(".md.tmp")) {
            return Some(format!("{:?} was created", p));
        }
    }
    None
}

#[derive(Debug, Clone, PartialEq)]
enum Sys {
    OpenTrunc(String),
    Write(String, usize),
    Rename(String, String),
    Unlink(String),
}

/// strace prints non-ASCII bytes of a path as octal escapes (`\303\274.md`)
fn unescape_strace(q: &str) -> String {
    let b = q.as_bytes();
    let mut out: Vec<u8> = vec![];
    let mut i = 0;
    while i < b.len() {
        if b[i] == b'\\' && i + 1 < b.len() {
            let c = b[i + 1];
            if (b'0'..=b'7').contains(&c) {
                let mut j = i + 1;
                let mut v = 0u32;
                while j < b.len() && j < i + 4 && (b'0'..=b'7').contains(&b[j]) {
                    v = v * 8 + (b[j] - b'0') as u32;
                    j += 1;
                }
                out.push(v as u8);
                i = j;
                continue;
            }
            if c == b'x' && i + 3 < b.len() {
                if let Ok(v) = u8::from_str_radix(&q[i + 2..i + 4], 16) {
                    out.push(v);
                    i += 4;
                    continue;
                }
            }
            out.push(match c {
                b'n' => b'\n',
                b't' => b'\t',
                b'r' => b'\r',
                other => other,
            });
            i += 2;
        } else {
            out.push(b[i]);
            i += 1;
        }
    }
    String::from_utf8_lossy(&out).to_string()
}

/// the write-side system calls on files below the library, from an strace log
fn parse_strace(log: &str, root: &str) -> Vec<Sys> {
    let mut fds: std::collections::HashMap<(String, String), String> = std::collections::HashMap::new();
    let mut out = vec![];
    // a call interrupted by another thread's output is printed in two pieces
    // (`pid call(args <unfinished ...>` … `pid <... call resumed>rest) = ret`): join them first
    let mut pending: std::collections::HashMap<String, String> = std::collections::HashMap::new();
    let mut joined: Vec<String> = vec![];
    for line in log.lines() {
        let (pid, rest) = line.split_once(' ').unwrap_or(("", line));
        let rest = rest.trim_start();
        if let Some(head) = rest.strip_suffix("<unfinished ...>") {
            pending.insert(pid.to_string(), head.to_string());
        } else if rest.starts_with("<... ") {
            if let (Some(head), Some((_, tail))) = (pending.remove(pid), rest.split_once("resumed>")) {
                joined.push(format!("{} {}{}", pid, head, tail));
            }
        } else {
            joined.push(line.to_string());
        }
    }
    for line in joined.iter() {
        let (pid, rest) = line.split_once(' ').unwrap_or(("", line));
        let rest = rest.trim_start();
        let quoted = |s: &str| -> Vec<String> {
            let mut v = vec![];
            let mut it = s.split('"');
            it.next();
            while let (Some(q), _) = (it.next(), it.next()) {
                v.push(unescape_strace(q));
            }
            v
        };
        let ret = rest.rsplit(" = ").next().unwrap_or("").split_whitespace().next().unwrap_or("").to_string();
        let rel = |p: &str| p.strip_prefix(root).map(|s| s.trim_start_matches('/').to_string());
        if rest.starts_with("openat(") && (rest.contains("O_WRONLY") || rest.contains("O_RDWR")) {
            if let Some(p) = quoted(rest).first().and_then(|p| rel(p)) {
                if ret != "-1" {
                    fds.insert((pid.to_string(), ret.clone()), p.clone());
                    if rest.contains("O_TRUNC") {
                        out.push(Sys::OpenTrunc(p));
                    }
                }
            }
        } else if rest.starts_with("write(") {
            let fd = rest["write(".len()..].split(',').next().unwrap_or("").to_string();
            // fds are per process, threads share them: look the fd up under any pid
            if let Some(p) = fds.iter().find(|((_, f), _)| *f == fd).map(|(_, p)| p.clone()) {
                if let Ok(n) = ret.parse::<usize>() {
                    out.push(Sys::Write(p, n));
                }
            }
        } else if rest.starts_with("close(") {
            let fd = rest["close(".len()..].split(')').next().unwrap_or("").to_string();
            fds.retain(|(_, f), _| *f != fd);
        } else if rest.starts_with("rename(") || rest.starts_with("renameat") {
            let q = quoted(rest);
            if q.len() >= 2 {
                if let (Some(a), Some(b)) = (rel(&q[0]), rel(&q[1])) {
                    if ret == "0" {
                        out.push(Sys::Rename(a, b));
                    }
                }
            }
        } else if rest.starts_with("unlink") {
            if let Some(p) = quoted(rest).first().and_then(|p| rel(p)) {
                if ret == "0" {
                    out.push(Sys::Unlink(p));
                }
            }
        }
    }
    out
}

fn merged(seq: &[String]) -> Vec<String> {
    let mut v: Vec<String> = vec![];
    for d in seq {
        if v.last() != Some(d) || !d.starts_with("append") {
            v.push(d.clone());
        }
    }
    v
}

/// the system calls of a run in which one call failed, per note, against the model's `writeFile` / `writeFileFailing`
fn fault_trace_disagreement(model: &mut Model, sys: &[Sys]) -> Option<String> {
    let mut order: Vec<String> = vec![];
    let mut per_note: BTreeMap<String, Vec<String>> = BTreeMap::new();
    for s in sys {
        let (note, d) = match s {
            Sys::OpenTrunc(p) => (p.trim_end_matches(".tmp").to_string(), format!("openTrunc {}", p)),
            Sys::Write(p, _) => (p.trim_end_matches(".tmp").to_string(), format!("append {}", p)),
            Sys::Unlink(p) => (p.trim_end_matches(".tmp").to_string(), format!("unlink {}", p)),
            Sys::Rename(a, b) => (b.clone(), format!("rename {} {}", a, b)),
        };
        if !order.contains(&note) {
            order.push(note.clone());
        }
        per_note.entry(note).or_default().push(d);
    }
    let mut failing = 0;
    for (i, note) in order.iter().enumerate() {
        let observed = merged(&per_note[note]);
        let key = note.trim_end_matches(".md");
        let steps_of = |reply: &str| -> Vec<String> {
            merged(
                &dump::children(reply)
                    .iter()
                    .skip(1)
                    .map(|s| {
                        let c = dump::children(s);
                        format!("{} {}", c[0], c[1..].iter().filter_map(|x| unhex(x)).map(|x| x.trim_start_matches("lib/").to_string()).collect::<Vec<_>>().join(" "))
                    })
                    .collect::<Vec<_>>(),
            )
        };
        let mut complete = false;
        let mut fails = false;
        for n in 0..=2 {
            if steps_of(&model.call(&format!("(fs.writeFile true {} {} {})", hex("lib"), hex(key), n))) == observed {
                complete = true;
            }
            for k in 0..=(n + 1) {
                if steps_of(&model.call(&format!("(fs.writeFileFailing {} {} {} {})", hex("lib"), hex(key), n, k))) == observed {
                    fails = true;
                }
            }
        }
        if complete {
            continue;
        }
        if !fails {
            return Some(format!("note {:?}: system calls {:?} are neither a complete write nor a failing write of the model", note, observed));
        }
        failing += 1;
        if i + 1 != order.len() {
            return Some(format!("note {:?} failed ({:?}) but the run went on to other notes", note, observed));
        }
    }
    if failing > 1 {
        return Some(format!("{} notes with a failing write sequence", failing));
    }
    None
}

pub struct CaseResult {
    /// runs with a failing call whose system calls were compared with the model's error branch
    pub fault_traces: u64,
    pub fail: Option<String>,
    pub disagree: Option<String>,
    pub injections: u64,
}

pub fn check_tree(model: &mut Model, files: &[(String, String)], tag: &str, max_points: usize) -> CaseResult {
    let base = PathBuf::from(format!("/verif/harness/tmp/c19-{}-{}", std::process::id(), tag));
    let root = base.join("lib");
    let fresh = || write_tree(&root, files);
    let mut res = CaseResult { fault_traces: 0, fail: None, disagree: None, injections: 0 };
    fresh();
    let before = snapshot(&root);
    let Some(want) = expected(files) else {
        let _ = std::fs::remove_dir_all(&base);
        return res;
    };
    // 1. complete run under strace: syscall sequence vs the model's step sequence, final state
    let log = base.join("strace.log");
    let (ok, stderr) = run_iwe(&root, Some(&["-f", "-qq", "-s", "0", "-o", log.to_str().unwrap(), "-e", "trace=openat,write,close,rename,renameat,renameat2,unlink,unlinkat"]));
    if !ok {
        res.fail = Some(format!("`iwe normalize` failed on an intact library: {}", stderr.chars().take(300).collect::<String>()));
    }
    let after = snapshot(&root);
    if res.fail.is_none() {
        res.fail = check_after(&before, &after, &want, true, false);
    }
    let sys = parse_strace(&std::fs::read_to_string(&log).unwrap_or_default(), root.to_str().unwrap());
    // group per written path, in order
    let mut per_note: BTreeMap<String, Vec<Sys>> = BTreeMap::new();
    for s in &sys {
        let key = match s {
            Sys::OpenTrunc(p) | Sys::Write(p, _) | Sys::Unlink(p) => p.trim_end_matches(".tmp").to_string(),
            Sys::Rename(_, b) => b.clone(),
        };
        per_note.entry(key).or_default().push(s.clone());
    }
    for (p, text) in &want {
        let key = p.trim_end_matches(".md");
        let reply = model.call(&format!("(fs.writeFile true {} {} 1)", hex("lib"), hex(key)));
        // model: (steps (openTrunc #p) (append #p) (rename #s #d))
        let steps: Vec<String> = dump::children(&reply).iter().skip(1).map(|s| {
            let c = dump::children(s);
            format!("{} {}", c[0], c[1..].iter().filter_map(|x| unhex(x)).map(|x| x.trim_start_matches("lib/").to_string()).collect::<Vec<_>>().join(" "))
        }).collect();
        let observed: Vec<String> = {
            let mut v: Vec<String> = vec![];
            let mut written = 0usize;
            for s in per_note.get(p).cloned().unwrap_or_default() {
                let d = match s {
                    Sys::OpenTrunc(p) => format!("openTrunc {}", p),
                    Sys::Write(p, n) => {
                        written += n;
                        format!("append {}", p)
                    }
                    Sys::Rename(a, b) => format!("rename {} {}", a, b),
                    Sys::Unlink(p) => format!("unlink {}", p),
                };
                if v.last() != Some(&d) || !d.starts_with("append") {
                    v.push(d);
                }
            }
            if written != text.len() && !text.is_empty() {
                v.push(format!("(bytes written {} ≠ {})", written, text.len()));
            }
            v
        };
        let steps: Vec<String> = if text.is_empty() { steps.into_iter().filter(|s| !s.starts_with("append")).collect() } else { steps };
        if steps != observed && res.disagree.is_none() {
            res.disagree = Some(format!("note {:?}: model steps {:?}, observed system calls {:?}", p, steps, observed));
        }
    }
    // 2. fault enumeration: k-th write / openat / rename fails with ENOSPC, or the process is killed there
    let n_write = sys.iter().filter(|s| matches!(s, Sys::Write(..))).count() + 2;
    let n_rename = sys.iter().filter(|s| matches!(s, Sys::Rename(..))).count();
    // mode 0: that one call fails; 1: the process is killed there; 2: that call and every later one fail (a full disk stays full)
    let mut points: Vec<(String, usize, u8)> = vec![];
    for k in 1..=n_write {
        points.push(("write".into(), k, 0));
        points.push(("write".into(), k, 1));
        points.push(("write".into(), k, 2));
    }
    for k in 1..=n_rename.max(1) {
        points.push(("rename".into(), k, 0));
        points.push(("rename".into(), k, 1));
        points.push(("rename".into(), k, 2));
    }
    // a fixed pseudo-random sample of the points (all of them when there are at most `max_points`)
    let mut order: Vec<usize> = (0..points.len()).collect();
    order.sort_by_key(|i| (*i as u64 + 1).wrapping_mul(2654435761) % 1000003);
    order.truncate(max_points.max(1));
    order.sort();
    for (i, (sc, k, mode)) in points.iter().enumerate() {
        if !order.contains(&i) {
            continue;
        }
        fresh();
        if *mode == 0 {
            // a single failing call: the error branch of `write_file` runs.  Its system calls are compared with the
            // model (`writeFileFailing`): every note is written completely or by a failing sequence, at most one fails
            let flog = base.join("fault.log");
            let inject = format!("inject={}:error=ENOSPC:when={}", sc, k);
            let _ = run_iwe(&root, Some(&["-f", "-qq", "-s", "0", "-o", flog.to_str().unwrap(), "-e", "trace=openat,write,close,rename,renameat,renameat2,unlink,unlinkat", "-e", &inject]));
            let fsys = parse_strace(&std::fs::read_to_string(&flog).unwrap_or_default(), root.to_str().unwrap());
            if res.disagree.is_none() {
                res.disagree = fault_trace_disagreement(model, &fsys).map(|w| format!("{} #{} fails with ENOSPC: {}", sc, k, w));
            }
            res.injections += 1;
            res.fault_traces += 1;
            let after = snapshot(&root);
            if let Some(w) = check_after(&before, &after, &want, false, true) {
                if res.fail.is_none() {
                    res.fail = Some(format!("{} #{} fails with ENOSPC: {}", sc, k, w));
                }
                break;
            }
            continue;
        }
        let inject = match mode {
            1 => format!("inject={}:signal=KILL:when={}", sc, k),
            2 => format!("inject={}:error=ENOSPC:when={}+", sc, k),
            _ => format!("inject={}:error=ENOSPC:when={}", sc, k),
        };
        let _ = run_iwe(&root, Some(&["-f", "-qq", "-o", "/dev/null", "-e", &format!("trace={}", sc), "-e", &inject]));
        res.injections += 1;
        let after = snapshot(&root);
        if let Some(w) = check_after(&before, &after, &want, false, true) {
            if res.fail.is_none() {
                res.fail = Some(format!("{} #{} {}: {}", sc, k, ["fails with ENOSPC", "killed", "and all later ones fail with ENOSPC"][*mode as usize], w));
            }
            break;
        }
    }
    let _ = std::fs::remove_dir_all(&base);
    res
}

pub fn run(ctx: &Ctx, model: &mut Model, rep: &mut Report) {
    rep.rule = "directory trees of 1-6 notes (nested directories, names with spaces and non-ASCII, non-note files next to them) normalised by the real `iwe` binary built from /repo; correspondence: the write-side system calls per note seen under strace vs the step sequence of the model's write_file; correspondence under a failing call: the system calls of the error branch vs the model's writeFileFailing; fault enumeration: the k-th write / rename system call fails with ENOSPC, it and all later ones fail (the disk stays full), or the process is killed there (strace -e inject), for the sampled k; after every run each note file holds its complete old or new text, non-note files are untouched, nothing is created or deleted; non-trivial = ≥1 note whose text changes; distinct by tree".to_string();
    if !Path::new(IWE_BIN).exists() {
        rep.notes.push(format!("{} not built", IWE_BIN));
        rep.disagree(json!({"op": "build", "what": "the iwe binary is missing"}));
        return;
    }
    let parse_files = |v: &serde_json::Value| -> Vec<(String, String)> { v.as_array().map(|a| a.iter().map(|p| (p[0].as_str().unwrap().to_string(), p[1].as_str().unwrap().to_string())).collect()).unwrap_or_default() };
    if let Some(path) = &ctx.replay {
        let v: serde_json::Value = serde_json::from_str(&std::fs::read_to_string(path).unwrap()).unwrap();
        rep.evaluations += 1;
        let r = check_tree(model, &parse_files(&v["files"]), "replay", 10_000);
        if let Some(w) = r.fail {
            rep.fail(json!({"kind": "normalize", "files": v["files"], "what": w}));
        }
        return;
    }
    for f in known::open(ctx, "C19") {
        rep.evaluations += 1;
        let r = check_tree(model, &parse_files(&f.witness["files"]), "known", 50);
        match r.fail {
            Some(w) => rep.known_findings.push(json!({"id": f.id, "what": format!("{} — witness still fails: {}", f.what, w)})),
            None => rep.resolved_findings.push(json!({"id": f.id, "what": f.what})),
        }
    }
    for f in known::load(ctx, "C19").into_iter().filter(|f| f.status == "fixed") {
        rep.evaluations += 1;
        rep.count("corpus_fixed_witnesses");
        let r = check_tree(model, &parse_files(&f.witness["files"]), "fixed", 10_000);
        if let Some(w) = r.fail {
            rep.fail(json!({"kind": "normalize", "files": f.witness["files"], "what": format!("regression of repaired defect {}: {}", f.id, w)}));
        }
    }
    let n = if ctx.thorough { 60 } else { 10 };
    for i in 0..n {
        let mut r = Rng::for_case(ctx.seed ^ 0xC19, i as u64);
        let files = gen_tree(&mut r, false);
        rep.case(&format!("{:?}", files), true);
        if i < 1 {
            rep.sample(json!({"files": files.iter().map(|(p, c)| (p.clone(), c.chars().take(80).collect::<String>())).collect::<Vec<_>>()}));
        }
        let r = check_tree(model, &files, &format!("{}", i), if ctx.thorough { 10_000 } else { 14 });
        rep.correspondence_cases += 1 + r.fault_traces;
        rep.count_n("fault_traces_vs_model", r.fault_traces);
        rep.count_n("fault_injections", r.injections);
        rep.evaluations += r.injections;
        if let Some(d) = r.disagree {
            rep.disagree(json!({"op": "write_file system calls", "what": d, "files": files}));
        }
        if let Some(w) = r.fail {
            rep.fail(json!({"kind": "normalize", "files": files, "what": w}));
        }
    }
}
