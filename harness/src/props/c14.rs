//! C14 — a file on disk, its URI and its note key always name the same note.
use crate::known;
use crate::sexp::*;
use crate::{dump, model::Model, report::Report, rng::Rng, Ctx};
use iwes::router::server::Server;
use iwes::router::{LspClient, ServerConfig};
use liwe::model::config::Configuration;
use lsp_types::*;
use serde_json::json;
use std::path::PathBuf;

const SAFE: &[&str] = &["a", "note-1", "my_note", "v1.2", "x~y", "Z9", "d", "e", "f"];
const UNSAFE: &[&str] = &["my note", "über", "日本", "100%", "%41", "a#b", "q?x", "x.md", "semi;colon", "a&b"];

pub struct Case {
    pub base_name: String,
    /// relative paths of the note files (with `.md`)
    pub files: Vec<String>,
}

pub fn gen_case(r: &mut Rng, unsafe_names: bool) -> Case {
    let pick = |r: &mut Rng| -> String {
        if unsafe_names && r.chance(1, 2) { r.pick(UNSAFE).to_string() } else { r.pick(SAFE).to_string() }
    };
    let base_name = if unsafe_names && r.chance(1, 3) { "my lib".to_string() } else { "lib".to_string() };
    let mut files: Vec<String> = vec![];
    for _ in 0..r.range(2, 5) {
        let depth = r.below(3);
        let mut parts: Vec<String> = (0..depth).map(|_| r.pick(&["d", "e", "sub-dir", "2024.01", "v1.2", "design.md"]).to_string()).collect();
        if unsafe_names && depth > 0 && r.chance(1, 4) {
            parts[0] = "dir with space".to_string();
        }
        parts.push(format!("{}.md", pick(r)));
        let p = parts.join("/");
        if !files.contains(&p) {
            files.push(p);
        }
    }
    Case { base_name, files }
}

fn server_for(base: &PathBuf) -> Option<Server> {
    let state = liwe::fs::new_for_path(base);
    dump::catch(|| Server::new(ServerConfig { base_path: base.to_string_lossy().to_string(), state, sequential_ids: Some(true), configuration: Configuration::default(), lsp_client: LspClient::Unknown })).ok()
}

fn format_text(server: &Server, uri: &Url) -> Result<String, String> {
    dump::catch(|| {
        server.handle_document_formatting(DocumentFormattingParams { text_document: TextDocumentIdentifier { uri: uri.clone() }, options: FormattingOptions::default(), work_done_progress_params: Default::default() })[0]
            .new_text
            .clone()
    })
}

fn note_count(server: &Server, uri: &Url) -> usize {
    dump::catch(|| match server.handle_completion(CompletionParams {
        text_document_position: TextDocumentPositionParams { text_document: TextDocumentIdentifier { uri: uri.clone() }, position: Position::new(0, 0) },
        work_done_progress_params: Default::default(),
        partial_result_params: Default::default(),
        context: None,
    }) {
        CompletionResponse::List(l) => l.items.iter().filter(|i| i.label.starts_with('🔗')).count(),
        CompletionResponse::Array(a) => a.len(),
    })
    .unwrap_or(usize::MAX)
}

pub fn check_case(model: &mut Model, case: &Case, tag: &str, rep: Option<&mut Report>) -> Option<String> {
    let root = PathBuf::from(format!("/verif/harness/tmp/c14-{}-{}", std::process::id(), tag));
    let base = root.join(&case.base_name);
    // one more note, in directories that spell the library's own path once more below it (`<base>/echo/<base>/deep.md`):
    // a URI is cut at the library root once, at its start
    let mut case = Case { base_name: case.base_name.clone(), files: case.files.clone() };
    if !case.base_name.contains(' ') {
        case.files.push(format!("echo/{}/deep.md", base.to_string_lossy().trim_start_matches('/')));
    }
    let case = &case;
    let _ = std::fs::remove_dir_all(&root);
    for (i, f) in case.files.iter().enumerate() {
        let p = base.join(f);
        std::fs::create_dir_all(p.parent().unwrap()).unwrap();
        std::fs::write(&p, format!("# note {}\n", i)).unwrap();
    }
    // "linker" notes (root and deepest directory) with one block reference per file, written with the oracle's own
    // relative-url function: the note reached by a link must be the note loaded from that file.  Only for names
    // that need no escaping inside a Markdown link destination.
    let plain = |f: &String| f.chars().all(|c| c.is_ascii_alphanumeric() || "/._-~".contains(c));
    let mut linkers: Vec<(String, String)> = vec![];
    if case.files.iter().all(plain) && !case.base_name.contains(' ') {
        let deepest = case.files.iter().max_by_key(|f| f.matches('/').count()).map(|f| f.rsplit_once('/').map(|x| x.0.to_string()).unwrap_or_default()).unwrap_or_default();
        for dir in [String::new(), deepest] {
            let name = if dir.is_empty() { "zz-linker".to_string() } else { format!("{}/zz-linker", dir) };
            if linkers.iter().any(|(n, _)| *n == name) {
                continue;
            }
            let mut t = String::from("# linker\n");
            for f in &case.files {
                t.push_str(&format!("\n[l]({})\n", crate::oracle::md::rel_url(f.trim_end_matches(".md"), &dir)));
            }
            // … and the same references once more inside a block quote and inside a list item
            for f in &case.files {
                let u = crate::oracle::md::rel_url(f.trim_end_matches(".md"), &dir);
                t.push_str(&format!("\n> [q]({})\n\n- item\n\n  [i]({})\n", u, u));
            }
            std::fs::write(base.join(format!("{}.md", name)), &t).unwrap();
            linkers.push((name, dir));
        }
    }
    let result = (|| -> Option<String> {
        let mut server = server_for(&base)?;
        let mut rep = rep;
        // 0. links: go-to-definition on the k-th reference of a linker opens file k; its backlinks include the linker
        for (name, _) in &linkers {
            let luri = Url::from_file_path(base.join(format!("{}.md", name))).ok()?;
            for (k, f) in case.files.iter().enumerate() {
                let want = Url::from_file_path(base.join(f)).ok()?;
                let pos = TextDocumentPositionParams { text_document: TextDocumentIdentifier { uri: luri.clone() }, position: Position::new(2 + 2 * k as u32, 1) };
                let def = dump::catch(|| server.handle_goto_definition(GotoDefinitionParams { text_document_position_params: pos.clone(), work_done_progress_params: Default::default(), partial_result_params: Default::default() }));
                // the model's `definitionTarget` (URL dot-segment removal over the note's directory and the link) answers the same URI
                if let (Some(rep), Ok(GotoDefinitionResponse::Scalar(l))) = (rep.as_deref_mut(), &def) {
                    let dir = linkers.iter().find(|(n, _)| n == name).map(|(_, d)| d.clone()).unwrap_or_default();
                    let url = crate::oracle::md::rel_url(f.trim_end_matches(".md"), &dir);
                    let bp = base.to_string_lossy().to_string();
                    let m = unhex(&model.call(&format!("(uri.definition {} {} {})", hex(&bp), hex(name), hex(&url)))).unwrap_or_default();
                    rep.correspondence_cases += 1;
                    rep.count("definition_corr_cases");
                    if m != l.uri.as_str() {
                        rep.disagree(json!({"op": "Uri.definitionTarget vs handle_goto_definition", "note": name, "link": url, "model": m, "impl": l.uri.as_str()}));
                    }
                }
                match def {
                    Ok(GotoDefinitionResponse::Scalar(l)) if l.uri == want => {}
                    Ok(other) => return Some(format!("link {} of note {:?} (to file {:?}): go-to-definition answers {:?}, the file's URI is {}", k, name, f, other, want)),
                    Err(e) => return Some(format!("link {} of note {:?}: go-to-definition panics: {}", k, name, e.chars().take(80).collect::<String>())),
                }
                let refs = dump::catch(|| {
                    server.handle_references(ReferenceParams {
                        text_document_position: TextDocumentPositionParams { text_document: TextDocumentIdentifier { uri: want.clone() }, position: Position::new(0, 0) },
                        work_done_progress_params: Default::default(),
                        partial_result_params: Default::default(),
                        context: ReferenceContext { include_declaration: false },
                    })
                })
                .ok()?;
                // three linking blocks per file: the plain reference, the quoted one, the one in a list item
                let n = refs.iter().filter(|l| l.uri == luri).count();
                if n != 3 {
                    return Some(format!("file {:?}: the note {:?} links to it from 3 blocks (plain, quoted, in a list item), its backlinks name that note {} times: {:?}", f, name, n, refs.iter().map(|l| format!("{}:{}", l.uri.as_str(), l.range.start.line)).collect::<Vec<_>>()));
                }
            }
        }
        for (i, f) in case.files.iter().enumerate() {
            let path = base.join(f);
            let uri = Url::from_file_path(&path).ok()?;
            let key = f.trim_end_matches(".md").to_string();
            // correspondence (safe keys only): model key ↔ url
            if let Some(rep) = rep.as_deref_mut() {
                if format!("{}.md", key) == *f && model.call(&format!("(uri.safeKey {})", hex(&key))) == "true" && !case.base_name.contains(' ') {
                    let bp = base.to_string_lossy().to_string();
                    let m_url = unhex(&model.call(&format!("(uri.keyToUrl {} {})", hex(&bp), hex(&key)))).unwrap_or_default();
                    let m_key = unhex(&model.call(&format!("(uri.urlToKey {} {})", hex(&bp), hex(uri.as_str())))).unwrap_or_default();
                    rep.correspondence_cases += 1;
                    if m_url != uri.as_str() {
                        rep.disagree(json!({"op": "key_to_url", "key": key, "model": m_url, "impl (Url::from_file_path)": uri.as_str()}));
                    }
                    if m_key != key {
                        rep.disagree(json!({"op": "url_to_key", "url": uri.as_str(), "model": m_key, "impl (key on disk)": key}));
                    }
                }
            }
            // 1. the editor's URI for the file addresses the note loaded from it
            match format_text(&server, &uri) {
                Ok(t) if t == format!("# note {}\n", i) => {}
                Ok(t) => return Some(format!("file {:?}: formatting through its URI {} returns {:?}, not the file's note", f, uri, t.chars().take(40).collect::<String>())),
                Err(e) => return Some(format!("file {:?}: a formatting request with its URI {} panics: {}", f, uri, e.chars().take(80).collect::<String>())),
            }
            // 2. an edit notification updates that note instead of creating a second one
            let before = note_count(&server, &uri);
            let new_text = format!("# edited {}\n", i);
            let r = dump::catch(|| {
                server.handle_did_change_text_document(DidChangeTextDocumentParams {
                    text_document: VersionedTextDocumentIdentifier { uri: uri.clone(), version: 2 },
                    content_changes: vec![TextDocumentContentChangeEvent { range: None, range_length: None, text: new_text.clone() }],
                })
            });
            if r.is_err() {
                return Some(format!("file {:?}: didChange with its URI panics", f));
            }
            let after = note_count(&server, &uri);
            if after != before {
                return Some(format!("file {:?}: didChange through {} changed the number of notes from {} to {}", f, uri, before, after));
            }
            if format_text(&server, &uri).ok().as_deref() != Some(new_text.as_str()) {
                return Some(format!("file {:?}: after didChange the note does not hold the new text", f));
            }
        }
        // 3. URIs in responses open the file that was meant
        let syms = dump::catch(|| server.handle_workspace_symbols(WorkspaceSymbolParams { query: String::new(), ..Default::default() })).ok()?;
        if let WorkspaceSymbolResponse::Flat(syms) = syms {
            for s in syms {
                let Some(idx) = s.name.strip_prefix("edited ").and_then(|n| n.parse::<usize>().ok()) else { continue };
                let want = base.join(&case.files[idx]);
                match s.location.uri.to_file_path() {
                    Ok(p) if p == want => {}
                    other => return Some(format!("symbol {:?}: its URI {} opens {:?}, the note lives in {:?}", s.name, s.location.uri, other.ok(), want)),
                }
            }
        }
        None
    })();
    let _ = std::fs::remove_dir_all(&root);
    result
}

pub fn run(ctx: &Ctx, model: &mut Model, rep: &mut Report) {
    rep.rule = "libraries written to a temporary directory (nested directories, dotted / dashed / tilde names; in the attribution stream also spaces, non-ASCII, `%`, `#`, `?`, stems ending in `.md`, a base path with a space), loaded with new_for_path and served in-process; correspondence (safe names): model key↔URL vs Url::from_file_path and the key on disk; oracle: two linker notes (root and deepest directory) reach every file by go-to-definition and appear in its backlinks; for every file, formatting through `Url::from_file_path(file)` returns that file's note, didChange through it updates that note (note count unchanged, new text served), symbol URIs open the file they name; non-trivial = nested or dotted name; distinct by file set".to_string();
    let case_of = |v: &serde_json::Value| Case { base_name: v["base"].as_str().unwrap_or("lib").to_string(), files: v["files"].as_array().map(|a| a.iter().filter_map(|x| x.as_str().map(|s| s.to_string())).collect()).unwrap_or_default() };
    if let Some(path) = &ctx.replay {
        let v: serde_json::Value = serde_json::from_str(&std::fs::read_to_string(path).unwrap()).unwrap();
        if let Some(r) = crate::cli::replay(&v) {
            rep.evaluations += 1;
            if let Some(w) = r {
                let mut f = v.clone();
                f["what"] = json!(w);
                rep.fail(f);
            }
            return;
        }
        rep.evaluations += 1;
        if let Some(w) = check_case(model, &case_of(&v), "replay", None) {
            rep.fail(json!({"kind": "uri", "base": v["base"], "files": v["files"], "what": w}));
        }
        return;
    }
    let mut d15 = false;
    for f in known::open(ctx, "C14") {
        rep.evaluations += 1;
        d15 |= f.id == "D15";
        match check_case(model, &case_of(&f.witness), "known", None) {
            Some(w) => rep.known_findings.push(json!({"id": f.id, "what": format!("{} — witness still fails: {}", f.what, w)})),
            None => rep.resolved_findings.push(json!({"id": f.id, "what": f.what})),
        }
    }
    let n = if ctx.thorough { 600 } else { 120 };
    for i in 0..n {
        let mut r = Rng::for_case(ctx.seed ^ 0xC14, i as u64);
        let wild = i % 4 == 3;
        let case = gen_case(&mut r, wild);
        rep.case(&format!("{}{:?}", case.base_name, case.files), case.files.iter().any(|f| f.contains('/') || f.matches('.').count() > 1));
        if i < 2 {
            rep.sample(json!({"base": case.base_name, "files": case.files}));
        }
        // `iwe normalize` writes every note back to the file it was read from (and `iwe paths` lists them): the binary on
        // the same file names, for names that need no escaping
        if i % 4 == 1 && !wild {
            let lib: Vec<(String, String)> = case.files.iter().enumerate().map(|(n, f)| (f.trim_end_matches(".md").to_string(), format!("# note {}\n\n*  text  *\n", n))).collect();
            let cli = crate::cli::CliCase { lib: &lib, ext: "", sub: if i % 8 == 1 { "" } else { "my lib" }, squash: None, paths_depth: 3, tag: &format!("c14-{}", i) };
            rep.count("cli_cases");
            rep.evaluations += 1;
            if let Some(w) = crate::cli::check(&cli) {
                rep.fail(cli.failure(w));
            }
        }
        if let Some(w) = check_case(model, &case, &format!("{}", i), Some(rep)) {
            if wild && d15 {
                rep.count("attributed_to_D15");
                continue;
            }
            rep.fail(json!({"kind": "uri", "base": case.base_name, "files": case.files, "what": w}));
        }
    }
}
