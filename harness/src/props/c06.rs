//! C06 — formatting refreshes link titles and never retargets or rewrites a link.
use crate::dump;
use crate::hist::{self, History};
use crate::known;
use crate::oracle::md::{self, LinkOcc};
use crate::props::{c01, c05};
use crate::{model::Model, report::Report, rng::Rng, Ctx};
use liwe::graph::Graph;
use liwe::model::config::MarkdownOptions;
use liwe::model::Key;
use serde_json::json;
use std::collections::HashMap;

fn norm_ws(s: &str) -> String {
    s.split_whitespace().collect::<Vec<_>>().join(" ")
}

/// expected (kind, destination as resolved key or verbatim url, text) of one link after formatting
fn expected(l: &LinkOcc, dir: &str, titles: &HashMap<String, Option<String>>, as_implemented: bool) -> (String, String, String) {
    let ext = md::is_external(&l.dest);
    let dest = if ext {
        l.dest.clone()
    } else if l.block_level {
        format!("key:{}", md::resolve(&l.dest, dir))
    } else {
        format!("url:{}", md::strip_md(&l.dest))
    };
    let target = if l.block_level || !as_implemented { md::resolve(&l.dest, dir) } else { md::strip_md(&l.dest) };
    let text = if ext || l.kind == "auto" {
        norm_ws(&l.text)
    } else {
        match l.kind.as_str() {
            "regular" => match titles.get(&target) {
                Some(Some(t)) => norm_ws(t),
                _ => norm_ws(&l.text),
            },
            "wiki" => String::new(),
            _ => norm_ws(&l.text),
        }
    };
    (l.kind.clone(), dest, plain_if_block(l, text))
}

fn observed(l: &LinkOcc, dir: &str) -> (String, String, String) {
    let ext = md::is_external(&l.dest);
    let dest = if ext {
        l.dest.clone()
    } else if l.block_level {
        format!("key:{}", md::resolve(&l.dest, dir))
    } else {
        format!("url:{}", md::strip_md(&l.dest))
    };
    let text = if l.kind == "wiki" { String::new() } else { norm_ws(&l.text) };
    (l.kind.clone(), dest, plain_if_block(l, text))
}

/// a block reference holds its text as a plain string by construction (inline markup in it is not kept, the words are):
/// its text is compared without the markup marks; an inline link's text is compared with them
fn plain_if_block(l: &LinkOcc, text: String) -> String {
    if l.block_level {
        norm_ws(&text.replace(md::MARKUP, ""))
    } else {
        text
    }
}

pub fn check_library(lib: &[(String, String)], ext: &str, allow_known: bool) -> Option<(String, bool)> {
    let st: HashMap<String, String> = lib.iter().cloned().collect();
    let exported = dump::catch(|| Graph::import(&st, MarkdownOptions { refs_extension: ext.to_string() }).export()).ok()?;
    let titles: HashMap<String, Option<String>> = lib.iter().map(|(k, t)| (Key::from_file_name(k).to_string(), md::read(t, "").title.map(|s| norm_ws(&s)))).collect();
    for (k, text) in lib {
        let key = Key::from_file_name(k).to_string();
        let dir = crate::oracle::md::dir_of(k);
        let out = exported.get(&key)?;
        // also through the LSP formatting request
        if let Ok(lsp) = c01::format_lsp(&st, &key, ext) {
            if &lsp != out {
                return Some((format!("note {:?}: LSP formatting and library export differ", key), false));
            }
        }
        // images keep their destinations (also inside link texts)
        let imgs = |t: &str| md::atoms(t, &dir).into_iter().filter(|a| a.payload.starts_with("img→")).map(|a| a.payload).collect::<Vec<_>>();
        if imgs(text) != imgs(out) {
            return Some((format!("note {:?}: images before formatting {:?}, after {:?}", key, imgs(text), imgs(out)), false));
        }
        let before = md::read(text, &dir).links;
        let after = md::read(out, &dir).links;
        if before.len() != after.len() {
            return Some((format!("note {:?}: {} links before formatting, {} after — output {:?}", key, before.len(), after.len(), out.chars().take(300).collect::<String>()), false));
        }
        let mut known_only = false;
        for (b, a) in before.iter().zip(after.iter()) {
            let got = observed(a, &dir);
            // the emitted url of a note link carries exactly the configured extension
            if !md::is_external(&a.dest) && a.kind == "regular" {
                let has = a.dest.ends_with(".md");
                // links in table cells are written by a second writer which leaves the url as it was read:
                // the statement allows that (the destination is unchanged); stacking is excluded everywhere
                let in_table = a.holder == "cell";
                if (has != (ext == ".md") && !in_table) || a.dest.ends_with(".md.md") {
                    return Some((format!("note {:?}: link written as {:?} with refs_extension {:?}", key, a.dest, ext), false));
                }
            }
            let want = expected(b, &dir, &titles, false);
            if got == want {
                continue;
            }
            let kwant = expected(b, &dir, &titles, true);
            let what = format!("note {:?} line {}: link {:?} [{}] text {:?} became {:?} [{}] text {:?}; expected (kind, destination, text) = {:?}", key, b.line, b.dest, b.kind, b.text, a.dest, a.kind, a.text, want);
            if allow_known && got == kwant {
                known_only = true;
                continue;
            }
            return Some((what, false));
        }
        if known_only {
            return Some((format!("note {:?}: inline link titled from the root-relative key", key), true));
        }
    }
    None
}

/// directories and notes whose names are prefixes of one another (`d`, `d2`, `dx`, a root note `d`, the same
/// file name in several directories), every note linking to most of the others as block reference:
/// key resolution must compare path components, not strings
fn similar_names_library(r: &mut Rng) -> Vec<(String, String)> {
    let keys = ["d/x", "d2/x", "d", "dx/y", "d/d/x", "x", "d/d2", "v1.2", "v1", "d/2024.01.15", "d/2024.01", "d.e/x", "日本/x", "日本/ü", "заметки/n", "a/日本語/note"];
    // at most 6 notes: the number of outline paths (computed at start-up) grows with the number of reference
    // chains, factorially when every note refers to every other one (finding D35)
    let n = r.range(3, 6);
    let mut chosen: Vec<&str> = keys.to_vec();
    for i in (1..chosen.len()).rev() {
        chosen.swap(i, r.below(i + 1));
    }
    chosen.truncate(n);
    chosen
        .iter()
        .map(|k| {
            let dir = crate::oracle::md::dir_of(k);
            // most notes start with a heading; some with one that has no text (a bare `#`, an image only): the
            // title is then the empty string, and that is what links to the note get
            let mut text = match r.below(8) {
                0 => String::from("plain start\n\n"),
                1 => String::from("#\n\n"),
                2 => String::from("# ![](img/only.png)\n\n"),
                _ => format!("# Title of {}\n\n", k.replace('/', " ")),
            };
            for t in chosen.iter().chain(std::iter::once(&"gone/x")) {
                if r.chance(2, 3) {
                    let url = md::rel_url(t, &dir);
                    // the written text: unrelated, or what the target's title would be in another letter case (a
                    // title is refreshed unless it is *exactly* there already), as block reference and inside a paragraph
                    let would_be = format!("Title of {}", t.replace('/', " "));
                    // … or the title itself under inline markup: the text of the link is then not the title's plain text yet
                    let written = match r.below(7) {
                        0 => would_be.to_uppercase(),
                        1 => would_be.to_lowercase(),
                        2 => format!("*{}*", would_be),
                        3 => would_be.replacen("Title", "**Title**", 1),
                        4 => would_be.replacen("of", "`of`", 1),
                        _ => "old text".to_string(),
                    };
                    if r.chance(1, 3) && dir.is_empty() {
                        text.push_str(&format!("see [{}]({}) in a sentence\n\n", written, url));
                    } else {
                        text.push_str(&format!("[{}]({})\n\n", written, url));
                    }
                }
            }
            (k.to_string(), text)
        })
        .collect()
}

pub fn run(ctx: &Ctx, model: &mut Model, rep: &mut Report) {
    rep.rule = "libraries with arbitrary cross-links (cycles, self-links, sub-directories, missing targets, notes with and without a leading heading, external urls, autolinks, wiki links bare and piped, images), both refs_extension settings; correspondence: byte-exact export of every note, model vs implementation; oracle: every link occurrence before/after export (and LSP formatting): kind kept, destination kept (block references: same resolved key; inline: same url modulo the extension; extension exactly once), text = title of the resolved target when it starts with a heading else kept; non-trivial = ≥1 note link; distinct by text".to_string();
    let parse_lib = |v: &serde_json::Value| -> Vec<(String, String)> { v.as_array().map(|a| a.iter().map(|p| (p[0].as_str().unwrap().to_string(), p[1].as_str().unwrap().to_string())).collect()).unwrap_or_default() };
    if let Some(path) = &ctx.replay {
        let v: serde_json::Value = serde_json::from_str(&std::fs::read_to_string(path).unwrap()).unwrap();
        let lib = parse_lib(&v["library"]);
        rep.evaluations += 1;
        if let Some((what, _)) = crate::act::with_via(crate::act::via_from(&v["via"]), || check_library(&lib, v["ext"].as_str().unwrap_or(""), false)) {
            rep.fail(json!({"kind": "links", "library": lib, "ext": v["ext"], "what": what}));
        }
        return;
    }
    let mut any_open = false;
    for f in known::open(ctx, "C06") {
        let lib = parse_lib(&f.witness["library"]);
        rep.evaluations += 1;
        any_open = true;
        match check_library(&lib, "", false) {
            Some((what, _)) => rep.known_findings.push(json!({"id": f.id, "what": format!("{} — witness still fails: {}", f.what, what.chars().take(300).collect::<String>())})),
            None => rep.resolved_findings.push(json!({"id": f.id, "what": f.what})),
        }
    }
    // corpus: the witnesses of repaired findings run first and must pass
    for f in known::load(ctx, "C06").into_iter().filter(|f| f.status == "fixed") {
        let lib = parse_lib(&f.witness["library"]);
        rep.evaluations += 1;
        rep.count("corpus_fixed_witnesses");
        if let Some((what, _)) = check_library(&lib, f.witness["ext"].as_str().unwrap_or(""), false) {
            rep.fail(json!({"kind": "links", "library": lib, "ext": f.witness["ext"], "what": format!("repaired finding {} is back: {}", f.id, what)}));
        }
    }
    let n = if ctx.thorough { 5000 } else { 1200 };
    for i in 0..n {
        let mut r = Rng::for_case(ctx.seed ^ 0xC06, i as u64);
        let wild = i % 8 == 7;
        let lib = if i % 7 == 3 { similar_names_library(&mut r) } else { c05::gen_library(&mut r, wild) };
        let ext = if i % 2 == 0 { "" } else { ".md" };
        let text = format!("{:?}{}", lib, ext);
        rep.case(&text, text.contains("]("));
        if i < 1 {
            rep.sample(json!({"library": lib, "ext": ext}));
        }
        if !wild {
            let h = History { ext: ext.to_string(), import: lib.clone(), steps: vec![] };
            if let Some(reply) = hist::model_reply_parts(model, &h, &["md", "titles"]) {
                let imp = hist::run_impl(&h, |_, _| {});
                match hist::compare(&reply, &imp, &["md", "titles"]) {
                    Err(e) if e == "unmodelled" => rep.count("corr_skipped_unmodelled_builder_state"),
                    Err(e) => rep.disagree(json!({"op": "graph.history", "what": e, "history": hist::to_json(&h)})),
                    Ok(diffs) => {
                        rep.correspondence_cases += 1;
                        let diffs: Vec<_> = diffs.into_iter().filter(|d| !d.model.contains("unmodelled")).collect();
                        if let Some(d) = diffs.first() {
                            rep.disagree(json!({"op": format!("export part {}", d.part), "model": crate::props::c04::decode(&d.model), "impl": crate::props::c04::decode(&d.imp), "history": hist::to_json(&h)}));
                        }
                    }
                }
            }
        }
        // the LSP formatting route of the oracle loads the library in one of the five ways (C04: same state)
        let via = crate::act::via_for(i as u64);
        match crate::act::with_via(via, || check_library(&lib, ext, wild && any_open)) {
            None => {}
            Some((_, true)) => rep.count("attributed_to_D12"),
            Some((what, false)) => rep.fail(json!({"kind": "links", "library": lib, "ext": ext, "via": format!("{:?}", via), "what": what})),
        }
    }
}
