//! C01 — normalisation never loses or invents note content.
use crate::dump;
use crate::gen::{self, Profile};
use crate::hist::{self, History};
use crate::known;
use crate::oracle::md::{self, Atom};
use crate::{model::Model, report::Report, rng::Rng, Ctx};
use iwes::router::{server::Server, LspClient, ServerConfig};
use liwe::graph::Graph;
use liwe::model::config::{Configuration, MarkdownOptions};
use liwe::model::Key;
use lsp_types::{DocumentFormattingParams, FormattingOptions, TextDocumentIdentifier, Url};
use serde_json::json;
use std::collections::HashMap;

pub fn format_single(key: &str, text: &str, ext: &str) -> Result<String, String> {
    dump::catch(|| {
        let mut st = HashMap::new();
        st.insert(key.to_string(), text.to_string());
        let g = Graph::import(&st, MarkdownOptions { refs_extension: ext.to_string() });
        g.to_markdown(&Key::from_file_name(key))
    })
}

pub fn format_update(key: &str, text: &str, ext: &str) -> Result<String, String> {
    dump::catch(|| {
        let mut g = Graph::new_with_options(MarkdownOptions { refs_extension: ext.to_string() });
        // the replaced version has everything a note can have, front matter included: nothing of it may survive
        g.update_key(Key::from_file_name(key), "---\nold: true\n---\n\n# old\n\nold text\n\n- old item\n\n| old |\n|---|\n| cell |\n");
        g.update_key(Key::from_file_name(key), text);
        g.to_markdown(&Key::from_file_name(key))
    })
}

pub fn server_for(state: &HashMap<String, String>, ext: &str) -> Server {
    crate::act::server_with(state, ext, true)
}

pub fn uri_for(key: &str) -> Url {
    Url::parse(&format!("file:///lib/{}.md", key)).unwrap()
}

pub fn format_lsp(state: &HashMap<String, String>, key: &str, ext: &str) -> Result<String, String> {
    dump::catch(|| {
        let server = server_for(state, ext);
        let edits = server.handle_document_formatting(DocumentFormattingParams {
            text_document: TextDocumentIdentifier { uri: uri_for(key) },
            options: FormattingOptions::default(),
            work_done_progress_params: Default::default(),
        });
        edits[0].new_text.clone()
    })
}

/// `textDocument/formatting` with the options an editor may send along (trim trailing whitespace, final newline
/// handling, another tab size): the answer is the note's normal form, whatever the options say
pub fn format_lsp_with_editor_options(state: &HashMap<String, String>, key: &str, ext: &str) -> Result<String, String> {
    dump::catch(|| {
        let server = server_for(state, ext);
        let edits = server.handle_document_formatting(DocumentFormattingParams {
            text_document: TextDocumentIdentifier { uri: uri_for(key) },
            options: FormattingOptions { tab_size: 8, insert_spaces: false, properties: Default::default(), trim_trailing_whitespace: Some(true), insert_final_newline: Some(true), trim_final_newlines: Some(true) },
            work_done_progress_params: Default::default(),
        });
        edits[0].new_text.clone()
    })
}

fn first_atom_diff(a: &[Atom], b: &[Atom]) -> String {
    for (i, (x, y)) in a.iter().zip(b.iter()).enumerate() {
        if x != y {
            return format!("atom {}: input has {:?} in {:?}, output has {:?} in {:?}", i, x.payload, x.path, y.payload, y.path);
        }
    }
    if a.len() > b.len() {
        format!("output loses {:?} in {:?} (input {} atoms, output {})", a[b.len()].payload, a[b.len()].path, a.len(), b.len())
    } else if b.len() > a.len() {
        format!("output invents {:?} in {:?} (input {} atoms, output {})", b[a.len()].payload, b[a.len()].path, a.len(), b.len())
    } else {
        String::new()
    }
}

/// the property on the implementation for one note (alone, all routes, both extension settings)
pub fn check_doc(key: &str, text: &str) -> Option<String> {
    let dir = crate::oracle::md::dir_of(key);
    let input = md::atoms(text, &dir);
    let mut st = HashMap::new();
    st.insert(key.to_string(), text.to_string());
    for ext in ["", ".md"] {
        let routes: Vec<(&str, Result<String, String>)> = vec![
            ("import+to_markdown", format_single(key, text, ext)),
            ("update_key+to_markdown", format_update(key, text, ext)),
            ("lsp formatting", format_lsp(&st, key, ext)),
        ];
        // the request's formatting options change nothing
        if let (Ok(plain), Ok(with_options)) = (&routes[2].1, format_lsp_with_editor_options(&st, key, ext)) {
            if *plain != with_options {
                return Some(format!("route lsp formatting ext {:?}: with editor options (trimTrailingWhitespace, insertFinalNewline, trimFinalNewlines, tabSize 8) the answer is {:?}, without them {:?}", ext, with_options.chars().take(300).collect::<String>(), plain.chars().take(300).collect::<String>()));
            }
        }
        for (name, out) in routes {
            match out {
                Err(_) => return None, // panics are C03's
                Ok(o) => {
                    let output = md::atoms(&o, &dir);
                    if input != output {
                        return Some(format!("route {} ext {:?}: {} — output {:?}", name, ext, first_atom_diff(&input, &output), o.chars().take(400).collect::<String>()));
                    }
                }
            }
        }
    }
    None
}

/// one case of the shared-lines stream: the library is loaded, `edited` receives `edits` through didChange, then every
/// note is formatted through the LSP and must keep its atoms
fn shared_lines_case(state: &HashMap<String, String>, edited: &str, edits: &[String], ext: &str) -> Option<String> {
    let mut server = server_for(state, ext);
    let mut now = state.clone();
    for t in edits {
        server.handle_did_change_text_document(lsp_types::DidChangeTextDocumentParams {
            text_document: lsp_types::VersionedTextDocumentIdentifier { uri: uri_for(edited), version: 2 },
            content_changes: vec![lsp_types::TextDocumentContentChangeEvent { range: None, range_length: None, text: t.clone() }],
        });
        now.insert(edited.to_string(), t.clone());
    }
    let mut keys: Vec<&String> = state.keys().collect();
    keys.sort();
    for k in keys {
        let edits = server.handle_document_formatting(DocumentFormattingParams {
            text_document: TextDocumentIdentifier { uri: uri_for(k) },
            options: FormattingOptions::default(),
            work_done_progress_params: Default::default(),
        });
        let out = edits.first().map(|e| e.new_text.clone()).unwrap_or_default();
        let dir = crate::oracle::md::dir_of(k);
        let (a, b) = (md::atoms(&now[k], &dir), md::atoms(&out, &dir));
        if a != b {
            return Some(format!("after editing {:?}, formatting {:?}: {} — output {:?}", edited, k, first_atom_diff(&a, &b), out.chars().take(300).collect::<String>()));
        }
    }
    None
}

fn shrink_doc(key: &str, text: &str, bad: impl Fn(&str) -> bool) -> String {
    let mut cur = text.to_string();
    loop {
        let lines: Vec<&str> = cur.lines().collect();
        let mut progressed = false;
        let mut size = (lines.len() / 2).max(1);
        'outer: while size >= 1 {
            let mut i = 0;
            while i + size <= lines.len() {
                let mut ls = lines.clone();
                ls.drain(i..i + size);
                let cand = ls.join("\n") + "\n";
                if cand.len() < cur.len() && bad(&cand) {
                    cur = cand;
                    progressed = true;
                    break 'outer;
                }
                i += 1;
            }
            if size == 1 {
                break;
            }
            size /= 2;
        }
        if !progressed {
            let _ = key;
            return cur;
        }
    }
}

pub fn run(ctx: &Ctx, model: &mut Model, rep: &mut Report) {
    rep.rule = "type-directed Markdown documents (headings ATX/setext, paragraphs with emphasis/code/links/wiki-links/images/autolinks, fenced code, rules, quotes, bullet/ordered lists nested with multi-block items, tables, block references, front-matter; varied markers/numbering/looseness; notes in root and sub-directories) inside the well-formedness class of the _partial theorems; correspondence: content atoms of the model's formatted text vs atoms of the real formatted text; oracle: atoms(input) = atoms(format(input)) for import/update_key/LSP routes and both refs_extension settings, alone and inside a library; non-trivial = ≥2 blocks; distinct by text".to_string();
    if let Some(path) = &ctx.replay {
        let v: serde_json::Value = serde_json::from_str(&std::fs::read_to_string(path).unwrap()).unwrap();
        if let Some(r) = crate::cli::replay(&v) {
            rep.evaluations += 1;
            if let Some(w) = r {
                let mut f = v.clone();
                f["what"] = json!(w);
                rep.fail(f);
            }
            return;
        }
        let (k, t) = (v["key"].as_str().unwrap_or("a"), v["text"].as_str().unwrap_or(""));
        rep.evaluations += 1;
        if v["kind"] == "reader_flat" {
            if let Some(c) = crate::events::compare_flat(model, t) {
                if c.impl_holds == Some(false) {
                    rep.fail(json!({"kind": "reader_flat", "key": k, "text": t, "what": format!("the reader's blocks do not carry exactly the text the parser reported: {}", c.detail)}));
                }
            }
            return;
        }
        if v["kind"] == "content_after_edit_of_another_note" {
            let state: HashMap<String, String> = v["library"].as_object().map(|o| o.iter().map(|(k, t)| (k.clone(), t.as_str().unwrap_or("").to_string())).collect()).unwrap_or_default();
            let edits: Vec<String> = v["edits"].as_array().map(|a| a.iter().map(|e| e.as_str().unwrap_or("").to_string()).collect()).unwrap_or_default();
            let edited = v["edited"].as_str().unwrap_or("a").to_string();
            let ext = v["ext"].as_str().unwrap_or("").to_string();
            if let Ok(Some(what)) = dump::catch(|| crate::act::with_via(crate::act::via_from(&v["via"]), || shared_lines_case(&state, &edited, &edits, &ext))) {
                rep.fail(json!({"kind": "content_after_edit_of_another_note", "library": v["library"], "edited": edited, "edits": edits, "ext": ext, "via": v["via"], "what": what}));
            }
            return;
        }
        if let Some(what) = crate::act::with_via(crate::act::via_from(&v["via"]), || check_doc(k, t)) {
            rep.fail(json!({"kind": "content", "key": k, "text": t, "via": v["via"], "what": what}));
        }
        return;
    }
    for f in known::open(ctx, "C01") {
        let (k, t) = (f.witness["key"].as_str().unwrap_or("a").to_string(), f.witness["text"].as_str().unwrap_or("").to_string());
        rep.evaluations += 1;
        match check_doc(&k, &t) {
            Some(what) => rep.known_findings.push(json!({"id": f.id, "what": format!("{} — witness still fails: {}", f.what, what.chars().take(300).collect::<String>())})),
            None => rep.resolved_findings.push(json!({"id": f.id, "what": f.what})),
        }
    }
    // corpus: the witnesses of repaired findings run first and must pass
    for f in known::load(ctx, "C01").into_iter().filter(|f| f.status == "fixed") {
        let (k, t) = (f.witness["key"].as_str().unwrap_or("a").to_string(), f.witness["text"].as_str().unwrap_or("").to_string());
        rep.evaluations += 1;
        rep.count("corpus_fixed_witnesses");
        if let Some(what) = check_doc(&k, &t) {
            rep.fail(json!({"kind": "content", "key": k, "text": t, "what": format!("repaired finding {} is back: {}", f.id, what)}));
        }
    }
    // hard line breaks.  Finding D8 (open): the reader drops every line break inside a paragraph or heading, the words on
    // either side are glued.  Nothing *else* may happen to such a text: its formatting must be the formatting of the text
    // with the break (and the continuation line's indentation) taken out — a continuation line that looks like a list
    // item, a heading or a quote stays paragraph text, the second line of a setext heading stays in the heading.
    {
        let d8_open = known::is_open(ctx, "C01", "D8");
        let mut texts: Vec<String> = vec![
            "first  \n    - second\n".into(),
            "first\\\n    # second\n".into(),
            "first  \nsecond\n======\n\nbody\n".into(),
            "a  \nb\n".into(),
            "- item one  \n      > not a quote\n- item two\n".into(),
            "> quoted  \n>     1. not a list\n".into(),
        ];
        for i in 0..(if ctx.thorough { 200 } else { 30 }) {
            let mut r = crate::rng::Rng::for_case(ctx.seed ^ 0xC01B, i as u64);
            let w = |r: &mut crate::rng::Rng| r.pick(&["alpha", "beta", "gamma", "über", "x1"]).to_string();
            let brk = if r.chance(1, 2) { "  \n" } else { "\\\n" };
            let indent = r.pick(&["", "    ", "     "]).to_string();
            let lead = r.pick(&["", "- ", "# ", "> ", "1. ", "+ ", "## "]).to_string();
            // without four columns of indentation a marker would end the paragraph: plain continuation only
            let lead = if indent.is_empty() { String::new() } else { lead };
            let pre = r.pick(&["", "- ", "> ", "# intro\n\n"]).to_string();
            let pad = if pre == "- " || pre == "> " { "  " } else { "" };
            texts.push(format!("{}{} {}{}{}{}{}{} {}\n\nafter {}\n", pre, w(&mut r), w(&mut r), brk, if pre == "> " { "> " } else { pad }, indent, lead, w(&mut r), w(&mut r), w(&mut r)));
        }
        for t in &texts {
            rep.evaluations += 1;
            rep.count("hard_break_texts");
            if !d8_open {
                if let Some(what) = check_doc("a", t) {
                    rep.fail(json!({"kind": "content", "key": "a", "text": t, "via": "Import", "what": what}));
                }
                continue;
            }
            // the break and the blanks of the continuation line taken out (inside a quote the `>` of the line too)
            let mut glued = String::new();
            let mut lines = t.split('\n').peekable();
            let mut joining = false;
            let mut quoted = false;
            while let Some(l) = lines.next() {
                let mut l = l.to_string();
                let quoted_line = l.starts_with('>');
                if joining {
                    l = l.trim_start().to_string();
                    if quoted {
                        if let Some(rest) = l.strip_prefix('>') {
                            l = rest.trim_start().to_string();
                        }
                    }
                } else {
                    quoted = quoted_line;
                }
                let hard = l.ends_with("  ") || l.ends_with('\\');
                if hard && lines.peek().is_some() {
                    glued.push_str(l.trim_end_matches(' ').trim_end_matches('\\'));
                    joining = true;
                } else {
                    glued.push_str(&l);
                    if lines.peek().is_some() {
                        glued.push('\n');
                    }
                    joining = false;
                }
            }
            for ext in ["", ".md"] {
                match (format_single("a", t, ext), format_single("a", &glued, ext)) {
                    (Ok(x), Ok(y)) if x == y => {}
                    (Ok(x), Ok(y)) => {
                        rep.fail(json!({"kind": "hard_break", "key": "a", "text": t, "what": format!("a hard line break does more than glue the words around it (finding D8): formatted {:?}, the text without the break formats to {:?}", x, y)}));
                        break;
                    }
                    _ => {}
                }
            }
        }
    }
    // trailing whitespace that is content: code lines ending in spaces / a tab, front matter, a no-break space
    for t in ["```\nfirst line  \nsecond\t\n   \n```\n\nafter\n", "---\ntitle: x  \n---\n\n# T\n\ntext\n", "para ending in a no-break space\u{a0}\n\nnext\n", "- item\n\n  ```\n  code  \n  ```\n", "> ```\n> code  \n> x\t\n> ```\n>\n> quoted paragraph\n"] {
        rep.evaluations += 1;
        rep.count("trailing_whitespace_texts");
        if let Some(what) = check_doc("a", t) {
            rep.fail(json!({"kind": "content", "key": "a", "text": t, "via": "Import", "what": what}));
        }
    }
    let n = if ctx.thorough { 30000 } else { 1500 };
    let keys: Vec<String> = hist::KEY_POOL.iter().map(|s| s.to_string()).collect();
    for i in 0..n {
        let mut r = Rng::for_case(ctx.seed ^ 0xC01, i as u64);
        let key = r.pick(&keys[..]).clone();
        let mut p = hist::profile_for(&keys, &key, true);
        p.max_blocks = if ctx.thorough { 14 } else { 8 };
        // every third document: table cells with inline markup (oracle only: the model renders plain-word tables)
        p.table_markup = i % 3 == 1;
        let text = if i % 97 == 5 { gen::long_ordered_list(&mut r) } else { gen::document(&mut r, &p) };
        // the command-line binary: `iwe normalize` with an edited `.iwe/config.toml` writes exactly the export
        if i % 50 == 7 {
            rep.count("cli_cases");
            rep.evaluations += 1;
            let lib = vec![(key.clone(), text.clone()), ("zz-other".to_string(), "# Other\n\n[back](a)\n".to_string())];
            let case = crate::cli::CliCase { lib: &lib, ext: if i % 100 == 7 { "" } else { ".md" }, sub: if i % 3 == 0 { "" } else { "my notes" }, squash: None, paths_depth: 4, tag: &format!("c01-{}", i) };
            if let Some(w) = crate::cli::check(&case) {
                rep.fail(case.failure(w));
            }
        }
        let nblocks = text.split("\n\n").count();
        rep.case(&text, nblocks >= 2);
        if i < 2 {
            rep.sample(json!({"key": key, "text": text}));
        }
        for feat in [("table", "|--"), ("quote", "> "), ("code", "```"), ("olist", "1"), ("wiki", "[["), ("frontmatter", "---\ntitle"), ("image", "![")] {
            if text.contains(feat.1) {
                rep.count(&format!("has_{}", feat.0));
            }
        }
        // correspondence (every 3rd case in the quick tier): atoms of model output vs atoms of real output
        if ctx.thorough || i % 3 == 0 {
            let h = History { ext: if i % 2 == 0 { "".into() } else { ".md".into() }, import: vec![(key.clone(), text.clone())], steps: vec![] };
            if let Some(reply) = hist::model_reply_parts(model, &h, &["md"]) {
                let dir = crate::oracle::md::dir_of(&key);
                let m = hist::model_md(&reply, 0);
                let real = format_single(&key, &text, &h.ext);
                match (m.first(), real) {
                    (Some((_, Ok(mt))), Ok(rt)) => {
                        rep.correspondence_cases += 1;
                        if md::atoms(mt, &dir) != md::atoms(&rt, &dir) {
                            rep.disagree(json!({"op": "format (content atoms)", "key": key, "text": text, "model": mt, "impl": rt}));
                        }
                    }
                    (Some((_, Err(e))), Ok(_)) if e.contains("unmodelled") => rep.count("corr_skipped_unmodelled"),
                    (Some((_, Err(e))), Ok(rt)) => rep.disagree(json!({"op": "format (outcome)", "key": key, "text": text, "model": e, "impl": rt})),
                    (Some((_, Ok(_))), Err(e)) => rep.disagree(json!({"op": "format (outcome)", "key": key, "text": text, "model": "ok", "impl": format!("panic {}", e)})),
                    _ => rep.count("corr_both_fail_or_no_reply"),
                }
            } else {
                rep.count("corr_skipped_unmodelled_inline_or_reader_panic");
            }
        }
        // the reader keeps the text (theorem `reader_content`): both sides of the equation from the Lean definitions
        // vs the harness' own pass over the real parser's events and the real reader's blocks, and the equation
        // itself on the implementation
        if ctx.thorough || i % 2 == 0 {
            match crate::events::compare_flat(model, &text) {
                None => rep.count("reader_flat_skipped_panic_or_unmodelled"),
                Some(c) => {
                    rep.correspondence_cases += 1;
                    rep.count(&format!("reader_flat_grammar_{}", c.grammar));
                    if !c.model_events_agree {
                        rep.disagree(json!({"op": "Flat.events / htmlTextFree", "key": key, "text": text, "model": c.detail, "impl": "harness' own concatenation of the parser's event texts"}));
                    }
                    if c.model_blocks_agree == Some(false) {
                        rep.disagree(json!({"op": "Flat.blocks ∘ Reader.read", "key": key, "text": text, "model": "flat text of the model reader's blocks", "impl": "flat text of MarkdownReader::document"}));
                    }
                    match c.impl_holds {
                        Some(true) => rep.count("reader_flat_equation_holds"),
                        Some(false) => rep.fail(json!({"kind": "reader_flat", "key": key, "text": text, "what": format!("the reader's blocks do not carry exactly the text the parser reported: {}", c.detail)})),
                        None => rep.count("reader_flat_not_applicable"),
                    }
                }
            }
        }
        let via = crate::act::via_for(i as u64);
        if let Some(what) = crate::act::with_via(via, || check_doc(&key, &text)) {
            rep.fail(json!({"kind": "content", "key": key, "text": text, "via": format!("{:?}", via), "what": what}));
        }
    }
    // inside a library: export of every note keeps its atoms
    let nl = if ctx.thorough { 1500 } else { 100 };
    for i in 0..nl {
        let mut r = Rng::for_case(ctx.seed ^ 0xC01A, i as u64);
        let h = hist::gen_history(&mut r, true, 0);
        let st: HashMap<String, String> = h.import.iter().cloned().collect();
        rep.case(&format!("{:?}", h.import), h.import.len() >= 2);
        let Ok(exported) = dump::catch(|| Graph::import(&st, MarkdownOptions { refs_extension: h.ext.clone() }).export()) else { continue };
        for (k, t) in &h.import {
            let dir = crate::oracle::md::dir_of(k);
            let out = exported.get(&Key::from_file_name(k).to_string()).cloned().unwrap_or_default();
            let (a, b) = (md::atoms(t, &dir), md::atoms(&out, &dir));
            if a != b {
                rep.fail(json!({"kind": "content_in_library", "library": h.import, "ext": h.ext, "key": k, "what": format!("export of {:?}: {}", k, first_atom_diff(&a, &b))}));
                break;
            }
        }
    }
    // libraries whose notes share headings, paragraphs, items, cells and code lines word for word: one note is edited
    // (once or twice), then every note is formatted through the LSP — an edit of one note must not touch what another says
    let ns = if ctx.thorough { 1500 } else { 90 };
    const SHARED: &[&str] = &[
        "# Summary", "## Open questions", "### Summary", "shared paragraph text", "another shared paragraph", "- open question\n- done",
        "- done", "1. first step\n2. second step", "| Summary | amount |\n|---|---|\n| rent | 10 |", "| amount |\n|---|\n| Summary |",
        "> shared paragraph text", "```\ncode line\n```", "[link text](b)", "see [link text](b) and `code line`", "Summary",
    ];
    for i in 0..ns {
        let mut r = Rng::for_case(ctx.seed ^ 0xC01B, i as u64);
        let keys = ["a", "b", "d/c"];
        let mut note = |r: &mut Rng| -> String {
            let n = r.range(2, 6);
            (0..n).map(|_| r.pick(SHARED).to_string()).collect::<Vec<_>>().join("\n\n") + "\n"
        };
        let state: HashMap<String, String> = keys.iter().map(|k| (k.to_string(), note(&mut r))).collect();
        let edited = *r.pick(&keys[..]);
        let edits: Vec<String> = (0..r.range(1, 2)).map(|_| if r.chance(1, 3) { "# Changed\n\nnew text\n".to_string() } else { note(&mut r) }).collect();
        let ext = if i % 2 == 0 { "" } else { ".md" };
        let via = crate::act::via_for(i as u64 / 2);
        rep.case(&format!("{:?}{:?}", state, edits), true);
        rep.count("shared_line_libraries");
        rep.evaluations += 1;
        let edits_v: Vec<String> = edits.clone();
        let verdict = dump::catch(|| crate::act::with_via(via, || shared_lines_case(&state, edited, &edits_v, ext)));
        if let Ok(Some(what)) = verdict {
            rep.fail(json!({"kind": "content_after_edit_of_another_note", "library": state, "edited": edited, "edits": edits, "ext": ext, "via": format!("{:?}", via), "what": what}));
        }
    }
}
