//! C03 — no document can crash, hang or kill the server or CLI.
use crate::act;
use crate::known;
use crate::props::c01;
use crate::{dump, gen, hist, model::Model, report::Report, rng::Rng, Ctx};
use liwe::database::Database;
use liwe::graph::{Graph, GraphContext};
use liwe::model::config::MarkdownOptions;
use liwe::model::Key;
use lsp_types::*;
use serde_json::json;
use std::collections::HashMap;
use std::process::Command;

const SOUP: &[&str] = &[
    "# ", "## ", "- ", "* ", "1. ", "7) ", "> ", "```\n", "```rust\n", "\n", "\n\n", "  ", "    ", "\t", "|", " | ", "|---|\n", "---\n", "***\n", "===\n", "[a](b)", "[a](b.md)", "[[x]]", "[[x|y]]",
    "<div>\n", "</div>\n", " <div>x</div>\n", "<!-- c -->", "text", "word ", "*", "_", "`", "\\", "\r\n", "日本", "é", "😀", "![i](u)", "~~", "$x$", "[^1]", "- [ ] ", ":-:", "<a@b.c>", "&amp;", "[r]: /u\n", "[r]", "+ ",
    "[日本語のノート](日本語のノート)", "[заметка](заметка)", "[[日本語のノート]]", "[[заметка|текст]]", "[x](ÀÉÎÕÜàéî)", "[u](héllo-wörld-ünï)", "[m](MAILTO:a@b)", "[h](HtTp://X.y)", "[t](ht日本tp://x)", "[p](abcde日本語)", "[q](abcdef日本語)",
    "---\nk: v\n---\n", "\u{feff}",
    "   - ", "      ", "> > ", ">- ", "1. - ", "-\n", "- \n", "\u{a0}", "\u{2028}", "http://x.y", "<http://x.y>", "](", ")", "[", "]",
];

pub fn soup(r: &mut Rng, n: usize) -> String {
    (0..n).map(|_| *r.pick(SOUP)).collect()
}

/// known panic sites (message prefixes) and the finding they belong to
/// which known finding a panic belongs to: the panic site *and* the finding's input feature — D21 only when the model
/// reader fails on the same event stream (a `Text` event inside a top-level HTML block), D9 only when some list item
/// starts with a code block, quote, table or rule
fn site_finding(model: &mut Model, text: &str, msg: &str) -> Option<&'static str> {
    // the model decides first, whatever the panic message says (a reworded `panic!` is not a new defect): the model
    // reader fails on the real parser's events = finding D21; the model's section builder answers `sectionBlock` on
    // the real reader's blocks = finding D9; the model builds the note = not a known panic
    if let Some(c) = crate::events::compare_reader(model, text) {
        if c.model_error && c.grammar != "complete" {
            return Some("D21");
        }
    }
    let h = hist::History { ext: String::new(), import: vec![("n".to_string(), text.to_string())], steps: vec![] };
    if let Some(reply) = hist::model_reply_parts(model, &h, &["keys"]) {
        if reply.contains("sectionBlock") {
            return Some("D9");
        }
        if !reply.contains("unmodelled") && !reply.contains("(error") {
            return None;
        }
    }
    // outside the modelled fragment: panic site and input feature
    if msg.contains("section block panic") || msg.contains("[at sections_builder.rs]") {
        let item_starts_with_block = text.lines().any(|l| {
            let t = l.trim_start().trim_start_matches(|c| c == '>' || c == ' ');
            let rest = if let Some(r) = t.strip_prefix(|c| c == '-' || c == '*' || c == '+') {
                Some(r)
            } else {
                let digits = t.chars().take_while(|c| c.is_ascii_digit()).count();
                if digits > 0 && (t[digits..].starts_with('.') || t[digits..].starts_with(')')) { Some(&t[digits + 1..]) } else { None }
            };
            match rest {
                Some(r) if r.starts_with(' ') || r.starts_with('\t') => {
                    let r = r.trim_start();
                    r.starts_with("```") || r.starts_with("~~~") || r.starts_with('>') || r.starts_with('|') || r.starts_with("***") || r.starts_with("---") || r.starts_with("___") || r.starts_with("- - -") || r.starts_with("* * *") || r.starts_with("    ") || r.starts_with('<')
                }
                _ => false,
            }
        });
        // (indented code, HTML and odd nestings reach the same arm: the model's builder decides for those)
        if item_starts_with_block || text.contains('\t') || text.contains("      ") || text.contains('<') {
            Some("D9")
        } else {
            None
        }
    } else if msg.contains("to have element") || msg.contains("[at reader.rs]") {
        match crate::events::compare_reader(model, text) {
            Some(c) if c.model_error && c.grammar != "complete" => Some("D21"),
            _ => None,
        }
    } else {
        None
    }
}

/// everything the property lists, on one note text; returns the first panic message (with the operation)
pub fn exercise(text: &str) -> Option<(String, String)> {
    let key = "n";
    let run = |name: &str, f: &mut dyn FnMut()| -> Option<(String, String)> { dump::catch(|| f()).err().map(|e| (name.to_string(), e)) };
    let mut st: HashMap<String, String> = HashMap::new();
    st.insert(key.to_string(), text.to_string());
    st.insert("other".to_string(), "# Other\n\n[n](n)\n".to_string());
    // a note without a heading (no title) that includes `n`: with a text that includes `bare` or itself, `n` sits in
    // a cycle of block references none of whose notes has a title
    st.insert("bare".to_string(), "[back](n)\n".to_string());
    // a note nobody includes whose only heading has no text: an outline path with an empty search text
    st.insert("solo".to_string(), "#\n\nsolo text\n".to_string());
    // loading
    let mut db_opt: Option<Database> = None;
    if let Some(p) = run("load (Database::new)", &mut || db_opt = Some(Database::new(st.clone(), true, MarkdownOptions::default()))) {
        return Some(p);
    }
    let mut db = db_opt?;
    if let Some(p) = run("edit notification (update_document)", &mut || db.update_document(Key::from_file_name(key), text.to_string())) {
        return Some(p);
    }
    let g: &Graph = db.graph();
    if let Some(p) = run("formatting (to_markdown)", &mut || {
        let _ = g.to_markdown(&Key::from_file_name(key));
    }) {
        return Some(p);
    }
    if let Some(p) = run("export", &mut || {
        let _ = g.export();
    }) {
        return Some(p);
    }
    if let Some(p) = run("paths", &mut || {
        let _ = g.paths();
        let _ = g.search_paths();
    }) {
        return Some(p);
    }
    if let Some(p) = run("search", &mut || {
        let _ = db.global_search("");
        let _ = db.global_search("a");
        let _ = db.global_search("other t");
    }) {
        return Some(p);
    }
    if let Some(p) = run("squash", &mut || {
        let _ = g.squash(&Key::from_file_name(key), 2);
    }) {
        return Some(p);
    }
    // the LSP handlers, every line and a sample of characters
    let mut lib = act::Lib::new();
    for (k, v) in &st {
        lib.insert(k.clone(), v.clone());
    }
    let mut server_opt = None;
    if let Some(p) = run("server start + every note re-sent (didChange / didSave)", &mut || server_opt = Some(act::with_via(act::Via::Touch, || act::server(&lib, "", false)))) {
        return Some(p);
    }
    let server = server_opt?;
    let td = TextDocumentIdentifier { uri: act::uri(key) };
    if let Some(p) = run("inlay hints", &mut || {
        let _ = server.handle_inlay_hints(InlayHintParams { text_document: td.clone(), range: Range::default(), work_done_progress_params: Default::default() });
    }) {
        return Some(p);
    }
    if let Some(p) = run("document symbols", &mut || {
        let _ = server.handle_document_symbols(DocumentSymbolParams { text_document: td.clone(), work_done_progress_params: Default::default(), partial_result_params: Default::default() });
    }) {
        return Some(p);
    }
    if let Some(p) = run("workspace symbols", &mut || {
        let _ = server.handle_workspace_symbols(WorkspaceSymbolParams { query: "a".into(), ..Default::default() });
    }) {
        return Some(p);
    }
    if let Some(p) = run("references", &mut || {
        let _ = server.handle_references(ReferenceParams {
            text_document_position: TextDocumentPositionParams { text_document: td.clone(), position: Position::new(0, 0) },
            work_done_progress_params: Default::default(),
            partial_result_params: Default::default(),
            context: ReferenceContext { include_declaration: false },
        });
    }) {
        return Some(p);
    }
    if let Some(p) = run("formatting request", &mut || {
        let _ = server.handle_document_formatting(DocumentFormattingParams { text_document: td.clone(), options: FormattingOptions::default(), work_done_progress_params: Default::default() });
    }) {
        return Some(p);
    }
    // the notes this one may link to: who refers to them is asked after this note has been re-read (a stale entry of
    // the reference index must not crash the answer)
    for other in ["other", "bare"] {
        let od = TextDocumentIdentifier { uri: act::uri(other) };
        if let Some(p) = run(&format!("inlay hints of {}", other), &mut || {
            let _ = server.handle_inlay_hints(InlayHintParams { text_document: od.clone(), range: Range::default(), work_done_progress_params: Default::default() });
        }) {
            return Some(p);
        }
        if let Some(p) = run(&format!("references to {}", other), &mut || {
            let _ = server.handle_references(ReferenceParams {
                text_document_position: TextDocumentPositionParams { text_document: od.clone(), position: Position::new(0, 0) },
                work_done_progress_params: Default::default(),
                partial_result_params: Default::default(),
                context: ReferenceContext { include_declaration: false },
            });
        }) {
            return Some(p);
        }
    }
    let nlines = text.lines().count() as u32 + 2;
    for line in 0..nlines.min(60) {
        for ch in [0u32, 1, 3, 7, 20, 500] {
            let pos = TextDocumentPositionParams { text_document: td.clone(), position: Position::new(line, ch) };
            if let Some(p) = run(&format!("definition at {}:{}", line, ch), &mut || {
                let _ = server.handle_goto_definition(GotoDefinitionParams { text_document_position_params: pos.clone(), work_done_progress_params: Default::default(), partial_result_params: Default::default() });
            }) {
                return Some(p);
            }
            if let Some(p) = run(&format!("prepare rename at {}:{}", line, ch), &mut || {
                let _ = server.handle_prepare_rename(pos.clone());
            }) {
                return Some(p);
            }
        }
        // code actions are offered without panic; resolving them is C12's (dangling targets etc.), except that it must not abort
        if let Some(p) = run(&format!("code actions at line {}", line), &mut || {
            let _ = server.handle_code_action(&CodeActionParams {
                text_document: td.clone(),
                range: Range::new(Position::new(line, 0), Position::new(line, 0)),
                context: CodeActionContext { diagnostics: vec![], only: None, trigger_kind: None },
                work_done_progress_params: Default::default(),
                partial_result_params: Default::default(),
            });
        }) {
            return Some(p);
        }
    }
    None
}

/// run `exercise` with a deadline (hang detection)
pub fn exercise_with_deadline(text: &str) -> Result<Option<(String, String)>, String> {
    let (tx, rx) = std::sync::mpsc::channel();
    let t = text.to_string();
    std::thread::Builder::new()
        .stack_size(2 * 1024 * 1024)
        .spawn(move || {
            let _ = tx.send(exercise(&t));
        })
        .map_err(|e| e.to_string())?;
    rx.recv_timeout(std::time::Duration::from_secs(45)).map_err(|_| "no answer within 45 s".to_string())
}

/// subprocess probe for sizes that may overflow the stack: `iwe-verif crash-probe <kind> <n>`
/// a library of `n` notes in which note i includes (block reference) every note j > i: an acyclic "index of
/// indexes".  Start-up computes all outline paths, one per chain of references: 2^(n-2) of them end in the last note
pub fn dense_refs_probe(n: usize) {
    let mut st = HashMap::new();
    for i in 0..n {
        let mut t = format!("# Note {}\n\n", i);
        for j in (i + 1)..n {
            t.push_str(&format!("[n](n{})\n\n", j));
        }
        st.insert(format!("n{}", i), t);
    }
    let start = std::time::Instant::now();
    let db = liwe::database::Database::new(st, true, MarkdownOptions::default());
    println!("OK {} paths in {} ms", db.graph().search_paths().len(), start.elapsed().as_millis());
}

pub fn crash_probe(kind: &str, n: usize) {
    if kind == "dense-refs" {
        dense_refs_probe(n);
        return;
    }
    let text = match kind {
        "siblings" => "para\n\n".repeat(n),
        "items" => "- item\n".repeat(n),
        "headings" => "# h\n\n".repeat(n),
        "nested-lists" => (0..n).map(|d| format!("{}- x\n", "  ".repeat(d))).collect::<String>(),
        "nested-quotes" => format!("{} x\n", ">".repeat(n)),
        "long-line" => format!("{}\n", "word ".repeat(n)),
        _ => String::new(),
    };
    let handle = std::thread::Builder::new().stack_size(2 * 1024 * 1024).spawn(move || {
        if kind_is_self_inline(&text) {
            return;
        }
        let r = exercise(&text);
        if let Some((op, msg)) = r {
            println!("PANIC {}: {}", op, msg);
        } else {
            println!("OK");
        }
    });
    let _ = handle.unwrap().join();
}

fn kind_is_self_inline(_t: &str) -> bool {
    false
}

/// "Inline section" on a reference from a note to itself (finding D25), in a subprocess
pub fn crash_probe_self_inline() {
    let handle = std::thread::Builder::new().stack_size(2 * 1024 * 1024).spawn(move || {
        let mut lib = act::Lib::new();
        lib.insert("a".to_string(), "# A\n\n[self](a)\n".to_string());
        let server = act::server(&lib, "", false);
        let r = act::actions_at(&server, "a", 2);
        println!("OK {:?}", r.map(|v| v.len()));
    });
    let _ = handle.unwrap().join();
}

fn probe(kind: &str, n: usize) -> String {
    let exe = std::env::current_exe().unwrap();
    let out = Command::new(exe).args(["crash-probe", kind, &n.to_string()]).output();
    match out {
        Ok(o) => {
            let s = String::from_utf8_lossy(&o.stdout).to_string();
            if o.status.success() {
                if s.starts_with("PANIC") { s.lines().next().unwrap_or("").to_string() } else { "ok".to_string() }
            } else {
                format!("ABORT ({})", o.status)
            }
        }
        Err(e) => format!("cannot run: {}", e),
    }
}

/// a note `t` with exactly `n` block references and `n` inline links pointing at it, all from one note or spread
/// over `n` notes: every query handler on every note
fn count_ladder(n: usize, spread: bool) -> Option<String> {
    let mut lib = act::Lib::new();
    lib.insert("t".to_string(), "# Target\n\ntext\n".to_string());
    let mut one = String::from("# One\n");
    for i in 0..n {
        if spread {
            lib.insert(format!("m{}", i), format!("# Many {}\n\n[t](t)\n\nsee [t](t) here\n", i));
        } else {
            one.push_str(&format!("\n[t](t)\n\nsee [t](t) {}\n", i));
        }
    }
    lib.insert("one".to_string(), one);
    let server = match dump::catch(|| act::server(&lib, "", true)) {
        Ok(s) => s,
        Err(e) => return Some(format!("server start panics with {} references to one note: {}", n, e.chars().take(200).collect::<String>())),
    };
    for k in ["t", "one", "m0"] {
        if !lib.contains_key(k) {
            continue;
        }
        let td = TextDocumentIdentifier { uri: act::uri(k) };
        let r: Vec<(&str, Result<(), String>)> = vec![
            ("inlay hints", dump::catch(|| { server.handle_inlay_hints(InlayHintParams { text_document: td.clone(), range: Range::default(), work_done_progress_params: Default::default() }); })),
            ("references", dump::catch(|| { server.handle_references(ReferenceParams { text_document_position: TextDocumentPositionParams { text_document: td.clone(), position: Position::new(0, 0) }, work_done_progress_params: Default::default(), partial_result_params: Default::default(), context: ReferenceContext { include_declaration: false } }); })),
            ("document symbols", dump::catch(|| { server.handle_document_symbols(DocumentSymbolParams { text_document: td.clone(), work_done_progress_params: Default::default(), partial_result_params: Default::default() }); })),
            ("workspace symbols", dump::catch(|| { server.handle_workspace_symbols(WorkspaceSymbolParams { query: String::new(), ..Default::default() }); })),
            ("formatting", dump::catch(|| { server.handle_document_formatting(DocumentFormattingParams { text_document: td.clone(), options: FormattingOptions::default(), work_done_progress_params: Default::default() }); })),
            ("completion", dump::catch(|| { server.handle_completion(CompletionParams { text_document_position: TextDocumentPositionParams { text_document: td.clone(), position: Position::new(0, 0) }, work_done_progress_params: Default::default(), partial_result_params: Default::default(), context: None }); })),
        ];
        for (what, res) in r {
            if let Err(e) = res {
                return Some(format!("{} on note {:?} panics with exactly {} references to one note: {}", what, k, n, e.chars().take(200).collect::<String>()));
            }
        }
    }
    None
}

pub fn reader_correspondence(model: &mut Model, rep: &mut Report, text: &str) {
    match crate::events::compare_reader(model, text) {
        None => rep.count("reader_corr_skipped_unmodelled_constructor"),
        Some(c) => {
            rep.correspondence_cases += 1;
            rep.count(&format!("reader_grammar_{}", c.grammar));
            if let Some((m, i)) = &c.differ {
                rep.disagree(json!({"op": "reader.read", "text": text, "model": crate::props::c04::decode(m), "impl": crate::props::c04::decode(i)}));
            } else if c.grammar != "complete" {
                // the only stream the grammar excludes on purpose is finding D9 (text inside a top-level HTML block),
                // where model and implementation both fail; anything else contradicts the assumption of `reader_total`
                if c.impl_panic.is_some() && c.model_error {
                    rep.count("reader_grammar_excluded_stream_fails_in_both");
                } else {
                    rep.disagree(json!({"op": "parser grammar (Spec/Events.lean)", "text": text, "model": format!("event stream is not well-formed ({})", c.grammar), "impl": "pulldown-cmark produced it and the reader accepts it"}));
                }
            } else if c.impl_panic.is_some() {
                rep.disagree(json!({"op": "reader_total", "text": text, "model": "grammatical stream", "impl": format!("reader panics: {:?}", c.impl_panic)}));
            }
        }
    }
}

pub fn run(ctx: &Ctx, model: &mut Model, rep: &mut Report) {
    rep.rule = "note texts: (a) type-directed well-formed documents, (b) token soup over 60 Markdown tokens (headings, list markers at odd indents, fences, pipes, HTML, reference definitions, CRLF, tabs, NBSP, U+2028, astral characters, unbalanced brackets), (c) CRLF / non-ASCII / empty / whitespace-only variants; each is loaded, sent as edit, formatted, exported, listed (paths, search, symbols), squashed, and queried through the in-process LSP handlers at every line × 6 character offsets (definition, prepare-rename, code actions, hints, references, symbols, formatting) on a 2 MiB stack with a 20 s deadline; (d) size ladder in subprocesses (siblings, items, headings, nesting depth); correspondence: the model's outcome (ok / panic site) of the builder vs the implementation's on the same reader output; non-trivial = text with ≥2 lines; distinct by text".to_string();
    if let Some(path) = &ctx.replay {
        let v: serde_json::Value = serde_json::from_str(&std::fs::read_to_string(path).unwrap()).unwrap();
        rep.evaluations += 1;
        match exercise_with_deadline(v["text"].as_str().unwrap_or("")) {
            Ok(None) => {}
            Ok(Some((op, msg))) => rep.fail(json!({"kind": "panic", "text": v["text"], "what": format!("{} panics: {}", op, msg)})),
            Err(e) => rep.fail(json!({"kind": "hang", "text": v["text"], "what": e})),
        }
        return;
    }
    let open: Vec<String> = known::open(ctx, "C03").iter().map(|f| f.id.clone()).collect();
    for f in known::open(ctx, "C03") {
        rep.evaluations += 1;
        let still = if let Some(t) = f.witness.get("text").and_then(|t| t.as_str()) {
            match exercise_with_deadline(t) {
                Ok(Some((op, msg))) => Some(format!("{} panics: {}", op, msg.chars().take(120).collect::<String>())),
                Err(e) => Some(e),
                Ok(None) => None,
            }
        } else if let Some(k) = f.witness.get("probe").and_then(|t| t.as_str()) {
            let r = if k == "self-inline" {
                let exe = std::env::current_exe().unwrap();
                match Command::new(exe).args(["crash-probe", "self-inline", "0"]).output() {
                    Ok(o) if o.status.success() => "ok".to_string(),
                    Ok(o) => format!("ABORT ({})", o.status),
                    Err(e) => e.to_string(),
                }
            } else if k == "dense-refs" {
                // finding D35: the number of outline paths computed at start-up doubles with every note of an
                // acyclic index-of-indexes (time and memory follow): decided by the count, not by a clock
                let n = f.witness["n"].as_u64().unwrap_or(14) as usize;
                let exe = std::env::current_exe().unwrap();
                match Command::new(exe).args(["crash-probe", "dense-refs", &n.to_string()]).output() {
                    Ok(o) => {
                        let s = String::from_utf8_lossy(&o.stdout).to_string();
                        let paths = s.split_whitespace().nth(1).and_then(|x| x.parse::<u64>().ok()).unwrap_or(0);
                        if paths >= 1u64 << (n - 1) { format!("{} notes: {} outline paths", n, paths) } else { "ok".to_string() }
                    }
                    Err(e) => e.to_string(),
                }
            } else {
                probe(k, f.witness["n"].as_u64().unwrap_or(1000) as usize)
            };
            if r == "ok" { None } else { Some(r) }
        } else {
            None
        };
        match still {
            Some(w) => rep.known_findings.push(json!({"id": f.id, "what": format!("{} — witness still fails: {}", f.what, w)})),
            None => rep.resolved_findings.push(json!({"id": f.id, "what": f.what})),
        }
    }
    for f in known::load(ctx, "C03").into_iter().filter(|f| f.status == "fixed") {
        if let Some(t) = f.witness.get("text").and_then(|t| t.as_str()) {
            rep.evaluations += 1;
            rep.count("corpus_fixed_witnesses");
            match exercise_with_deadline(t) {
                Ok(None) => {}
                Ok(Some((op, msg))) => rep.fail(json!({"kind": "panic", "text": t, "what": format!("regression of repaired defect {}: {} panics: {}", f.id, op, msg.chars().take(200).collect::<String>())})),
                Err(e) => rep.fail(json!({"kind": "hang", "text": t, "what": e})),
            }
        }
    }
    // link targets: the usual pool (notes that do not exist here) and the two other notes of `exercise`'s library
    let keys: Vec<String> = hist::KEY_POOL.iter().map(|s| s.to_string()).chain(["other", "bare", "other", "bare"].iter().map(|s| s.to_string())).collect();
    let n = if ctx.thorough { 6000 } else { 400 };
    for i in 0..n {
        let mut r = Rng::for_case(ctx.seed ^ 0xC03, i as u64);
        let text = match i % 5 {
            0 => gen::document(&mut r, &hist::profile_for(&keys, "n", true)),
            1 => gen::document(&mut r, &hist::profile_for(&keys, "n", true)).replace('\n', "\r\n"),
            2 | 3 => {
                let len = r.range(1, 40);
                soup(&mut r, len)
            }
            _ => {
                let mut p = hist::profile_for(&keys, "n", false);
                p.max_depth = 5;
                gen::document(&mut r, &p)
            }
        };
        // enough to report (every hang leaves a spinning thread behind and costs a deadline)
        if !ctx.thorough && rep.impl_failures.len() >= 8 {
            break;
        }
        rep.case(&text, text.lines().count() >= 2);
        rep.count(["wf", "crlf", "soup", "soup", "wild"][i % 5]);
        if i == 2 {
            rep.sample(json!({"text": text}));
        }
        // correspondence: does the model's builder fail exactly where the implementation's does?
        if i % 4 == 2 {
            let h = hist::History { ext: String::new(), import: vec![("n".to_string(), text.clone())], steps: vec![] };
            if let Some(reply) = hist::model_reply_parts(model, &h, &["keys"]) {
                let imp = c01::format_single("n", &text, "");
                rep.correspondence_cases += 1;
                let model_fails = reply.contains("(error") && !reply.contains("unmodelled");
                // (the site is compared by source file: messages get reworded)
                let model_site = if reply.contains("sectionBlock") { "[at sections_builder.rs]" } else { "" };
                match (&imp, model_fails) {
                    (Ok(_), true) => rep.disagree(json!({"op": "build outcome", "text": text, "model": reply.chars().take(200).collect::<String>(), "impl": "ok"})),
                    (Err(e), false) if !reply.contains("unmodelled") => rep.disagree(json!({"op": "build outcome", "text": text, "model": "ok", "impl": e})),
                    (Err(e), true) if !e.contains(model_site) => rep.disagree(json!({"op": "panic site", "text": text, "model": reply.chars().take(200).collect::<String>(), "impl": e})),
                    _ => {}
                }
            }
        }
        // correspondence of the reader itself: the model's stack machine on the real parser's events vs
        // `MarkdownReader::document` (blocks, line ranges, front matter, panic site), and the parser-grammar
        // assumption of `reader_total` checked on this event stream
        reader_correspondence(model, rep, &text);
        match exercise_with_deadline(&text) {
            Ok(None) => {}
            Ok(Some((op, msg))) => {
                if let Some(id) = site_finding(model, &text, &msg) {
                    if open.iter().any(|o| o == id) {
                        rep.count(&format!("attributed_to_{}", id));
                        continue;
                    }
                }
                rep.fail(json!({"kind": "panic", "text": text, "what": format!("{} panics: {}", op, msg.chars().take(300).collect::<String>())}));
            }
            Err(e) => rep.fail(json!({"kind": "hang", "text": text, "what": e})),
        }
    }
    for t in ["#\n\ntext\n", "# \n\n## Sub\n", "intro\n\n##\n\n# Title\n\n### \n", "# ![](i.png)\n\n# A\n", "[self](n)\n", "[b](bare)\n", "intro\n\n[self](n)\n\n[b](bare)\n\n[o](other)\n", "- item\n\n  [self](n)\n\n> [b](bare)\n", "---\na: 1\n---\n\ntext\n\n---\nb: 2\n---\n\nmore\n", "---\na: 1\n---\n---\nb: 2\n---\n", "text\n\n---\nb: 2\n---\n\n---\nc: 3\n---\n", "\u{feff}---\na: 1\n---\n\n# T\n\n[x](other)\n", "> ---\n> a: b\n> ---\n", "- x\n\n  ---\n  t: 1\n  ---\n\n  y\n", "para\n\n---\nk: v\n---\n\ntail\n", "", "\n", "   ", "\r\n\r\n", "\u{feff}# bom\n", "---\n", "---\n---\n", "- \n", "> \n", "|\n", "#\n", "[", "]()", "[]()", "![]()", "``", "```", "<", "&#;", "\\", "a\\\nb", "\t- x", "1.\n2.\n"] {
        rep.case(t, false);
        match exercise_with_deadline(t) {
            Ok(None) => {}
            Ok(Some((op, msg))) => {
                if site_finding(model, t, &msg).map(|id| open.iter().any(|o| o == id)).unwrap_or(false) {
                    continue;
                }
                rep.fail(json!({"kind": "panic", "text": t, "what": format!("{} panics: {}", op, msg.chars().take(300).collect::<String>())}));
            }
            Err(e) => rep.fail(json!({"kind": "hang", "text": t, "what": e})),
        }
    }
    // count ladder: exactly n references to one note, around every place where a count is formatted or cut off
    // (one / two digits, the 100-result limit): no handler may panic
    for n in [0usize, 1, 2, 9, 10, 11, 12, 99, 100, 101] {
        rep.evaluations += 1;
        rep.count("count_ladder");
        for spread in [false, true] {
            if let Some(what) = count_ladder(n, spread) {
                rep.fail(json!({"kind": "count", "n": n, "spread": spread, "what": what}));
            }
        }
    }
    // size ladder (subprocesses): below the recorded thresholds of finding D18 nothing may abort
    let d18_open = open.iter().any(|o| o == "D18");
    let ladder: Vec<(&str, usize)> = if ctx.thorough {
        vec![("siblings", 100), ("siblings", 1000), ("siblings", 2000), ("items", 1000), ("items", 2000), ("headings", 1000), ("headings", 2000), ("nested-lists", 10), ("nested-lists", 100), ("nested-lists", 500), ("nested-quotes", 100), ("nested-quotes", 1000), ("long-line", 100000)]
    } else {
        vec![("siblings", 1000), ("items", 1000), ("headings", 1000), ("nested-lists", 100), ("nested-quotes", 100), ("long-line", 20000)]
    };
    for (kind, size) in ladder {
        let r = probe(kind, size);
        rep.evaluations += 1;
        rep.count(&format!("ladder_{}_{}_{}", kind, size, if r == "ok" { "ok" } else { "fails" }));
        if r != "ok" {
            rep.fail(json!({"kind": "size", "probe": kind, "n": size, "what": format!("{} × {}: {}{}", kind, size, r, if d18_open { " (below the size recorded for finding D18)" } else { "" })}));
        }
    }
}
