//! C16 — results do not depend on thread count, load order or hash seeds.
use crate::known;
use crate::props::{c04, c18};
use crate::{dump, hist, model::Model, report::Report, rng::Rng, Ctx};
use liwe::database::Database;
use liwe::model::config::MarkdownOptions;
use liwe::model::Key;
use serde_json::json;
use std::collections::{BTreeMap, HashMap};
use std::process::Command;

/// subprocess entry: `iwe-verif det-dump <library.json> <order seed> <import|insert>`; prints the canonical dump
pub fn det_dump(path: &str, order_seed: u64, mode: &str) {
    let v: serde_json::Value = serde_json::from_str(&std::fs::read_to_string(path).unwrap()).unwrap();
    let mut lib: Vec<(String, String)> = v.as_array().unwrap().iter().map(|p| (p[0].as_str().unwrap().to_string(), p[1].as_str().unwrap().to_string())).collect();
    let mut r = Rng::new(order_seed);
    for i in (1..lib.len()).rev() {
        lib.swap(i, r.below(i + 1));
    }
    let db = if mode == "import" {
        // HashMap built in this order with this process's RandomState
        let mut st: HashMap<String, String> = HashMap::new();
        for (k, t) in &lib {
            st.insert(k.clone(), t.clone());
        }
        Database::new(st, true, MarkdownOptions::default())
    } else {
        let mut db = Database::new(HashMap::new(), true, MarkdownOptions::default());
        for (k, t) in &lib {
            db.insert_document(Key::from_file_name(k), t.clone());
        }
        db
    };
    let texts: BTreeMap<String, String> = lib.iter().map(|(k, t)| (Key::from_file_name(k).to_string(), t.clone())).collect();
    for (name, val) in c04::answers(&db, &texts, c04::QUERIES) {
        println!("## {}\n{}", name, val);
    }
    // what the LSP server shows next to the text: container, counter and reference hints of every note, as returned
    {
        use lsp_types::{InlayHintLabel, InlayHintParams, Range, TextDocumentIdentifier};
        let st: HashMap<String, String> = lib.iter().cloned().collect();
        let server = crate::act::server_with(&st, "", true);
        let mut keys: Vec<&String> = st.keys().collect();
        keys.sort();
        for k in keys {
            let hints = server.handle_inlay_hints(InlayHintParams { text_document: TextDocumentIdentifier { uri: crate::act::uri(k) }, range: Range::default(), work_done_progress_params: Default::default() });
            let labels: Vec<String> = hints.iter().map(|h| format!("{}:{}", h.position.line, match &h.label { InlayHintLabel::String(s) => s.clone(), _ => "?".to_string() })).collect();
            println!("## hints {}\n{}", k, labels.join(" | "));
        }
    }
    let mut exp: Vec<(String, String)> = db.graph().export().into_iter().collect();
    exp.sort();
    println!("## export\n{:?}", exp);
    for (name, val) in c04::ordered_search(&db, c04::QUERIES) {
        println!("## ORDER {}\n{}", name, val);
    }
}

fn run_child(libfile: &str, threads: usize, order: u64, mode: &str) -> Option<(String, String)> {
    let exe = std::env::current_exe().ok()?;
    let out = Command::new(exe).args(["det-dump", libfile, &order.to_string(), mode]).env("RAYON_NUM_THREADS", threads.to_string()).output().ok()?;
    if !out.status.success() {
        return None;
    }
    let s = String::from_utf8_lossy(&out.stdout).to_string();
    let (a, b) = s.split_once("## ORDER").map(|(a, b)| (a.to_string(), format!("## ORDER{}", b))).unwrap_or((s.clone(), String::new()));
    Some((a, b))
}

fn first_diff(a: &str, b: &str) -> String {
    for (x, y) in a.lines().zip(b.lines()) {
        if x != y {
            return format!("{:?} vs {:?}", x.chars().take(200).collect::<String>(), y.chars().take(200).collect::<String>());
        }
    }
    format!("{} vs {} lines", a.lines().count(), b.lines().count())
}

/// the block references of the library form a cycle (feature of finding D40)
pub fn has_block_reference_cycle(lib: &[(String, String)]) -> bool {
    use crate::oracle::md;
    let mut refs: HashMap<String, Vec<String>> = HashMap::new();
    for (k, t) in lib {
        let key = Key::from_file_name(k).to_string();
        let dir = crate::oracle::md::dir_of(k);
        for l in md::read(t, &dir).links {
            if l.block_level {
                refs.entry(key.clone()).or_default().push(md::resolve(&l.dest, &dir));
            }
        }
    }
    // colour DFS
    fn visit(k: &str, refs: &HashMap<String, Vec<String>>, state: &mut HashMap<String, u8>) -> bool {
        match state.get(k) {
            Some(1) => return true,
            Some(2) => return false,
            _ => {}
        }
        state.insert(k.to_string(), 1);
        for t in refs.get(k).cloned().unwrap_or_default() {
            if visit(&t, refs, state) {
                return true;
            }
        }
        state.insert(k.to_string(), 2);
        false
    }
    let mut state = HashMap::new();
    let keys: Vec<String> = refs.keys().cloned().collect();
    keys.iter().any(|k| visit(k, &refs, &mut state))
}

/// finding D40: with a reference cycle the set of outline paths depends on the order in which the notes entered the
/// graph (the node ids decide where the walk cuts the cycle).  For such a library only what D40 does not explain is
/// compared: the same load order and mode under different pool sizes and in different processes must agree.
fn check_cyclic_library(file: &str) -> (Option<String>, u64) {
    let mut runs = 0u64;
    for (order, mode) in [(3u64, "import"), (3, "insert"), (10, "insert")] {
        let Some(base) = run_child(file, 1, order, mode) else { continue };
        runs += 1;
        for t in [1usize, 2, 4, 16] {
            let Some(got) = run_child(file, t, order, mode) else { continue };
            runs += 1;
            if got != base {
                let d = if got.0 != base.0 { first_diff(&base.0, &got.0) } else { first_diff(&base.1, &got.1) };
                return (Some(format!("{} threads, order seed {}, {}: answers differ from the 1-thread run with the same load order: {}", t, order, mode, d)), runs);
            }
        }
    }
    (None, runs)
}

pub fn check_library(lib: &[(String, String)], tag: &str, many: bool, d19_open: bool) -> (Option<String>, u64, bool) {
    let dir = format!("/verif/harness/tmp/c16-{}", std::process::id());
    let _ = std::fs::create_dir_all(&dir);
    let file = format!("{}/{}.json", dir, tag);
    std::fs::write(&file, serde_json::to_string(&lib).unwrap()).unwrap();
    if D40_OPEN.load(std::sync::atomic::Ordering::Relaxed) && has_block_reference_cycle(lib) {
        let (what, runs) = check_cyclic_library(&file);
        let _ = std::fs::remove_file(&file);
        return (what, runs, false);
    }
    let threads: Vec<usize> = if many { vec![1, 2, 3, 4, 8, 16] } else { vec![1, 4, 16] };
    let mut runs = 0u64;
    let mut attributed = false;
    let Some(base) = run_child(&file, 1, 1, "import") else {
        let _ = std::fs::remove_file(&file);
        return (None, 0, false);
    };
    runs += 1;
    let mut what = None;
    'outer: for (ti, t) in threads.iter().enumerate() {
        for mode in ["import", "insert"] {
            let order = (ti as u64) * 7 + 3;
            let Some(got) = run_child(&file, *t, order, mode) else { continue };
            runs += 1;
            if got.0 != base.0 {
                what = Some(format!("{} threads, order seed {}, {}: answers differ from the 1-thread import run: {}", t, order, mode, first_diff(&base.0, &got.0)));
                break 'outer;
            }
            if got.1 != base.1 {
                if mode == "insert" && d19_open && c04::d19_explains(&base.1, &got.1) {
                    attributed = true;
                    continue;
                }
                what = Some(format!("{} threads, order seed {}, {}: ordered search results differ: {}", t, order, mode, first_diff(&base.1, &got.1)));
                break 'outer;
            }
        }
    }
    let _ = std::fs::remove_file(&file);
    (what, runs, attributed)
}

/// layered reference graphs with shared, non-root ancestors: leaves included from several sections of the
/// same middle note and from several middle notes, middle notes included from one or two roots — the
/// walks that collect outline paths reach the same note along several routes, in hash-set order
fn diamond_library(r: &mut Rng) -> Vec<(String, String)> {
    let (nl, nm, nr) = (r.range(1, 3), r.range(1, 3), r.range(1, 2));
    let mut lib = vec![];
    for i in 0..nl {
        lib.push((format!("l{}", i), format!("# Leaf {}\n\n## Part {}\n\ntext\n", i, i)));
    }
    for j in 0..nm {
        let mut t = format!("# Mid {}\n\n", j);
        for (s, name) in ["one", "two", "three"].iter().enumerate().take(r.range(2, 3)) {
            t.push_str(&format!("## Mid {} {}\n\n[x](l{})\n\n", j, name, if s == 0 { 0 } else { r.below(nl) }));
        }
        lib.push((format!("m{}", j), t));
    }
    for k in 0..nr {
        // the first heading of a root may hold a link to another note, with a text of its own
        let mut t = if r.chance(1, 2) { format!("# Root {} about [an old name](l0)\n\n", k) } else { format!("# Root {}\n\n", k) };
        for j in 0..nm {
            t.push_str(&format!("[m](m{})\n\n", j));
        }
        if r.chance(1, 2) {
            t.push_str("## again\n\n[m](m0)\n");
        }
        lib.push((format!("r{}", k), t));
    }
    // every other library: a reference cycle below the roots (the first leaf includes the first middle note back)
    if r.chance(1, 2) {
        lib[0].1.push_str("\n## back\n\n[cycle](m0)\n");
    }
    lib
}

/// a hub: one note with two headings included, by block reference, from 9‥13 other notes (some of them twice, one of them
/// from a sub-section): whatever is kept per included note — counts, "the first few", a representative — comes out of a hash set
fn hub_library(r: &mut Rng) -> Vec<(String, String)> {
    let n = r.range(9, 13);
    let mut lib = vec![("hub".to_string(), "# Hub\n\n## Hub part\n\ntext\n".to_string())];
    for i in 0..n {
        let mut t = format!("# Parent {:02}\n\n[hub](hub)\n", i);
        if r.chance(1, 4) {
            t.push_str(&format!("\n## Parent {:02} again\n\n[hub](hub)\n", i));
        }
        lib.push((format!("p{:02}", i), t));
    }
    lib
}

static D40_OPEN: std::sync::atomic::AtomicBool = std::sync::atomic::AtomicBool::new(false);

pub fn run(ctx: &Ctx, model: &mut Model, rep: &mut Report) {
    rep.rule = "libraries (heading trees with block references, duplicate titles, inline links; and general documents) dumped by separate processes (fresh hash seeds) with RAYON_NUM_THREADS ∈ {1,…,16}, shuffled HashMap build order (import) and shuffled insertion order (insert_document); compared: formatted text and export of every note, titles, backlink sets with places, block at every line, outline paths, search result sets and ordered search results for 4 queries; correspondence: the model's import of the permuted library vs the real graph (arena, keys, paths); non-trivial = ≥2 notes; distinct by library".to_string();
    let parse_lib = |v: &serde_json::Value| -> Vec<(String, String)> { v.as_array().map(|a| a.iter().map(|p| (p[0].as_str().unwrap().to_string(), p[1].as_str().unwrap().to_string())).collect()).unwrap_or_default() };
    let d19_open = known::is_open(ctx, "C16", "D19");
    if let Some(path) = &ctx.replay {
        let v: serde_json::Value = serde_json::from_str(&std::fs::read_to_string(path).unwrap()).unwrap();
        rep.evaluations += 1;
        if let (Some(w), _, _) = check_library(&parse_lib(&v["library"]), "replay", true, false) {
            rep.fail(json!({"kind": "determinism", "library": v["library"], "what": w}));
        }
        return;
    }
    // witnesses are checked with the attribution off
    for f in known::open(ctx, "C16") {
        rep.evaluations += 1;
        match check_library(&parse_lib(&f.witness["library"]), "known", false, false) {
            (Some(w), _, _) => rep.known_findings.push(json!({"id": f.id, "what": format!("{} — witness still fails: {}", f.what, w.chars().take(300).collect::<String>())})),
            _ => rep.resolved_findings.push(json!({"id": f.id, "what": f.what})),
        }
    }
    D40_OPEN.store(known::is_open(ctx, "C16", "D40"), std::sync::atomic::Ordering::Relaxed);
    let n = if ctx.thorough { 150 } else { 30 };
    for i in 0..n {
        let mut r = Rng::for_case(ctx.seed ^ 0xC16, i as u64);
        let lib = match i % 3 {
            0 => c18::gen_library(&mut r, false),
            1 if i % 6 == 4 => hub_library(&mut r),
            1 => diamond_library(&mut r),
            _ => hist::gen_history(&mut r, true, 0).import,
        };
        rep.case(&format!("{:?}", lib), lib.len() >= 2);
        if i < 1 {
            rep.sample(json!({"library": lib}));
        }
        // correspondence: the model imports the library in reversed order — same graph as the real import
        let mut rev = lib.clone();
        rev.reverse();
        let h = hist::History { ext: String::new(), import: rev, steps: vec![] };
        if let Some(reply) = hist::model_reply_parts(model, &h, &["arena", "keys", "paths"]) {
            let real = hist::run_impl(&hist::History { ext: String::new(), import: lib.clone(), steps: vec![] }, |_, _| {});
            match hist::compare(&reply, &real, &["arena", "keys", "paths"]) {
                Ok(d) => {
                    rep.correspondence_cases += 1;
                    if let Some(d) = d.first() {
                        rep.disagree(json!({"op": format!("import of the permuted library, part {}", d.part), "model": d.model, "impl": d.imp, "library": lib}));
                    }
                }
                Err(e) if e == "unmodelled" => rep.count("corr_skipped_unmodelled"),
                Err(e) => rep.disagree(json!({"op": "import", "what": e, "library": lib})),
            }
        }
        let (what, runs, attributed) = check_library(&lib, &format!("{}", i), ctx.thorough, d19_open);
        rep.count_n("subprocess_runs", runs);
        rep.evaluations += runs;
        if attributed {
            rep.count("attributed_to_D19");
        }
        if let Some(w) = what {
            rep.fail(json!({"kind": "determinism", "library": lib, "what": w}));
        }
    }
    let _ = dump::catch(|| ());
}
