//! C18 — symbol search and path listings show every heading and only real ones.
use crate::dump;
use crate::hist::{self, History};
use crate::known;
use crate::oracle::md;
use crate::props::c01;
use crate::{model::Model, report::Report, rng::Rng, Ctx};
use fuzzy_matcher::{skim::SkimMatcherV2, FuzzyMatcher};
use liwe::database::Database;
use liwe::graph::{Graph, GraphContext};
use liwe::model::config::MarkdownOptions;
use liwe::model::Key;
use lsp_types::{DocumentSymbolParams, SymbolKind, TextDocumentIdentifier, WorkspaceSymbolParams, WorkspaceSymbolResponse};
use serde_json::json;
use std::collections::{BTreeMap, HashMap, HashSet};

/// a library of heading trees with block references between notes (DAGs, cycles, duplicates, empty headings)
pub fn gen_library(r: &mut Rng, big: bool) -> Vec<(String, String)> {
    let n = if big { 12 } else { r.range(1, 5) };
    let keys: Vec<String> = (0..n).map(|i| if i % 4 == 3 { format!("d/n{}", i) } else { format!("n{}", i) }).collect();
    let titles = ["Alpha", "Beta", "Alpha", "Gamma delta", "Zeta", "über"];
    keys.iter()
        .enumerate()
        .map(|(i, k)| {
            let dir = crate::oracle::md::dir_of(k);
            let mut text = String::new();
            let nh = if big { r.range(6, 12) } else { r.range(0, 5) };
            let mut level = 0usize;
            for _ in 0..nh {
                // well-nested most of the time
                level = if r.chance(1, 10) { r.range(1, 6) } else { (level + r.below(2)).max(1).min(if r.chance(1, 3) { level + 1 } else { level.max(1) }) };
                let level = level.max(1).min(6);
                let t = if r.chance(1, 12) { "`x`".to_string() } else if r.chance(1, 14) { String::new() } else if r.chance(1, 12) { format!("see [[{}]] and *more* {}", r.pick(&keys[..]).rsplit('/').next().unwrap_or("n0"), r.below(3)) } else { format!("{} {}", r.pick(&titles), r.below(3)) };
                text.push_str(&format!("{} {}\n\n", "#".repeat(level), t));
                match r.below(6) {
                    0 | 1 => {
                        let target = if r.chance(1, 8) { "missing".to_string() } else { r.pick(&keys[..]).clone() };
                        let link = crate::oracle::md::rel_url(&target, &dir);
                        let link = if link.is_empty() { target.clone() } else { link };
                        // blocks of other kinds before the reference, in the same section
                        if r.chance(1, 3) {
                            text.push_str(*r.pick(&["| a |\n|---|\n| b |\n\n", "***\n\n", "```\ncode\n```\n\n", "> quoted\n\n", "- plain item\n\n"][..]));
                        }
                        text.push_str(&format!("[ref]({})\n\n", link));
                    }
                    2 => text.push_str(&format!("para {} with [inline]({}) link\n\n", i, r.pick(&keys[..]))),
                    3 => text.push_str(&format!("- item\n  # heading in item {}\n\n", i)),
                    4 => text.push_str(&format!("> # heading in quote {}\n\n", i)),
                    _ => {}
                }
            }
            if text.is_empty() {
                text = format!("just text {}\n", i);
            }
            (k.clone(), text)
        })
        .collect()
}

#[derive(Clone)]
struct H {
    note: String,
    text: String,
    parent: Option<usize>,
    /// block references that are direct blocks of this heading's section (resolved keys)
    refs: Vec<String>,
}

/// independent computation of the expected path set from the *formatted* texts (well-nested, so the
/// parent of a heading is the nearest previous heading of smaller level)
fn expected_chains(formatted: &BTreeMap<String, String>) -> Vec<String> {
    let mut hs: Vec<H> = vec![];
    let mut top: HashMap<String, Vec<usize>> = HashMap::new();
    let mut referenced: HashSet<String> = HashSet::new();
    for (k, text) in formatted {
        let dir = crate::oracle::md::dir_of(k);
        let rd = md::read(text, &dir);
        // all block-level references anywhere mark their target as referenced
        for l in &rd.links {
            if l.block_level {
                referenced.insert(md::resolve(&l.dest, &dir));
            }
        }
        let mut stack: Vec<(u8, usize)> = vec![];
        let base = hs.len();
        let mut index_of: HashMap<usize, usize> = HashMap::new();
        for (hi, h) in rd.headings.iter().enumerate() {
            if !h.ctx.is_empty() {
                continue;
            }
            while stack.last().map(|(l, _)| *l >= h.level).unwrap_or(false) {
                stack.pop();
            }
            let parent = stack.last().map(|(_, i)| *i);
            hs.push(H { note: k.clone(), text: h.full_text.clone(), parent, refs: vec![] });
            let idx = hs.len() - 1;
            index_of.insert(hi, idx);
            if parent.is_none() {
                top.entry(k.clone()).or_default().push(idx);
            }
            stack.push((h.level, idx));
        }
        let _ = base;
        // direct reference blocks of each top-level-context heading
        for (ctx, h, kind, line) in &rd.blocks {
            if !ctx.is_empty() || kind != "para" {
                continue;
            }
            if let (Some(hi), Some(l)) = (h, rd.links.iter().find(|l| l.line == *line && l.block_level)) {
                if let Some(idx) = index_of.get(hi) {
                    hs[*idx].refs.push(md::resolve(&l.dest, &dir));
                }
            }
        }
    }
    let children: Vec<Vec<usize>> = (0..hs.len()).map(|i| (0..hs.len()).filter(|j| hs[*j].parent == Some(i)).collect()).collect();
    let mut out = vec![];
    fn walk(i: usize, path: &mut Vec<usize>, hs: &Vec<H>, children: &Vec<Vec<usize>>, top: &HashMap<String, Vec<usize>>, visited_docs: &mut Vec<String>, out: &mut Vec<String>) {
        if path.contains(&i) {
            return;
        }
        path.push(i);
        out.push(path.iter().map(|j| format!("{}:{}", hs[*j].note, hs[*j].text)).collect::<Vec<_>>().join(" > "));
        for c in &children[i] {
            walk(*c, path, hs, children, top, visited_docs, out);
        }
        for k in &hs[i].refs {
            if visited_docs.contains(k) {
                continue;
            }
            visited_docs.push(k.clone());
            for t in top.get(k).cloned().unwrap_or_default() {
                walk(t, path, hs, children, top, visited_docs, out);
            }
            visited_docs.pop();
        }
        path.pop();
    }
    for (k, tops) in &top {
        if referenced.contains(k) {
            continue;
        }
        for t in tops {
            let mut visited = vec![k.clone()];
            walk(*t, &mut vec![], &hs, &children, &top, &mut visited, &mut out);
        }
    }
    out.sort();
    out.dedup();
    out
}

fn real_chains(g: &Graph) -> Vec<String> {
    let mut out: Vec<String> = g
        .paths()
        .iter()
        .map(|p| p.ids().iter().map(|id| format!("{}:{}", g.key_of(*id), g.get_text(*id).split_whitespace().collect::<Vec<_>>().join(" "))).collect::<Vec<_>>().join(" > "))
        .collect();
    out.sort();
    out.dedup();
    out
}

/// the outline the editor shows for a note (`textDocument/documentSymbol`) is about that note: it does not change when
/// the library grows by notes that neither include it nor are included by it (150 extra outline paths with one-letter
/// headings, which outrank everything in the search order)
pub fn document_symbols_ignore_unrelated_notes(lib: &[(String, String)]) -> Option<String> {
    let symbols = |st: &HashMap<String, String>, key: &str| -> Option<Vec<String>> {
        let server = dump::catch(|| crate::act::with_via(crate::act::Via::Import, || c01::server_for(st, ""))).ok()?;
        let syms = dump::catch(|| {
            server.handle_document_symbols(DocumentSymbolParams { text_document: TextDocumentIdentifier { uri: c01::uri_for(key) }, work_done_progress_params: Default::default(), partial_result_params: Default::default() })
        })
        .ok()?;
        Some(syms.iter().map(|s| format!("{}|{}|{}", s.name, s.location.uri, s.location.range.start.line)).collect())
    };
    let small: HashMap<String, String> = lib.iter().cloned().collect();
    let mut big = small.clone();
    for i in 0..50 {
        big.insert(format!("zzpad/p{:02}", i), "# x\n\n## y\n\n### z\n".to_string());
    }
    for (k, _) in lib {
        let (a, b) = (symbols(&small, k)?, symbols(&big, k)?);
        if a != b {
            let lost: Vec<&String> = a.iter().filter(|x| !b.contains(x)).take(3).collect();
            return Some(format!("document symbols of {:?}: {} entries, {} after 50 unrelated notes were added to the library; lost {:?}", k, a.len(), b.len(), lost));
        }
    }
    None
}

pub fn check_library(lib: &[(String, String)]) -> Option<String> {
    let st: HashMap<String, String> = lib.iter().cloned().collect();
    let db = dump::catch(|| crate::act::database_with(&st, "", true)).ok()?;
    let g = db.graph();
    let formatted: BTreeMap<String, String> = g.keys().iter().map(|k| (k.to_string(), g.to_markdown(k))).collect();
    let want = expected_chains(&formatted);
    let got = real_chains(g);
    if want != got {
        let missing: Vec<&String> = want.iter().filter(|w| !got.contains(w)).take(3).collect();
        let extra: Vec<&String> = got.iter().filter(|w| !want.contains(w)).take(3).collect();
        return Some(format!("outline paths differ from the scan of the notes: missing {:?}; not real {:?} ({} listed, {} expected)", missing, extra, got.len(), want.len()));
    }
    // full completeness: every heading outside lists and quotes, of every note, ends some listed path
    for (k, text) in &formatted {
        let dir = crate::oracle::md::dir_of(k);
        for h in md::read(text, &dir).headings.iter().filter(|h| h.ctx.is_empty()) {
            let tail = format!("{}:{}", k, h.full_text);
            if !got.iter().any(|c| c == &tail || c.ends_with(&format!(" > {}", tail))) {
                return Some(format!("heading {:?} of note {:?} is the end of no listed path", h.full_text, k));
            }
        }
    }
    // search: ≤ 100 entries, documented order, names are the heading texts of the chain
    let server = c01::server_for(&st, "");
    for q in ["", "alpha", "be 1", "zzz"] {
        let res = dump::catch(|| server.handle_workspace_symbols(WorkspaceSymbolParams { query: q.to_string(), ..Default::default() })).ok()?;
        let WorkspaceSymbolResponse::Flat(syms) = res else { return Some("symbols: unexpected response shape".into()) };
        if syms.len() > 100 {
            return Some(format!("query {:?}: {} symbols (> 100)", q, syms.len()));
        }
        let sp = g.search_paths();
        let m = SkimMatcherV2::default();
        // expected order, independently: stable sort of search_paths by the documented comparator
        let mut idx: Vec<usize> = (0..sp.len()).collect();
        let score = |i: usize| m.fuzzy_match(&sp[i].search_text, q).unwrap_or(0);
        if q.is_empty() {
            idx.sort_by(|a, b| sp[*b].node_rank.cmp(&sp[*a].node_rank).then(sp[*a].search_text.len().cmp(&sp[*b].search_text.len())));
        } else {
            idx.sort_by(|a, b| score(*b).cmp(&score(*a)).then(sp[*a].search_text.len().cmp(&sp[*b].search_text.len())).then(sp[*b].node_rank.cmp(&sp[*a].node_rank)));
        }
        let want_names: Vec<String> = idx
            .iter()
            .take(100)
            .map(|i| sp[*i].path.ids().iter().map(|id| g.get_text(*id).trim().to_string()).collect::<Vec<_>>().join(" • "))
            .filter(|n| !n.is_empty())
            .collect();
        let got_names: Vec<String> = syms.iter().map(|s| s.name.clone()).collect();
        if want_names != got_names {
            return Some(format!("query {:?}: symbol names/order differ: got {:?}, expected {:?}", q, got_names.iter().take(6).collect::<Vec<_>>(), want_names.iter().take(6).collect::<Vec<_>>()));
        }
        if q.is_empty() {
            // most-referenced notes first
            let ranks: Vec<usize> = idx.iter().take(100).map(|i| sp[*i].node_rank).collect();
            if ranks.windows(2).any(|w| w[0] < w[1]) {
                return Some("empty query: results not ordered by reference count".into());
            }
        }
        for s in &syms {
            if s.kind != SymbolKind::NAMESPACE && s.kind != SymbolKind::OBJECT {
                return Some("symbol kind".into());
            }
        }
    }
    None
}

fn has_reference_cycle_without_root(lib: &[(String, String)]) -> bool {
    // feature of finding D17: some note with headings is not reachable from any unreferenced note
    let st: HashMap<String, String> = lib.iter().cloned().collect();
    let mut refs: HashMap<String, Vec<String>> = HashMap::new();
    let mut referenced: HashSet<String> = HashSet::new();
    for (k, t) in &st {
        let dir = crate::oracle::md::dir_of(k);
        for l in md::read(t, &dir).links {
            if l.block_level {
                let target = md::resolve(&l.dest, &dir);
                refs.entry(k.clone()).or_default().push(target.clone());
                referenced.insert(target);
            }
        }
    }
    let mut reach: HashSet<String> = st.keys().filter(|k| !referenced.contains(*k)).cloned().collect();
    let mut work: Vec<String> = reach.iter().cloned().collect();
    while let Some(k) = work.pop() {
        for t in refs.get(&k).cloned().unwrap_or_default() {
            if reach.insert(t.clone()) {
                work.push(t);
            }
        }
    }
    st.keys().any(|k| !reach.contains(k))
}

/// symbol handlers: the model's `Symbols.documentSymbols` of every note and `Symbols.workspaceSymbols` of the empty query on
/// the last state of a history vs `handle_document_symbols` / `handle_workspace_symbols` of a server that went through the
/// same history (name, kind, addressed note, line, in order); the shape of every range (one whole line) is judged here
fn symbols_correspondence(model: &mut Model, rep: &mut Report, h: &History) {
    let t0 = std::time::Instant::now();
    let Some(reply) = hist::model_reply_parts(model, h, &["symbols"]) else { return };
    rep.count_n("symbols_model_ms", t0.elapsed().as_millis() as u64);
    let states = dump::children(&reply);
    let Some(last) = states.last() else { return };
    let parts = dump::children(last);
    let Some(ms) = parts.iter().find(|p| p.starts_with("(symbols")) else {
        rep.count("symbols_corr_skipped_model_error_or_unmodelled");
        return;
    };
    if ms.contains("skipped") {
        rep.count("symbols_corr_skipped_model_error_or_unmodelled");
        return;
    }
    let mut keys: Vec<String> = h.import.iter().chain(h.steps.iter()).map(|(k, _)| Key::from_file_name(k).to_string()).collect();
    keys.sort();
    keys.dedup();
    let mut bad_range: Option<String> = None;
    let real = dump::catch(|| {
        crate::act::with_via(crate::act::Via::Import, || {
            let state: HashMap<String, String> = h.import.iter().cloned().collect();
            let mut server = c01::server_for(&state, &h.ext);
            for (k, t) in &h.steps {
                server.handle_did_change_text_document(lsp_types::DidChangeTextDocumentParams {
                    text_document: lsp_types::VersionedTextDocumentIdentifier { uri: c01::uri_for(k), version: 2 },
                    content_changes: vec![lsp_types::TextDocumentContentChangeEvent { range: None, range_length: None, text: t.clone() }],
                });
            }
            let mut bad: Option<String> = None;
            let mut sym = |s: &lsp_types::SymbolInformation| -> String {
                let key = keys.iter().find(|k| c01::uri_for(k) == s.location.uri).cloned().unwrap_or_else(|| format!("?{}", s.location.uri));
                let r = s.location.range;
                if r.start.character != 0 || r.end.character != 0 || r.end.line != r.start.line + 1 {
                    bad = Some(format!("symbol {:?}: range {:?} is not one whole line", s.name, r));
                }
                format!(" ({} {} {} {})", crate::sexp::hex(&s.name), if s.kind == SymbolKind::NAMESPACE { "ns" } else { "obj" }, crate::sexp::hex(&key), r.start.line)
            };
            let ws = match server.handle_workspace_symbols(WorkspaceSymbolParams { query: String::new(), work_done_progress_params: Default::default(), partial_result_params: Default::default() }) {
                WorkspaceSymbolResponse::Flat(v) => v,
                _ => vec![],
            };
            let mut out = format!("(symbols (workspace{})", ws.iter().map(|s| sym(s)).collect::<String>());
            for k in &keys {
                let ds = server.handle_document_symbols(DocumentSymbolParams { text_document: TextDocumentIdentifier { uri: c01::uri_for(k) }, work_done_progress_params: Default::default(), partial_result_params: Default::default() });
                out.push_str(&format!(" ({}{})", crate::sexp::hex(k), ds.iter().map(|s| sym(s)).collect::<String>()));
            }
            out.push(')');
            (out, bad)
        })
    });
    let Ok((real, bad)) = real else {
        rep.count("symbols_corr_skipped_impl_panic");
        return;
    };
    bad_range = bad_range.or(bad);
    rep.correspondence_cases += 1;
    rep.count("symbols_corr_cases");
    if real.matches(" obj ").count() + real.matches(" ns ").count() > 0 {
        rep.count("symbols_corr_cases_with_symbols");
    }
    if let Some(w) = bad_range {
        rep.fail(json!({"kind": "symbol_range", "history": hist::to_json(h), "what": w}));
    }
    if **ms != real {
        let decode = |s: &str| -> Vec<String> { dump::children(s)[1..].iter().map(|e| crate::props::c04::decode(e)).collect() };
        let (dm, di) = (decode(ms), decode(&real));
        let first = dm.iter().zip(di.iter()).find(|(a, b)| a != b).map(|(a, b)| (a.clone(), b.clone())).unwrap_or_default();
        rep.disagree(json!({"op": "Symbols.documentSymbols / workspaceSymbols (last state of graph.history)", "model": first.0.chars().take(600).collect::<String>(), "impl": first.1.chars().take(600).collect::<String>(), "history": hist::to_json(h)}));
    }
}

/// `iwe contents` and `iwe paths --depth d` vs `Cli.contentsOutput` / `Cli.pathsOutput` on the imported library
fn cli_correspondence(model: &mut Model, rep: &mut Report, case: &crate::cli::CliCase) {
    // a heading text with a line break in it would be printed on two lines: compared through the library API only
    let h = History { ext: case.ext.to_string(), import: case.lib.to_vec(), steps: vec![] };
    let Some(reply) = hist::model_reply_parts(model, &h, &["cli"]) else { return };
    let states = dump::children(&reply);
    let Some(last) = states.last() else { return };
    let parts = dump::children(last);
    let Some(mc) = parts.iter().find(|p| p.starts_with("(cli")) else {
        rep.count("cli_corr_skipped_model_error_or_unmodelled");
        return;
    };
    if mc.contains("skipped") {
        rep.count("cli_corr_skipped_model_error_or_unmodelled");
        return;
    }
    let Some(Ok((contents, paths))) = crate::cli::outputs(case) else {
        rep.count("cli_corr_skipped_binary_failed");
        return;
    };
    let entries = dump::children(mc);
    let lines_of = |e: &str, skip: usize| -> Vec<String> { dump::children(e)[skip..].iter().map(|x| crate::sexp::unhex(x).unwrap_or_default()).collect() };
    let m_contents = entries.iter().find(|e| e.starts_with("(contents")).map(|e| lines_of(e, 1)).unwrap_or_default();
    let want = format!("(paths {} ", case.paths_depth);
    let want_empty = format!("(paths {})", case.paths_depth);
    let m_paths = entries.iter().find(|e| e.starts_with(&want) || **e == want_empty).map(|e| lines_of(e, 2)).unwrap_or_default();
    if m_contents.iter().chain(m_paths.iter()).any(|l| l.contains('\n')) {
        rep.count("cli_corr_skipped_multiline_heading");
        return;
    }
    rep.correspondence_cases += 1;
    rep.count("cli_corr_cases");
    if m_contents != contents {
        rep.disagree(json!({"op": "Cli.contentsOutput vs `iwe contents`", "model": m_contents.iter().take(8).collect::<Vec<_>>(), "impl": contents.iter().take(8).collect::<Vec<_>>(), "library": case.lib, "ext": case.ext}));
    } else if m_paths != paths {
        rep.disagree(json!({"op": format!("Cli.pathsOutput vs `iwe paths --depth {}`", case.paths_depth), "model": m_paths.iter().take(8).collect::<Vec<_>>(), "impl": paths.iter().take(8).collect::<Vec<_>>(), "library": case.lib, "ext": case.ext}));
    }
}

pub fn run(ctx: &Ctx, model: &mut Model, rep: &mut Report) {
    rep.rule = "libraries of heading trees (well-nested and not, duplicate and code-only titles, headings inside lists and quotes) with block references forming DAGs and cycles, dangling targets, sub-directories, >100 headings in the big cases; edit histories; correspondence: model outline paths + search paths (text, rank, key, root, line) vs the real ones after every step, and the order/truncation of global_search for 4 queries with the real fuzzy scores as input; oracle: listed paths = chains found by an independent scan of the formatted notes (sound + complete for notes reachable from an unreferenced note), ≤100 results, documented order, names = heading texts; non-trivial = ≥2 headings; distinct by text".to_string();
    if let Some(path) = &ctx.replay {
        let v: serde_json::Value = serde_json::from_str(&std::fs::read_to_string(path).unwrap()).unwrap();
        if let Some(r) = crate::cli::replay(&v) {
            rep.evaluations += 1;
            if let Some(w) = r {
                let mut f = v.clone();
                f["what"] = json!(w);
                rep.fail(f);
            }
            return;
        }
        let lib: Vec<(String, String)> = v["library"].as_array().unwrap().iter().map(|p| (p[0].as_str().unwrap().to_string(), p[1].as_str().unwrap().to_string())).collect();
        rep.evaluations += 1;
        if v["kind"] == "document_symbols_padding" {
            if let Some(what) = document_symbols_ignore_unrelated_notes(&lib) {
                rep.fail(json!({"kind": "document_symbols_padding", "library": lib, "what": what}));
            }
            return;
        }
        if v["kind"] == "search_panics" {
            let st: HashMap<String, String> = lib.iter().cloned().collect();
            if let Ok(db) = dump::catch(|| Database::new(st.clone(), true, MarkdownOptions::default())) {
                for q in ["", "alpha", "a 1"] {
                    if let Err(e) = dump::catch(|| db.global_search(q)) {
                        rep.fail(json!({"kind": "search_panics", "library": lib, "what": format!("global_search({:?}) panics: {}", q, e.chars().take(200).collect::<String>())}));
                        break;
                    }
                }
            }
            return;
        }
        if let Some(what) = crate::act::with_via(crate::act::via_from(&v["via"]), || check_library(&lib)) {
            rep.fail(json!({"kind": "paths", "library": lib, "via": v["via"], "what": what}));
        }
        return;
    }
    for f in known::open(ctx, "C18") {
        let lib: Vec<(String, String)> = f.witness["library"].as_array().map(|a| a.iter().map(|p| (p[0].as_str().unwrap().to_string(), p[1].as_str().unwrap().to_string())).collect()).unwrap_or_default();
        rep.evaluations += 1;
        match check_library(&lib) {
            Some(what) => rep.known_findings.push(json!({"id": f.id, "what": format!("{} — witness still fails: {}", f.what, what.chars().take(300).collect::<String>())})),
            None => rep.resolved_findings.push(json!({"id": f.id, "what": f.what})),
        }
    }
    let d17_open = known::is_open(ctx, "C18", "D17");
    let n = if ctx.thorough { 3000 } else { 500 };
    for i in 0..n {
        let mut r = Rng::for_case(ctx.seed ^ 0xC18, i as u64);
        let big = i % 40 == 7;
        let lib = gen_library(&mut r, big);
        let text = format!("{:?}", lib);
        rep.case(&text, text.matches('#').count() >= 2);
        if i < 1 {
            rep.sample(json!({"library": lib}));
        }
        // correspondence on paths + spaths after import and after two edits
        let mut h = History { ext: String::new(), import: lib.clone(), steps: vec![] };
        if lib.len() > 1 && lib.len() < 8 {
            let extra = gen_library(&mut r, false);
            h.steps.push((lib[0].0.clone(), extra[0].1.clone()));
            h.steps.push((lib[lib.len() - 1].0.clone(), "# solo\n".to_string()));
        }
        // the list-based model is cubic in the arena size: libraries with > 100 headings are checked by the oracle only
        if big {
            rep.count("big_library_oracle_only");
        } else if let Some(reply) = hist::model_reply_parts(model, &h, &["paths", "spaths"]) {
            let imp = hist::run_impl(&h, |_, _| {});
            match hist::compare(&reply, &imp, &["paths", "spaths"]) {
                Err(e) if e == "unmodelled" => rep.count("corr_skipped_unmodelled_builder_state"),
                Err(e) => rep.disagree(json!({"op": "graph.history", "what": e, "history": hist::to_json(&h)})),
                Ok(diffs) => {
                    rep.correspondence_cases += 1;
                    if let Some(d) = diffs.first() {
                        rep.disagree(json!({"op": format!("graph.history part {} at step {}", d.part, d.step), "model": crate::props::c04::decode(&d.model), "impl": crate::props::c04::decode(&d.imp), "history": hist::to_json(&h)}));
                    }
                }
            }
        }
        if !big && lib.len() < 8 {
            symbols_correspondence(model, rep, &h);
        }
        if i % 10 == 3 && lib.len() <= 6 {
            rep.count("document_symbol_padding_cases");
            if let Some(what) = document_symbols_ignore_unrelated_notes(&lib) {
                rep.fail(json!({"kind": "document_symbols_padding", "library": lib, "what": what}));
            }
        }
        // search order correspondence: real scores in, order out
        let st: HashMap<String, String> = lib.iter().cloned().collect();
        if let Ok(db) = dump::catch(|| Database::new(st.clone(), true, MarkdownOptions::default())) {
            let sp = db.graph().search_paths();
            let m = SkimMatcherV2::default();
            for q in ["", "alpha", "a 1"] {
                let entries: Vec<String> = sp.iter().map(|p| format!("(e {} {} {})", p.node_rank, p.search_text.len(), m.fuzzy_match(&p.search_text, q).unwrap_or(0).max(0))).collect();
                let reply = model.call(&format!("(search.sort {} {})", q.is_empty(), entries.join(" ")));
                let order: Vec<usize> = dump::children(&reply).iter().skip(1).filter_map(|s| s.parse().ok()).collect();
                let real: Vec<String> = match dump::catch(|| db.global_search(q)) {
                    Ok(r) => r.iter().map(|s| format!("{}|{}|{:?}", s.key, s.search_text, s.path.ids())).collect(),
                    Err(e) => {
                        rep.fail(json!({"kind": "search_panics", "library": lib, "what": format!("global_search({:?}) panics: {}", q, e.chars().take(200).collect::<String>())}));
                        break;
                    }
                };
                let model_order: Vec<String> = order.iter().map(|i| format!("{}|{}|{:?}", sp[*i].key, sp[*i].search_text, sp[*i].path.ids())).collect();
                rep.correspondence_cases += 1;
                if real != model_order {
                    rep.disagree(json!({"op": format!("global_search({:?}) order", q), "model": model_order.iter().take(5).collect::<Vec<_>>(), "impl": real.iter().take(5).collect::<Vec<_>>(), "library": lib}));
                    break;
                }
            }
        }
        // every edit recomputes all outline paths: the big libraries are loaded in one go
        // the command-line binary on the same library: `iwe paths`, `iwe contents`, `iwe normalize` vs the graph
        if i % 8 == 2 && lib.len() <= 8 {
            rep.count("cli_cases");
            rep.evaluations += 1;
            let case = crate::cli::CliCase { lib: &lib, ext: if i % 16 == 2 { "" } else { ".md" }, sub: if i % 3 == 0 { "" } else { "notes" }, squash: None, paths_depth: (2 + i % 4) as u8, tag: &format!("c18-{}", i) };
            if let Some(w) = crate::cli::check(&case) {
                rep.fail(case.failure(w));
            }
            // … and against the model of `paths_command` / `contents_command` (Model/Cli.lean)
            if !big {
                cli_correspondence(model, rep, &case);
            }
        }
        let via = if lib.len() > 8 || lib.iter().map(|(_, t)| t.len()).sum::<usize>() > 4000 { crate::act::Via::Import } else { crate::act::via_for(i as u64) };
        rep.count(&format!("loaded_via_{:?}", via));
        if let Some(what) = crate::act::with_via(via, || check_library(&lib)) {
            if d17_open && has_reference_cycle_without_root(&lib) && what.contains("is the end of no listed path") {
                rep.count("attributed_to_D17");
                continue;
            }
            rep.fail(json!({"kind": "paths", "library": lib, "via": format!("{:?}", via), "what": what}));
        }
    }
}
