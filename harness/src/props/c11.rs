//! C11 — no edit notification is lost, whatever requests are in flight; and
//! C12 (router part) — every request gets exactly one response.
use crate::known;
use crate::sched::{self, Act, Msg, Outcome};
use crate::{dump, model::Model, report::Report, rng::Rng, Ctx};
use serde_json::json;
use std::collections::HashMap;

/// a burst: while a first request is still being worked on, edits of one note with requests between them are all
/// sent before anything advances (they queue up behind the waiting message loop), then the workers run in a
/// random order — every request between two edits must see exactly the edits sent before it
pub fn gen_burst(r: &mut Rng) -> (usize, Vec<Act>) {
    let notes = r.range(1, 2);
    let n = r.below(notes);
    let mut acts = vec![Act::Send(Msg::Req { id: 1, note: r.below(notes), outcome: Outcome::Ok })];
    if r.chance(1, 2) {
        acts.push(Act::Advance(1));
    }
    let mut id = 1;
    let mut ver = 0;
    let mut reqs = vec![1u32];
    for _ in 0..r.range(2, 3) {
        ver += 1;
        acts.push(Act::Send(Msg::Notif { note: n, ver }));
        if r.chance(3, 4) {
            id += 1;
            reqs.push(id);
            acts.push(Act::Send(Msg::Req { id, note: n, outcome: Outcome::Ok }));
        }
    }
    let mut left: Vec<(u32, u32)> = reqs.iter().map(|i| (*i, 3)).collect();
    while left.iter().any(|a| a.1 > 0) && acts.len() < 40 {
        let can: Vec<usize> = left.iter().enumerate().filter(|(_, a)| a.1 > 0).map(|(i, _)| i).collect();
        let i = *r.pick(&can[..]);
        left[i].1 -= 1;
        acts.push(Act::Advance(left[i].0));
    }
    (notes, acts)
}

pub fn gen_schedule(r: &mut Rng, with_panics: bool) -> (usize, Vec<Act>) {
    if !with_panics && r.chance(1, 4) {
        return gen_burst(r);
    }
    let notes = r.range(1, 2);
    let nreq = r.range(1, 4);
    let nnot = r.range(1, 3);
    let mut msgs: Vec<Msg> = vec![];
    let (mut id, mut ver) = (0u32, 0u32);
    let mut kinds: Vec<bool> = (0..nreq).map(|_| true).chain((0..nnot).map(|_| false)).collect();
    for i in (1..kinds.len()).rev() {
        kinds.swap(i, r.below(i + 1));
    }
    for k in kinds {
        if k {
            id += 1;
            msgs.push(Msg::Req { id, note: r.below(notes), outcome: if with_panics && r.chance(1, 3) { Outcome::Panic } else { Outcome::Ok } });
        } else {
            ver += 1;
            msgs.push(Msg::Notif { note: r.below(notes), ver });
        }
    }
    // interleave sends with worker advances
    let mut acts = vec![];
    let mut alive: Vec<(u32, u32)> = vec![]; // (id, remaining advances) of requests already sent
    let mut next = 0;
    while next < msgs.len() || alive.iter().any(|a| a.1 > 0) {
        let can_adv: Vec<usize> = alive.iter().enumerate().filter(|(_, a)| a.1 > 0).map(|(i, _)| i).collect();
        if next < msgs.len() && (can_adv.is_empty() || r.chance(1, 2)) {
            if let Msg::Req { id, outcome, .. } = &msgs[next] {
                alive.push((*id, if *outcome == Outcome::Panic { 1 } else { 3 }));
            }
            acts.push(Act::Send(msgs[next].clone()));
            next += 1;
        } else if !can_adv.is_empty() {
            let i = *r.pick(&can_adv[..]);
            alive[i].1 -= 1;
            acts.push(Act::Advance(alive[i].0));
        }
        if acts.len() > 40 {
            break;
        }
    }
    (notes, acts)
}

pub fn acts_sexp(acts: &[Act]) -> String {
    acts.iter()
        .map(|a| match a {
            Act::Send(Msg::Req { id, note, outcome }) => format!("(send (req {} {} {}))", id, note, if *outcome == Outcome::Ok { "ok" } else { "panic" }),
            Act::Send(Msg::Notif { note, ver }) => format!("(send (notif {} {}))", note, ver),
            Act::Advance(id) => format!("(adv {})", id),
        })
        .collect::<Vec<_>>()
        .join(" ")
}

/// everything the real router answered, in the model's output format (after draining)
pub fn real_state(notes: usize, acts: &[Act], out: &sched::Outcome2) -> (String, String) {
    let texts = format!("(texts{})", (0..notes).map(|n| format!(" {}", out.finals[n])).collect::<String>());
    let mut ids: Vec<&u32> = out.replies.keys().collect();
    ids.sort();
    let mut outbox: Vec<String> = ids.iter().map(|id| format!("({} {})", id, out.replies[id].map(|v| v.to_string()).unwrap_or("error".into()))).collect();
    outbox.sort();
    let _ = acts;
    (texts, format!("(outbox {})", outbox.join(" ")))
}

/// model state after the schedule and a full drain
pub fn model_state(model: &mut Model, notes: usize, acts: &[Act]) -> (String, String, String) {
    let mut all = acts.to_vec();
    let ids: Vec<u32> = acts.iter().filter_map(|a| if let Act::Send(Msg::Req { id, .. }) = a { Some(*id) } else { None }).collect();
    // drain: workers blocked behind a pending notification start only after earlier workers are gone
    for _ in 0..(3 * (ids.len() + 2)) {
        for id in &ids {
            all.push(Act::Advance(*id));
        }
    }
    let reply = model.call(&format!("(router.run true true {} {})", notes, acts_sexp(&all)));
    let parts = dump::children(&reply);
    let texts = parts.get(1).cloned().unwrap_or("").to_string();
    let mut ob: Vec<String> = dump::children(parts.get(2).cloned().unwrap_or("()")).iter().skip(1).map(|s| s.to_string()).collect();
    ob.sort();
    (texts, format!("(outbox {})", ob.join(" ")), reply)
}

pub struct Verdict {
    pub c11: Option<String>,
    pub c12: Option<String>,
}

/// the two properties on the real outcome
pub fn oracle(notes: usize, acts: &[Act], out: &sched::Outcome2) -> Verdict {
    let mut last: HashMap<usize, u32> = HashMap::new();
    let mut seen_at_request: HashMap<u32, (usize, u32)> = HashMap::new();
    let mut expected_replies: Vec<(u32, bool)> = vec![];
    for a in acts {
        match a {
            Act::Send(Msg::Notif { note, ver }) => {
                last.insert(*note, *ver);
            }
            Act::Send(Msg::Req { id, note, outcome }) => {
                seen_at_request.insert(*id, (*note, last.get(note).cloned().unwrap_or(0)));
                expected_replies.push((*id, *outcome == Outcome::Ok));
            }
            _ => {}
        }
    }
    let mut c11 = None;
    for n in 0..notes {
        let want = last.get(&n).cloned().unwrap_or(0);
        if out.finals[n] != want && c11.is_none() {
            c11 = Some(format!("after the schedule the server's text of note {} is version {} but the last didChange sent carried version {} (events: {:?})", n, out.finals[n] as i64, want, out.events.iter().filter(|e| e.starts_with("message-panicked")).take(2).collect::<Vec<_>>()));
        }
    }
    // the edits are applied completely: what the server says about the notes after the schedule is what a freshly
    // started server says about the final texts (hints: who includes / links to a note, and where)
    if c11.is_none() && out.finals.iter().all(|v| *v != u32::MAX) {
        if let Ok(fresh) = dump::catch(|| sched::fresh_hints(notes, &out.finals)) {
            for n in 0..notes {
                if let Some(got) = &out.final_hints[n] {
                    if *got != fresh[n] && c11.is_none() {
                        c11 = Some(format!("after the schedule the hints of note {} are {:?}, a server started on the final texts (versions {:?}) says {:?}", n, got, out.finals, fresh[n]));
                    }
                }
            }
        }
    }
    for (id, (note, want)) in &seen_at_request {
        if let Some(Some(v)) = out.replies.get(id) {
            if v != want && c11.is_none() {
                c11 = Some(format!("request {} (note {}) was sent after version {} but answered from version {}", id, note, want, v));
            }
        }
    }
    let mut c12 = None;
    for (id, _ok) in &expected_replies {
        match out.replies.get(id) {
            None => {
                if c12.is_none() {
                    c12 = Some(format!("request {} never got a response", id));
                }
            }
            Some(_) => {}
        }
    }
    if let Some(d) = out.duplicate_replies.first() {
        c12 = Some(format!("request {} got two responses", d));
    }
    if !out.loop_result_ok && c12.is_none() {
        c12 = Some("the message loop did not end cleanly on `exit`".to_string());
    }
    Verdict { c11, c12 }
}

pub fn acts_json(notes: usize, acts: &[Act]) -> serde_json::Value {
    json!({"notes": notes, "acts": acts_sexp(acts)})
}

pub fn parse_acts(s: &str) -> Vec<Act> {
    let mut out = vec![];
    for a in dump::children(&format!("({})", s)) {
        let c = dump::children(a);
        match c.first().cloned() {
            Some("adv") => out.push(Act::Advance(c[1].parse().unwrap_or(0))),
            Some("send") => {
                let m = dump::children(c[1]);
                if m[0] == "req" {
                    out.push(Act::Send(Msg::Req { id: m[1].parse().unwrap_or(0), note: m[2].parse().unwrap_or(0), outcome: if m[3] == "ok" { Outcome::Ok } else { Outcome::Panic } }));
                } else {
                    out.push(Act::Send(Msg::Notif { note: m[1].parse().unwrap_or(0), ver: m[2].parse().unwrap_or(0) }));
                }
            }
            _ => {}
        }
    }
    out
}

pub fn run_prop(ctx: &Ctx, model: &mut Model, rep: &mut Report, prop: &str) {
    let with_panics = prop == "C12";
    rep.rule = format!("schedules of the real router (message loop thread + one worker thread per request, paused at started / result computed / response sent by the cfg(iwe_org_iwe_verif) hooks): 1-4 formatting requests{} and 1-3 didChange notifications over 1-2 notes, sends interleaved at random with single worker advances; correspondence: final texts and the set of replies (version seen / error) of the real router vs the model machine with both repairs; oracle: {}; non-trivial = a notification is sent while a worker is alive; distinct by schedule", if with_panics { " (a third of them for an unknown file: the handler panics)" } else { "" }, if with_panics { "every request has exactly one response, none has two, the loop ends cleanly on exit" } else { "final text of every note = last version sent, every successful reply carries the version current when the request was sent" });
    if let Some(path) = &ctx.replay {
        let v: serde_json::Value = serde_json::from_str(&std::fs::read_to_string(path).unwrap()).unwrap();
        let acts = parse_acts(v["acts"].as_str().unwrap_or(""));
        let notes = v["notes"].as_u64().unwrap_or(1) as usize;
        rep.evaluations += 1;
        let out = sched::run_schedule(notes, &acts);
        let vd = oracle(notes, &acts, &out);
        if let Some(what) = if with_panics { vd.c12 } else { vd.c11 } {
            rep.fail(json!({"kind": "schedule", "notes": notes, "acts": acts_sexp(&acts), "what": what}));
        }
        return;
    }
    for f in known::open(ctx, prop) {
        if let Some(a) = f.witness.get("acts").and_then(|a| a.as_str()) {
            let acts = parse_acts(a);
            let notes = f.witness["notes"].as_u64().unwrap_or(1) as usize;
            rep.evaluations += 1;
            let out = sched::run_schedule(notes, &acts);
            let vd = oracle(notes, &acts, &out);
            match if with_panics { vd.c12 } else { vd.c11 } {
                Some(what) => rep.known_findings.push(json!({"id": f.id, "what": format!("{} — witness still fails: {}", f.what, what)})),
                None => rep.resolved_findings.push(json!({"id": f.id, "what": f.what})),
            }
        }
    }
    // repaired defects: their witnesses run as ordinary corpus cases
    for f in known::load(ctx, prop).into_iter().filter(|f| f.status == "fixed") {
        if let Some(a) = f.witness.get("acts").and_then(|a| a.as_str()) {
            let acts = parse_acts(a);
            let notes = f.witness["notes"].as_u64().unwrap_or(1) as usize;
            rep.evaluations += 1;
            rep.count("corpus_fixed_witnesses");
            let out = sched::run_schedule(notes, &acts);
            let vd = oracle(notes, &acts, &out);
            if let Some(what) = if with_panics { vd.c12 } else { vd.c11 } {
                rep.fail(json!({"kind": "schedule", "notes": notes, "acts": acts_sexp(&acts), "what": format!("regression of repaired defect {}: {}", f.id, what)}));
            }
        }
    }
    let n = if ctx.thorough { 1500 } else { 120 };
    for i in 0..n {
        let mut r = Rng::for_case(ctx.seed ^ if with_panics { 0xC12 } else { 0xC11 }, i as u64);
        let (notes, acts) = gen_schedule(&mut r, with_panics);
        let text = acts_sexp(&acts);
        // non-trivial: some notification sent while a worker is alive
        let mut alive = 0i32;
        let mut nontrivial = false;
        let mut remaining: HashMap<u32, u32> = HashMap::new();
        for a in &acts {
            match a {
                Act::Send(Msg::Req { id, outcome, .. }) => {
                    alive += 1;
                    remaining.insert(*id, if *outcome == Outcome::Panic { 1 } else { 3 });
                }
                Act::Advance(id) => {
                    if let Some(x) = remaining.get_mut(id) {
                        *x -= 1;
                        if *x == 0 {
                            alive -= 1;
                        }
                    }
                }
                Act::Send(Msg::Notif { .. }) => {
                    if alive > 0 {
                        nontrivial = true;
                    }
                }
            }
        }
        rep.case(&text, nontrivial);
        if i < 2 {
            rep.sample(acts_json(notes, &acts));
        }
        let out = sched::run_schedule(notes, &acts);
        let (mt, mo, _) = model_state(model, notes, &acts);
        let (rt, ro) = real_state(notes, &acts, &out);
        rep.correspondence_cases += 1;
        if mt != rt || mo != ro {
            rep.disagree(json!({"op": "router schedule", "schedule": text, "model": format!("{} {}", mt, mo), "impl": format!("{} {}", rt, ro), "notes": notes, "acts": text}));
        }
        let vd = oracle(notes, &acts, &out);
        if let Some(what) = if with_panics { vd.c12 } else { vd.c11 } {
            rep.fail(json!({"kind": "schedule", "notes": notes, "acts": text, "what": what}));
        }
        // a broken router makes every schedule wait for its deadlines: a handful of failing inputs is enough
        if !ctx.thorough && rep.impl_failures.len() >= 6 {
            rep.count("stopped_early_after_6_failures");
            break;
        }
    }
}

pub fn run(ctx: &Ctx, model: &mut Model, rep: &mut Report) {
    run_prop(ctx, model, rep, "C11")
}
