//! C08 — rename moves a note and keeps every link pointing at it.
use crate::act::{self, Change, Lib};
use crate::hist::{self, History};
use crate::known;
use crate::oracle::md::{self, LinkOcc};
use crate::props::c05;
use crate::sexp::*;
use crate::{dump, model::Model, report::Report, rng::Rng, Ctx};
use liwe::model::Key;
use serde_json::json;
use std::sync::atomic::{AtomicBool, Ordering};

static D16_OPEN: AtomicBool = AtomicBool::new(false);
static D31_OPEN: AtomicBool = AtomicBool::new(false);

fn cut(s: &str) -> String {
    s.chars().take(400).collect()
}

fn target_of(l: &LinkOcc, dir: &str) -> String {
    if l.block_level { md::resolve(&l.dest, dir) } else { md::strip_md(&l.dest) }
}

fn strip_front_matter(t: &str) -> String {
    if t.starts_with("---\n") {
        t.splitn(3, "---\n").nth(2).unwrap_or("").trim_start_matches('\n').to_string()
    } else {
        t.to_string()
    }
}

pub enum Outcome {
    Ok,
    Known(&'static str),
    Bad(String),
    Skip,
}

/// one rename request: at link `site` of note `from`, to `new_name`
pub fn check_rename(l0: &Lib, ext: &str, from: &str, site: &LinkOcc, new_name: &str) -> Outcome {
    let server = act::server(l0, ext, true);
    let fdir = crate::oracle::md::dir_of(from);
    let old = md::resolve(&site.dest, &fdir);
    let res = act::rename(&server, from, site.line as u32, (site.col + 1) as u32, new_name);
    let new_key = Key::from_file_name(new_name).to_string();
    let changes = match res {
        Err(_) => return Outcome::Skip, // panics (dangling target, request from a sub-directory) are C12's
        Ok(Err(msg)) => {
            return if l0.contains_key(&new_key) { Outcome::Ok } else { Outcome::Bad(format!("rename to free name {:?} refused: {}", new_name, msg)) };
        }
        Ok(Ok(None)) => return Outcome::Bad(format!("no edit although the cursor is inside the link {:?} at {}:{}", site.dest, site.line, site.col + 1)),
        Ok(Ok(Some(c))) => c,
    };
    if l0.contains_key(&new_key) {
        return Outcome::Bad(format!("renaming onto the existing note {:?} is not refused", new_key));
    }
    let l1 = act::apply(l0, &changes);
    if l1.contains_key(&old) {
        return Outcome::Bad(format!("the note still exists under the old name {:?}", old));
    }
    if !l1.contains_key(&new_key) {
        return Outcome::Bad(format!("no note under the new name {:?} (keys: {:?})", new_key, l1.keys().collect::<Vec<_>>()));
    }
    let mut known: Option<&'static str> = None;
    for (k, before_text) in l0.iter() {
        let k1 = if *k == old { new_key.clone() } else { k.clone() };
        let after_text = l1.get(&k1).cloned().unwrap_or_default();
        let (d0, d1) = (crate::oracle::md::dir_of(k), crate::oracle::md::dir_of(&k1));
        let (r0, r1) = (md::read(before_text, &d0), md::read(&after_text, &d1));
        let links_to_old = r0.links.iter().any(|l| !md::is_external(&l.dest) && target_of(l, &d0) == old);
        if !links_to_old && *k != old {
            if &after_text != before_text {
                return Outcome::Bad(format!("unrelated note {:?} was rewritten", k));
            }
            continue;
        }
        // an emptied piped wiki link `[[new|]]` is no longer a link at all (finding D16)
        if D16_OPEN.load(Ordering::Relaxed) && r0.links.iter().any(|l| !l.block_level && l.kind == "wikiPiped" && target_of(l, &d0) == old) {
            known = Some("D16");
            continue;
        }
        // content unchanged apart from links
        let strip = |t: &str, d: &str| md::atoms(t, d).into_iter().filter(|a| !a.payload.starts_with("ref→") && !a.payload.starts_with("link→")).map(|a| a.payload).collect::<Vec<_>>();
        let (mut c0, c1) = (strip(before_text, &d0), strip(&after_text, &d1));
        if c0 != c1 {
            // the renamed note loses its front-matter (metadata is looked up under the new key): finding D31
            if D31_OPEN.load(Ordering::Relaxed) && *k == old && before_text.starts_with("---\n") && !after_text.starts_with("---\n") {
                c0 = strip(&strip_front_matter(before_text), &d0);
                known = Some("D31");
            }
            // words of a piped/regular link text that was blanked are handled below
            let lost: Vec<&String> = c0.iter().filter(|w| !c1.contains(w)).collect();
            let blanked_words: Vec<String> = r0.links.iter().filter(|l| !l.block_level && !md::is_external(&l.dest) && target_of(l, &d0) == old).flat_map(|l| l.text.replace(md::MARKUP, "").split_whitespace().map(|s| s.to_string()).collect::<Vec<_>>()).collect();
            if c0 != c1 && !(D16_OPEN.load(Ordering::Relaxed) && lost.iter().all(|w| blanked_words.contains(w)) && c1.iter().all(|w| c0.contains(w))) {
                return Outcome::Bad(format!("note {:?}: content changed: before {:?} after {:?}", k, cut(&c0.join(" ")), cut(&c1.join(" "))));
            }
            if c0 != c1 {
                known = Some("D16");
            }
        }
        if r0.links.len() != r1.links.len() {
            return Outcome::Bad(format!("note {:?}: {} links before, {} after", k, r0.links.len(), r1.links.len()));
        }
        for (a, b) in r0.links.iter().zip(r1.links.iter()) {
            if md::is_external(&a.dest) {
                if a.dest != b.dest {
                    return Outcome::Bad(format!("note {:?}: external link {:?} became {:?}", k, a.dest, b.dest));
                }
                continue;
            }
            let (t0, t1) = (target_of(a, &d0), target_of(b, &d1));
            let want = if t0 == old { new_key.clone() } else { t0.clone() };
            if t1 != want {
                return Outcome::Bad(format!("note {:?} line {}: link {:?} pointed to {:?}, after rename {:?} points to {:?} (expected {:?})", k, a.line, a.dest, t0, b.dest, t1, want));
            }
            // text preserved (or refreshed to a title: not checked here, C06) — but never emptied
            if t0 == old && a.kind != "wiki" && !a.text.trim().is_empty() && b.text.trim().is_empty() {
                if D16_OPEN.load(Ordering::Relaxed) && !a.block_level {
                    known = Some("D16");
                } else {
                    return Outcome::Bad(format!("note {:?} line {}: the text {:?} of the link to the renamed note was emptied", k, a.line, a.text));
                }
            }
        }
    }
    match known {
        Some(id) => Outcome::Known(id),
        None => Outcome::Ok,
    }
}

fn model_rename(model: &mut Model, l0: &Lib, ext: &str, from: &str, url: Option<&str>, new_name: &str) -> Option<String> {
    let h = History { ext: ext.to_string(), import: l0.iter().map(|(k, v)| (k.clone(), v.clone())).collect(), steps: vec![] };
    let req = hist::request(&h)?;
    let inner = req.strip_prefix("(graph.history ")?.strip_suffix(')')?;
    Some(model.call(&format!("(graph.rename {} {} {} {})", inner, hex(from), opt(url.map(hex)), hex(new_name))))
}

pub fn run(ctx: &Ctx, model: &mut Model, rep: &mut Report) {
    rep.rule = "libraries with cross-links (block references from any directory, inline links in root notes, self-links, many links to one note, missing targets), formatted first; every link occurrence as rename site; new names free, taken and in a sub-directory; correspondence: refusal / no-op / full edit list (operations, order, texts) model vs handle_rename; oracle: the edit applied to a copy — old name gone, new name present with unchanged non-link content, every link that resolved to the old key resolves to the new one and every other link is unchanged (block references resolved from their note's directory), unrelated notes untouched, texts not emptied, renaming onto an existing note refused; non-trivial = rename site is a link to an existing note; distinct by (library, site, name)".to_string();
    let parse_lib = |v: &serde_json::Value| -> Vec<(String, String)> { v.as_array().map(|a| a.iter().map(|p| (p[0].as_str().unwrap().to_string(), p[1].as_str().unwrap().to_string())).collect()).unwrap_or_default() };
    let run_witness = |lib: &[(String, String)], from: &str, new_name: &str| -> Option<String> {
        let l0 = act::formatted(lib, "")?;
        let dir = crate::oracle::md::dir_of(from);
        let site = md::read(l0.get(from)?, &dir).links.into_iter().find(|l| !md::is_external(&l.dest))?;
        match check_rename(&l0, "", from, &site, new_name) {
            Outcome::Bad(w) => Some(w),
            Outcome::Known(id) => Some(format!("attributed to {}", id)),
            _ => None,
        }
    };
    if let Some(path) = &ctx.replay {
        let v: serde_json::Value = serde_json::from_str(&std::fs::read_to_string(path).unwrap()).unwrap();
        rep.evaluations += 1;
        if let Some(what) = act::with_via(act::via_from(&v["via"]), || run_witness(&parse_lib(&v["library"]), v["from"].as_str().unwrap_or("a"), v["new_name"].as_str().unwrap_or("zz"))) {
            rep.fail(json!({"kind": "rename", "library": v["library"], "from": v["from"], "new_name": v["new_name"], "via": v["via"], "what": what}));
        }
        return;
    }
    for f in known::open(ctx, "C08") {
        rep.evaluations += 1;
        match run_witness(&parse_lib(&f.witness["library"]), f.witness["from"].as_str().unwrap_or("a"), f.witness["new_name"].as_str().unwrap_or("zz")) {
            Some(what) => rep.known_findings.push(json!({"id": f.id, "what": format!("{} — witness still fails: {}", f.what, cut(&what))})),
            None => rep.resolved_findings.push(json!({"id": f.id, "what": f.what})),
        }
    }
    D16_OPEN.store(known::is_open(ctx, "C08", "D16"), Ordering::Relaxed);
    D31_OPEN.store(known::is_open(ctx, "C08", "D31"), Ordering::Relaxed);
    let n = if ctx.thorough { 1200 } else { 240 };
    for i in 0..n {
        let mut r = Rng::for_case(ctx.seed ^ 0xC08, i as u64);
        // every other library may hold links to notes inside block quotes: rename rewrites them like any other link
        let lib = c05::gen_library_opts(&mut r, false, i % 2 == 1);
        if i % 2 == 1 {
            rep.count("libraries_with_quoted_links_allowed");
        }
        let ext = if i % 3 == 0 { ".md" } else { "" };
        let Some(l0) = act::formatted(&lib, ext) else { continue };
        let mut sites = vec![];
        for (k, t) in l0.iter() {
            let dir = crate::oracle::md::dir_of(k);
            for l in md::read(t, &dir).links {
                if !md::is_external(&l.dest) && l.kind != "auto" {
                    sites.push((k.clone(), l));
                }
            }
        }
        let taken = l0.keys().next().cloned().unwrap_or_default();
        let mut tried = 0;
        for (from, site) in sites.iter() {
            // requests from a sub-directory panic (finding D16, C12): exercised by the witness only
            if from.contains('/') {
                rep.count("sites_in_subdirectory_skipped");
                continue;
            }
            if tried >= (if ctx.thorough { 12 } else { 5 }) {
                break;
            }
            tried += 1;
            for new_name in ["zz_new", taken.as_str(), "d/zz_new"] {
                let fdir = crate::oracle::md::dir_of(from);
                let old = md::resolve(&site.dest, &fdir);
                let text = format!("{:?}{}{}{}{}", l0, from, site.line, site.col, new_name);
                rep.case(&text, l0.contains_key(&old));
                rep.count(if new_name == taken { "name_taken" } else if new_name.contains('/') { "name_in_subdirectory" } else { "name_free" });
                // correspondence
                let server = act::server(&l0, ext, true);
                let real = act::rename(&server, from, site.line as u32, (site.col + 1) as u32, new_name);
                if let Some(reply) = model_rename(model, &l0, ext, from, Some(&site.dest), new_name) {
                    rep.correspondence_cases += 1;
                    let agree = match &real {
                        Err(_) => reply.starts_with("(error") && !reply.contains("taken"),
                        Ok(Err(_)) => reply.contains("taken") || reply.contains("74616b656e"),
                        Ok(Ok(None)) => reply == "none",
                        Ok(Ok(Some(cs))) => reply == format!("(changes{})", cs.iter().map(|c| format!(" {}", act::change_s(c))).collect::<String>()),
                    };
                    if !agree && !reply.contains("unmodelled") {
                        let real_s = match &real {
                            Err(e) => format!("panic {}", e),
                            Ok(Err(m)) => format!("refused: {}", m),
                            Ok(Ok(None)) => "none".to_string(),
                            Ok(Ok(Some(cs))) => format!("{:?}", cs).chars().take(500).collect(),
                        };
                        rep.disagree(json!({"op": format!("rename at {}:{}:{} to {:?}", from, site.line, site.col, new_name), "model": crate::props::c04::decode(&cut(&reply)), "impl": real_s, "library": l0, "ext": ext}));
                    }
                }
                let via = act::via_for(tried as u64);
                rep.count(&format!("loaded_via_{:?}", via));
                match act::with_via(via, || check_rename(&l0, ext, from, site, new_name)) {
                    Outcome::Ok => {}
                    Outcome::Skip => rep.count("request_panics"),
                    Outcome::Known(id) => rep.count(&format!("attributed_to_{}", id)),
                    Outcome::Bad(what) => rep.fail(json!({"kind": "rename", "library": lib, "ext": ext, "from": from, "line": site.line, "col": site.col, "new_name": new_name, "via": format!("{:?}", via), "what": what})),
                }
            }
        }
        if i < 1 {
            rep.sample(json!({"library": l0, "ext": ext}));
        }
    }
    let _ = dump::catch(|| ());
    let _ = Change::Create(String::new());
}
