//! C17 — squash expands references to a bounded depth and always terminates.
use crate::dump;
use crate::gen;
use crate::hist::{self, History};
use crate::oracle::md;
use crate::{model::Model, report::Report, rng::Rng, sexp::*, Ctx};
use liwe::graph::{Graph, GraphContext};
use liwe::model::config::MarkdownOptions;
use liwe::model::node::Node;
use liwe::model::tree::{Tree, TreeIter};
use liwe::model::Key;
use serde_json::json;
use std::collections::HashMap;

/// a library whose block-reference graph is arbitrary: each note = heading + paragraphs + references
fn gen_ref_library(r: &mut Rng, n: usize, chain: bool) -> Vec<(String, String)> {
    let keys: Vec<String> = (0..n).map(|i| if i % 3 == 2 { format!("d/k{}", i) } else { format!("k{}", i) }).collect();
    keys.iter()
        .enumerate()
        .map(|(i, k)| {
            let dir = crate::oracle::md::dir_of(k);
            let mut text = format!("# title {}\n\npara {} alpha\n", i, i);
            // an existing note may have no content at all (empty, blank, front matter only): a reference to it expands
            // to nothing, which is not the same as not expanding
            if !chain && i > 0 && r.chance(1, 6) {
                return (k.clone(), r.pick(&["", "\n", "   \n", "---\ntitle: only meta\n---\n"][..]).to_string());
            }
            let nrefs = if chain { 1 } else { r.range(0, 3) };
            for j in 0..nrefs {
                let target = if chain { keys[(i + 1) % n].clone() } else if r.chance(1, 8) { "missing".to_string() } else { r.pick(&keys[..]).clone() };
                let link = crate::oracle::md::rel_url(&target, &dir);
                let link = if link.is_empty() { target.clone() } else { link };
                if r.chance(1, 4) {
                    text.push_str(&format!("\n## sub {}.{}\n\n[t]({})\n\ntail {}.{}\n", i, j, link, i, j));
                } else if !chain && r.chance(1, 4) {
                    // a reference nested in a list item (bullet / ordered) or in a quote is a block reference too
                    match r.below(3) {
                        0 => text.push_str(&format!("\n- item {}.{}\n\n  [t]({})\n", i, j, link)),
                        1 => text.push_str(&format!("\n1. first {}.{}\n\n   [t]({})\n\n2. second {}.{}\n", i, j, link, i, j)),
                        _ => text.push_str(&format!("\n> quoted {}.{}\n>\n> [t]({})\n", i, j, link)),
                    }
                } else {
                    text.push_str(&format!("\n[t]({})\n", link));
                }
                if r.chance(1, 3) {
                    text.push_str(&format!("\nbetween {}.{}\n", i, j));
                }
            }
            (k.clone(), text)
        })
        .collect()
}

fn squash_request(h: &History, key: &str, depth: u8) -> Option<String> {
    let req = hist::request(h)?;
    let inner = req.strip_prefix("(graph.history ")?.strip_suffix(')')?;
    Some(format!("(graph.squash {} {} {})", inner, hex(key), depth))
}

/// independent expansion on the source library (the statement's equation): content words of the squashed text
fn expected_words(lib: &HashMap<String, String>, key: &str, depth: u8) -> Vec<String> {
    // expansion over the trees collected by the real graph is the implementation itself; instead expand the
    // *texts*: every block reference line `[t](link)` to an existing note is replaced (depth > 0) by that
    // note's body expanded with depth-1; the oracle compares word multisets, the model compares structure
    fn body(lib: &HashMap<String, String>, key: &str, depth: u8, out: &mut Vec<String>) {
        let Some(text) = lib.get(key) else { return };
        let dir = crate::oracle::md::dir_of(key);
        // front matter is not content
        let text: &str = if text.starts_with("---\n") { text.splitn(3, "---\n").nth(2).unwrap_or("") } else { text };
        for line in text.lines() {
            // containers: leading indentation, quote and list markers are not content
            let mut line = line.trim_start();
            loop {
                let before = line;
                for m in ["> ", ">", "- ", "1. ", "2. "] {
                    if let Some(rest) = line.strip_prefix(m) {
                        line = rest.trim_start();
                        break;
                    }
                }
                if line == before {
                    break;
                }
            }
            if let Some(rest) = line.strip_prefix("[t](") {
                let link = rest.trim_end_matches(')');
                let target = md::resolve(link, &dir);
                if depth > 0 && lib.contains_key(&target) {
                    body(lib, &target, depth - 1, out);
                } else {
                    out.push(format!("ref→{}", target));
                }
            } else {
                for w in line.split_whitespace() {
                    if !w.chars().all(|c| c == '#') {
                        out.push(w.to_string());
                    }
                }
            }
        }
    }
    let mut out = vec![];
    body(lib, key, depth, &mut out);
    out.sort();
    out
}

fn tree_words(t: &Tree, out: &mut Vec<String>) {
    match &t.node {
        Node::Section(x) | Node::Leaf(x) => {
            for w in x.iter().map(|i| i.plain_text()).collect::<String>().split_whitespace() {
                out.push(w.to_string());
            }
        }
        Node::Reference(r) => out.push(format!("ref→{}", r.key)),
        _ => {}
    }
    for c in &t.children {
        tree_words(c, out);
    }
}

fn cli_text(graph: &Graph, key: &str, depth: u8) -> String {
    // what `iwe squash` prints
    let squashed = graph.squash(&Key::from_file_name(key), depth);
    let mut patch = Graph::new();
    patch.build_key_from_iter(&key.into(), TreeIter::new(&squashed));
    patch.export_key(&key.into()).unwrap()
}

/// subprocess entry `iwe-verif squash-probe <case.json>`: the squash alone, so that a stack overflow (an
/// abort, not a panic) or a run-away expansion is an observation about this one input
pub fn squash_probe(path: &str) {
    let v: serde_json::Value = serde_json::from_str(&std::fs::read_to_string(path).unwrap()).unwrap();
    let st: HashMap<String, String> = v["library"].as_array().unwrap().iter().map(|p| (p[0].as_str().unwrap().to_string(), p[1].as_str().unwrap().to_string())).collect();
    let g = Graph::import(&st, MarkdownOptions::default());
    let t = (&g).squash(&Key::from_file_name(v["key"].as_str().unwrap()), v["depth"].as_u64().unwrap() as u8);
    let mut words = vec![];
    tree_words(&t, &mut words);
    println!("ok {}", words.len());
}

/// deep squashes run in a child process first: Some(what) if it is killed by a signal or runs over the deadline
fn probe_in_child(lib: &[(String, String)], key: &str, depth: u8) -> Option<String> {
    let dir = "/verif/harness/tmp";
    let _ = std::fs::create_dir_all(dir);
    let file = format!("{}/c17-{}.json", dir, std::process::id());
    std::fs::write(&file, serde_json::to_string(&json!({"library": lib, "key": key, "depth": depth})).unwrap()).ok()?;
    let exe = std::env::current_exe().ok()?;
    let mut child = std::process::Command::new(exe).args(["squash-probe", &file]).stdout(std::process::Stdio::null()).stderr(std::process::Stdio::null()).spawn().ok()?;
    let start = std::time::Instant::now();
    let out = loop {
        match child.try_wait() {
            Ok(Some(status)) => {
                use std::os::unix::process::ExitStatusExt;
                break match status.signal() {
                    Some(sig) => Some(format!("squash({:?}, {}) kills the process with signal {} (stack overflow / abort)", key, depth, sig)),
                    None => None, // a panic (exit 101) is looked at in-process
                };
            }
            Ok(None) if start.elapsed() > std::time::Duration::from_secs(90) => {
                let _ = child.kill();
                let _ = child.wait();
                break Some(format!("squash({:?}, {}) did not terminate within 90 s", key, depth));
            }
            Ok(None) => std::thread::sleep(std::time::Duration::from_millis(5)),
            Err(_) => break None,
        }
    };
    let _ = std::fs::remove_file(&file);
    out
}

pub fn check(lib: &[(String, String)], key: &str, depth: u8) -> Option<String> {
    if depth > 6 {
        if let Some(what) = probe_in_child(lib, key, depth) {
            return Some(what);
        }
    }
    let st: HashMap<String, String> = lib.iter().cloned().collect();
    let g = dump::catch(|| Graph::import(&st, MarkdownOptions::default())).ok()?;
    let (tx, rx) = std::sync::mpsc::channel();
    let key2 = key.to_string();
    // termination: run in a thread with a deadline
    let res = std::thread::scope(|s| {
        s.spawn(|| {
            let r = dump::catch(|| (&g).squash(&Key::from_file_name(&key2), depth));
            let _ = tx.send(r);
        });
        rx.recv_timeout(std::time::Duration::from_secs(90))
    });
    let tree = match res {
        Err(_) => return Some(format!("squash({:?}, {}) did not terminate within 90 s", key, depth)),
        Ok(Err(p)) => return Some(format!("squash({:?}, {}) panics: {}", key, depth, p)),
        Ok(Ok(t)) => t,
    };
    let mut got = vec![];
    tree_words(&tree, &mut got);
    got.sort();
    let want = expected_words(&st, key, depth);
    if got != want {
        let extra: Vec<&String> = got.iter().filter(|w| !want.contains(w)).take(5).collect();
        let missing: Vec<&String> = want.iter().filter(|w| !got.contains(w)).take(5).collect();
        return Some(format!("squash({:?}, {}): content differs from the expansion of the sources: {} words vs {} expected; unexpected {:?}; missing {:?}", key, depth, got.len(), want.len(), extra, missing));
    }
    None
}

/// the `generate` command squashes the prompt note and the target note at depth 1 and, when `./.iwe` exists, writes the
/// combined prompt to `./.iwe/prompt.md` (no model is configured with a key, so nothing leaves the process): after
/// edits of *referenced* notes the prompt must be the expansion of the notes' current texts, i.e. what a graph freshly
/// imported from them gives
fn generate_sessions(rep: &mut Report, seed: u64, n: usize) {
    use iwes::router::{server::Server, LspClient, ServerConfig};
    use liwe::model::config::Configuration;
    use liwe::model::node::NodeIter;
    let dir = format!("/verif/harness/tmp/c17-gen-{}", std::process::id());
    let _ = std::fs::create_dir_all(format!("{}/.iwe", dir));
    let Ok(old) = std::env::current_dir() else { return };
    if std::env::set_current_dir(&dir).is_err() {
        return;
    }
    let expected = |state: &HashMap<String, String>, p: &str, t: &str| -> Option<String> {
        dump::catch(|| {
            let g = Graph::import(state, MarkdownOptions::default());
            let (pk, tk) = (Key::from_file_name(p), Key::from_file_name(t));
            format!(
                "{}\n\n{}",
                TreeIter::new(&(&g).squash(&pk, 1)).to_markdown(&pk.parent(), &MarkdownOptions::default()),
                TreeIter::new(&(&g).squash(&tk, 1)).to_markdown(&tk.parent(), &MarkdownOptions::default())
            )
        })
        .ok()
    };
    for i in 0..n {
        let mut r = Rng::for_case(seed ^ 0xC17E, i as u64);
        let k = r.range(3, 5);
        let lib = gen_ref_library(&mut r, k, false);
        let mut state: HashMap<String, String> = lib.iter().cloned().collect();
        let (p, t) = (lib[0].0.clone(), lib[1].0.clone());
        let mut configuration = Configuration::default();
        configuration.models.insert("default".to_string(), Default::default());
        let verdict = dump::catch(|| -> Option<String> {
            let mut server = Server::new(ServerConfig { base_path: "/lib".to_string(), state: state.clone(), sequential_ids: Some(true), configuration: configuration.clone(), lsp_client: LspClient::Unknown });
            for round in 0..3 {
                let _ = std::fs::remove_file(".iwe/prompt.md");
                let _ = server.handle_workspace_command(lsp_types::ExecuteCommandParams {
                    command: "generate".to_string(),
                    arguments: vec![json!({"new_key": "fresh-note", "prompt_key": p, "target_key": t})],
                    work_done_progress_params: Default::default(),
                });
                let got = std::fs::read_to_string(".iwe/prompt.md").unwrap_or_default();
                let want = expected(&state, &p, &t)?;
                if got != want {
                    return Some(format!("generate #{}: the prompt is {:?}, the expansion (depth 1) of the current texts of {:?} and {:?} is {:?}", round + 1, got.chars().take(300).collect::<String>(), p, t, want.chars().take(300).collect::<String>()));
                }
                // an edit of a note other than the prompt note (it may be referenced by it, directly or not)
                let victim = lib[2 + (round % (lib.len() - 2))].0.clone();
                let text = format!("{}\nedited in round {} of case {}\n", state[&victim], round, i);
                server.handle_did_change_text_document(lsp_types::DidChangeTextDocumentParams {
                    text_document: lsp_types::VersionedTextDocumentIdentifier { uri: crate::act::uri(&victim), version: round as i32 + 2 },
                    content_changes: vec![lsp_types::TextDocumentContentChangeEvent { range: None, range_length: None, text: text.clone() }],
                });
                state.insert(victim, text);
            }
            None
        });
        rep.evaluations += 1;
        rep.count("generate_sessions");
        match verdict {
            Ok(None) => {}
            Ok(Some(w)) => rep.fail(json!({"kind": "generate_prompt", "library": lib, "prompt": p, "target": t, "what": w})),
            Err(e) => rep.fail(json!({"kind": "generate_prompt", "library": lib, "prompt": p, "target": t, "what": format!("panic: {}", e)})),
        }
    }
    let _ = std::env::set_current_dir(old);
    let _ = std::fs::remove_dir_all(&dir);
}

pub fn run(ctx: &Ctx, model: &mut Model, rep: &mut Report) {
    rep.rule = "libraries with arbitrary block-reference graphs (trees, DAGs with sharing, cycles, self-loops, dangling targets, sub-directories), depth 0..6; chains and self-loops up to depth 255; correspondence: model squash tree + CLI text vs real `Graph::squash` tree + `iwe squash` text; oracle: termination within a deadline, no panic, word/reference multiset of the squashed tree = independent expansion of the source texts; non-trivial = some reference expanded; distinct by text".to_string();
    if let Some(path) = &ctx.replay {
        let v: serde_json::Value = serde_json::from_str(&std::fs::read_to_string(path).unwrap()).unwrap();
        if let Some(r) = crate::cli::replay(&v) {
            rep.evaluations += 1;
            if let Some(w) = r {
                let mut f = v.clone();
                f["what"] = json!(w);
                rep.fail(f);
            }
            return;
        }
        let lib: Vec<(String, String)> = v["library"].as_array().unwrap().iter().map(|p| (p[0].as_str().unwrap().to_string(), p[1].as_str().unwrap().to_string())).collect();
        rep.evaluations += 1;
        if let Some(what) = check(&lib, v["key"].as_str().unwrap(), v["depth"].as_u64().unwrap() as u8) {
            rep.fail(json!({"kind": "squash", "library": lib, "key": v["key"], "depth": v["depth"], "what": what}));
        }
        return;
    }
    generate_sessions(rep, ctx.seed, if ctx.thorough { 300 } else { 40 });
    let n = if ctx.thorough { 3000 } else { 600 };
    for i in 0..n {
        let mut r = Rng::for_case(ctx.seed ^ 0xC17, i as u64);
        let (lib, depth) = match i % 10 {
            0 => {
                let n = r.range(1, 4);
                (gen_ref_library(&mut r, n, true), *r.pick(&[7u8, 40, 255])) // chain / self-loop, deep
            }
            _ => {
                let n = r.range(1, 6);
                (gen_ref_library(&mut r, n, false), r.below(7) as u8)
            }
        };
        // cap the expansion size for arbitrary graphs: (refs per note)^depth
        let key = lib[0].0.clone();
        let text = format!("{:?} {} {}", lib, key, depth);
        rep.case(&text, lib.iter().any(|(_, t)| t.contains("[t](")));
        rep.count(&format!("depth_{}", if depth > 6 { "deep".to_string() } else { depth.to_string() }));
        if i < 1 {
            rep.sample(json!({"library": lib, "key": key, "depth": depth}));
        }
        if let Some(what) = check(&lib, &key, depth) {
            rep.fail(json!({"kind": "squash", "library": lib, "key": key, "depth": depth, "what": what}));
            continue;
        }
        // the command-line binary: `iwe squash -k <key> --depth <d>` prints the squashed note of the graph
        if i % 8 == 3 && depth <= 6 {
            rep.count("cli_cases");
            rep.evaluations += 1;
            // … of a note in a sub-directory when there is one (what is not inlined keeps relative links)
            let cli_key = lib.iter().map(|(k, _)| k.clone()).filter(|k| k.contains('/') && i % 2 == 1).next().unwrap_or(key.clone());
            let case = crate::cli::CliCase { lib: &lib, ext: if i % 16 == 3 { "" } else { ".md" }, sub: if i % 3 == 0 { "" } else { "lib" }, squash: Some((&cli_key, depth)), paths_depth: 3, tag: &format!("c17-{}", i) };
            if let Some(w) = crate::cli::check(&case) {
                rep.fail(case.failure(w));
            }
        }
        // correspondence
        let h = History { ext: String::new(), import: lib.clone(), steps: vec![] };
        if let Some(req) = squash_request(&h, &Key::from_file_name(&key).to_string(), depth) {
            let reply = model.call(&req);
            let st: HashMap<String, String> = lib.iter().cloned().collect();
            let g = Graph::import(&st, MarkdownOptions::default());
            let real_tree = dump::tree(&(&g).squash(&Key::from_file_name(&key), depth));
            let real_text = dump::catch(|| cli_text(&g, &key, depth));
            let parts = dump::children(&reply);
            rep.correspondence_cases += 1;
            if parts.first() != Some(&"squash") {
                rep.disagree(json!({"op": "graph.squash", "model": reply.chars().take(300).collect::<String>(), "library": lib, "key": key, "depth": depth}));
                continue;
            }
            if parts[1] != real_tree {
                rep.disagree(json!({"op": "graph.squash (tree)", "model": crate::props::c04::decode(&parts[1].chars().take(600).collect::<String>()), "impl": crate::props::c04::decode(&real_tree.chars().take(600).collect::<String>()), "library": lib, "key": key, "depth": depth}));
                continue;
            }
            match real_text {
                Ok(t) => {
                    // heading depth is a u8 in the projector (`header_level as u8 + 1`): beyond 254 nested
                    // sections the release build wraps and a debug build panics; the model counts in Nat
                    let deep = unhex(parts[2]).map(|m| m.lines().any(|l| l.starts_with(&"#".repeat(255)))).unwrap_or(false);
                    if deep {
                        rep.count("text_skipped_heading_depth_over_254");
                    } else if unhex(parts[2]).as_deref() != Some(t.as_str()) {
                        rep.disagree(json!({"op": "iwe squash (text)", "model": unhex(parts[2]), "impl": t, "library": lib, "key": key, "depth": depth}));
                    }
                }
                Err(e) => rep.disagree(json!({"op": "iwe squash (text)", "model": "ok", "impl": format!("panic {}", e), "library": lib, "key": key, "depth": depth})),
            }
        }
    }
    let _ = gen::render;
}
