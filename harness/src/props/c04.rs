//! C04 — incremental edits leave the same library as a fresh start.
use crate::dump;
use crate::hist::{self, History, ImplState};
use crate::known;
use crate::{model::Model, report::Report, rng::Rng, sexp::*, Ctx};
use liwe::database::Database;
use liwe::graph::{Graph, GraphContext};
use liwe::model::config::MarkdownOptions;
use liwe::model::node::{NodeIter, NodePointer};
use liwe::model::Key;
use serde_json::json;
use std::collections::{BTreeMap, HashMap};

pub const PARTS: &[&str] = &["titles", "md", "brefs", "irefs", "ranges", "at"];

/// everything the property lists, in a form independent of node ids: answers keyed by (note, line)
pub fn answers(db: &Database, texts: &BTreeMap<String, String>, queries: &[&str]) -> Vec<(String, String)> {
    let g = db.graph();
    let mut out = vec![];
    let mut keys = g.keys();
    keys.sort_by_key(|k| k.to_string());
    let place = |id: u64| -> String {
        let key = dump::catch(|| g.node(id).node_key().to_string()).unwrap_or_else(|_| "?".into());
        let range = g.node_line_range(id).map(|r| format!("{}..{}", r.start, r.end)).unwrap_or("-".into());
        format!("{}@{}", key, range)
    };
    for k in &keys {
        let ks = k.to_string();
        out.push((format!("formatted[{}]", ks), dump::catch(|| g.to_markdown(k)).unwrap_or_else(|e| format!("PANIC {}", e))));
        out.push((format!("title[{}]", ks), format!("{:?}", g.get_key_title(k))));
        let mut b: Vec<String> = g.get_block_references_to(k).into_iter().map(place).collect();
        b.sort();
        out.push((format!("block_backlinks[{}]", ks), format!("{} {:?}", b.len(), b)));
        let mut i: Vec<String> = g.get_inline_references_to(k).into_iter().map(place).collect();
        i.sort();
        out.push((format!("inline_backlinks[{}]", ks), format!("{} {:?}", i.len(), i)));
        let n = texts.get(&ks).map(|t| t.lines().count() + 1).unwrap_or(1);
        let at: Vec<String> = (0..n)
            .map(|line| match dump::catch(|| g.get_node_id_at(k, line)) {
                Ok(Some(id)) => format!("{}:{}", line, dump::node_kind(g, id)),
                Ok(None) => format!("{}:-", line),
                Err(_) => format!("{}:PANIC", line),
            })
            .collect();
        out.push((format!("block_at_line[{}]", ks), at.join(" ")));
    }
    // outline paths as chains of (note, line, text)
    let render_path = |p: &liwe::graph::path::NodePath| p.ids().iter().map(|id| format!("{}:{}", place(*id), g.get_text(*id).trim())).collect::<Vec<_>>().join(" > ");
    let mut paths: Vec<String> = dump::catch(|| g.paths()).map(|ps| ps.iter().map(|p| render_path(p)).collect()).unwrap_or_else(|e| vec![format!("PANIC {}", e)]);
    paths.sort();
    out.push(("paths".into(), paths.join("\n")));
    // search results as a set per query (the order among equal ranks is finding D19, compared separately)
    for q in queries {
        let mut rs: Vec<String> = dump::catch(|| db.global_search(q)).map(|v| v.iter().map(|s| format!("{}|{}|rank{}|line{}|root{}", s.key, s.search_text, s.node_rank, s.line, s.root)).collect()).unwrap_or_else(|e| vec![format!("PANIC {}", e)]);
        rs.sort();
        out.push((format!("search_set[{}]", q), rs.join("\n")));
    }
    out
}

pub fn ordered_search(db: &Database, queries: &[&str]) -> Vec<(String, String)> {
    queries
        .iter()
        .map(|q| {
            let rs: Vec<String> = dump::catch(|| db.global_search(q)).map(|v| v.iter().map(|s| format!("{}|{}", s.key, s.search_text)).collect()).unwrap_or_default();
            (format!("search_order[{}]", q), rs.join("\n"))
        })
        .collect()
}

/// finding D19 is about results that tie in rank, key and text length (their order follows node ids): two ordered
/// result lists differ *only* in that way iff they name the same (key, text length) at every position
pub fn d19_explains(a: &str, b: &str) -> bool {
    let class = |s: &str| -> Vec<String> {
        s.lines()
            .map(|l| match l.split_once('|') {
                Some((k, t)) if !l.starts_with("## ") && !l.starts_with("search_order[") => format!("{}|{}", k, t.len()),
                _ => l.to_string(),
            })
            .collect()
    };
    class(a) == class(b)
}

pub const QUERIES: &[&str] = &["", "alpha", "be", "zz"];

/// after every step: incremental database vs a database freshly built from the current texts
pub fn oracle(h: &History) -> Option<(usize, String, bool)> {
    let opts = MarkdownOptions { refs_extension: h.ext.clone() };
    let state: HashMap<String, String> = h.import.iter().cloned().collect();
    let mut texts: BTreeMap<String, String> = h.import.iter().map(|(k, t)| (Key::from_file_name(k).to_string(), t.clone())).collect();
    let mut db = dump::catch(|| Database::new(state.clone(), true, opts.clone())).ok()?;
    for (i, (k, t)) in h.steps.iter().enumerate() {
        let key = Key::from_file_name(k);
        if dump::catch(|| db.update_document(key.clone(), t.clone())).is_err() {
            return None; // panics are C03's
        }
        texts.insert(key.to_string(), t.clone());
        let fresh_state: HashMap<String, String> = texts.iter().map(|(k, v)| (k.clone(), v.clone())).collect();
        let fresh = dump::catch(|| Database::new(fresh_state, true, opts.clone())).ok()?;
        let a = answers(&db, &texts, QUERIES);
        let b = answers(&fresh, &texts, QUERIES);
        for ((name, x), (_, y)) in a.iter().zip(b.iter()) {
            if x != y {
                return Some((i + 1, format!("{} after step {} (update {:?}): incremental {:?} vs fresh {:?}", name, i + 1, k, cut(x), cut(y)), false));
            }
        }
        let a = ordered_search(&db, QUERIES);
        let b = ordered_search(&fresh, QUERIES);
        for ((name, x), (_, y)) in a.iter().zip(b.iter()) {
            if x != y {
                // order-only and explained by finding D19 (ties in rank, key and length)? anything else is a violation
                return Some((i + 1, format!("{} after step {}: incremental {:?} vs fresh {:?}", name, i + 1, cut(x), cut(y)), d19_explains(x, y)));
            }
        }
    }
    None
}

fn cut(s: &str) -> String {
    s.chars().take(600).collect()
}

pub fn run(ctx: &Ctx, model: &mut Model, rep: &mut Report) {
    rep.rule = "random libraries and edit histories (update existing / insert new keys, biased towards removing headings, removing references, content after tables); correspondence: model vs real graph after every step on titles, formatted text, backlink sets, line ranges, block-at-line; oracle: real incremental Database vs Database::new on the current texts after every step (formatted text, titles, backlinks with places, block at every line, outline paths, search result sets for 4 queries, search order); non-trivial = ≥1 step; distinct by text".to_string();
    if let Some(path) = &ctx.replay {
        let v: serde_json::Value = serde_json::from_str(&std::fs::read_to_string(path).unwrap()).unwrap();
        if let Some(h) = v.get("history").and_then(hist::from_json) {
            rep.evaluations += 1;
            if let Some((step, what, _)) = oracle(&h) {
                rep.fail(json!({"kind": "incremental_vs_fresh", "history": hist::to_json(&h), "step": step, "what": what}));
            }
        }
        return;
    }
    for f in known::open(ctx, "C04") {
        if let Some(h) = f.witness.get("history").and_then(hist::from_json) {
            rep.evaluations += 1;
            match oracle(&h) {
                Some((_, what, _)) => rep.known_findings.push(json!({"id": f.id, "what": format!("{} — witness still fails: {}", f.what, cut(&what))})),
                None => rep.resolved_findings.push(json!({"id": f.id, "what": f.what})),
            }
        }
    }
    // repaired defects: their witnesses run as ordinary corpus cases (a failure is a violation again)
    for f in known::load(ctx, "C04").into_iter().filter(|f| f.status == "fixed") {
        if let Some(h) = f.witness.get("history").and_then(hist::from_json) {
            rep.evaluations += 1;
            rep.count("corpus_fixed_witnesses");
            if let Some((step, what, _)) = oracle(&h) {
                rep.fail(json!({"kind": "incremental_vs_fresh", "history": hist::to_json(&h), "step": step, "what": format!("regression of repaired defect {}: {}", f.id, what)}));
            }
        }
    }
    let d19_open = known::is_open(ctx, "C04", "D19");
    let n = if ctx.thorough { 6000 } else { 800 };
    for i in 0..n {
        let mut r = Rng::for_case(ctx.seed ^ 0xC04, i as u64);
        let mut h = hist::gen_history(&mut r, true, 8);
        bias(&mut r, &mut h);
        rep.case(&format!("{:?}", h), !h.steps.is_empty());
        rep.count(&format!("steps_{}", h.steps.len()));
        if i < 1 {
            rep.sample(hist::to_json(&h));
        }
        match hist::model_reply_parts(model, &h, PARTS) {
            None => rep.count("corr_skipped_unmodelled_inline_or_reader_panic"),
            Some(reply) => {
                let imp = hist::run_impl(&h, |_, _| {});
                match hist::compare(&reply, &imp, PARTS) {
                    Err(e) if e == "unmodelled" => rep.count("corr_skipped_unmodelled_builder_state"),
                    Err(e) => rep.disagree(json!({"op": "graph.history", "what": e, "history": hist::to_json(&h)})),
                    Ok(diffs) => {
                        rep.correspondence_cases += 1;
                        // tables are rendered by an external crate that the model does not cover
                        let diffs: Vec<_> = diffs.into_iter().filter(|d| !(d.part == "md" && d.model.contains("unmodelled"))).collect();
                        if let Some(d) = diffs.first() {
                            let part = d.part.clone();
                            let small = hist::shrink(&h, |c| {
                                hist::model_reply_parts(model, c, PARTS)
                                    .map(|rp| hist::compare(&rp, &hist::run_impl(c, |_, _| {}), PARTS).map(|d| d.iter().any(|x| x.part == part && !x.model.contains("unmodelled"))).unwrap_or(false))
                                    .unwrap_or(false)
                            });
                            let d2 = hist::model_reply_parts(model, &small, PARTS).and_then(|rp| hist::compare(&rp, &hist::run_impl(&small, |_, _| {}), PARTS).ok()).and_then(|v| v.into_iter().find(|x| x.part == part));
                            let (m, im, st) = d2.map(|x| (x.model, x.imp, x.step)).unwrap_or((d.model.clone(), d.imp.clone(), d.step));
                            rep.disagree(json!({"op": format!("graph.history part {} at step {}", part, st), "model": decode(&m), "impl": decode(&im), "history": hist::to_json(&small)}));
                        }
                    }
                }
            }
        }
        if let Some((step, what, order_only)) = oracle(&h) {
            if order_only && d19_open {
                rep.count("attributed_to_D19");
                continue;
            }
            let small = hist::shrink(&h, |c| oracle(c).map(|x| x.2 == order_only).unwrap_or(false));
            let (step, what, _) = oracle(&small).unwrap_or((step, what, order_only));
            rep.fail(json!({"kind": "incremental_vs_fresh", "history": hist::to_json(&small), "step": step, "what": what}));
        }
    }
}

/// make hex payloads readable in reports
pub fn decode(s: &str) -> String {
    let mut out = String::new();
    let b = s.as_bytes();
    let mut i = 0;
    while i < b.len() {
        if b[i] == b'#' {
            let mut j = i + 1;
            while j < b.len() && (b[j] as char).is_ascii_hexdigit() {
                j += 1;
            }
            out.push_str(&format!("{:?}", unhex(&s[i..j]).unwrap_or_default()));
            i = j;
        } else {
            out.push(b[i] as char);
            i += 1;
        }
    }
    out
}

/// the text without its front matter block
fn body_of(text: &str) -> String {
    if let Some(rest) = text.strip_prefix("---\n") {
        if let Some(i) = rest.find("\n---\n") {
            return rest[i + 5..].trim_start_matches('\n').to_string();
        }
    }
    text.to_string()
}

/// the same body under another front matter block (other line count, other value, none)
fn with_front_matter(variant: usize, body: &str) -> String {
    match variant % 5 {
        0 => format!("---\ntitle: a\n---\n\n{}", body),
        1 => format!("---\ntitle: a\ntags: x\nmodified: y\n---\n\n{}", body),
        2 => format!("---\ntitle: b\n---\n\n{}", body),
        3 => format!("---\ntitle: a\ntags: x\n---\n\n{}", body),
        _ => body.to_string(),
    }
}

/// bias steps towards the interesting transitions
fn bias(r: &mut Rng, h: &mut History) {
    let keys: Vec<String> = h.import.iter().map(|(k, _)| k.clone()).collect();
    let mut current: HashMap<String, String> = h.import.iter().cloned().collect();
    let mut i = 0;
    while i < h.steps.len() {
        let k = h.steps[i].0.clone();
        let s = &mut h.steps[i];
        match r.below(12) {
            // the heading is there but has no text (still being typed, or only an image): the title becomes empty
            8 => s.1 = r.pick(&["# \n", "#\n\ntext\n", "# ![](img.png)\n\nbody\n", "# \u{a0}\n", "## \n\n[x](a)\n"]).to_string(),
            // … and a note whose whole text goes away
            9 => s.1 = r.pick(&["", "\n", "   \n"]).to_string(),
            0 => s.1 = "just a paragraph now\n".into(), // heading removed
            1 => s.1 = format!("# t {}\n\n| a |\n|---|\n| b |\n\n[x]({})\n\ninline [y]({}) link\n", s.0.len(), r.pick(&keys[..]), r.pick(&keys[..])), // content after a table
            2 => s.1 = "# only a heading\n".into(), // all references removed
            3 => s.1 = format!("[ref]({})\n", crate::oracle::md::rel_url(r.pick(&keys[..]).as_str(), &crate::oracle::md::dir_of(&s.0))),
            // only the front matter changes (an editor stamping `modified:`): the body keeps its bytes and moves to other lines;
            // this step and the next one edit the same note
            10 | 11 => {
                let body = body_of(current.get(&k).unwrap_or(&s.1));
                let v = r.below(5);
                s.1 = with_front_matter(v, &body);
                if i + 1 < h.steps.len() {
                    let w = v + 1 + r.below(4);
                    h.steps[i + 1] = (k.clone(), with_front_matter(w, &body));
                    current.insert(k.clone(), h.steps[i].1.clone());
                    i += 1;
                }
            }
            _ => {}
        }
        current.insert(k.clone(), h.steps[i].1.clone());
        i += 1;
    }
}
