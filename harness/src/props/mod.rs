pub mod c15;
