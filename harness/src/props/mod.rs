pub mod c01;
pub mod c02;
pub mod c04;
pub mod c07;
pub mod c15;
pub mod c17;
pub mod c18;
pub mod c20;
