//! Talks to the compiled Lean model driver (`lean/.lake/build/bin/iwe_model`).
use std::io::{BufRead, BufReader, Write};
use std::process::{Child, ChildStdin, ChildStdout, Command, Stdio};

pub struct Model {
    child: Child,
    stdin: Option<ChildStdin>,
    stdout: BufReader<ChildStdout>,
    pub calls: u64,
}

impl Model {
    pub fn spawn(path: &str) -> Model {
        let mut child = Command::new(path)
            .stdin(Stdio::piped())
            .stdout(Stdio::piped())
            .spawn()
            .unwrap_or_else(|e| panic!("cannot start model driver {}: {}", path, e));
        let stdin = child.stdin.take();
        let stdout = BufReader::new(child.stdout.take().unwrap());
        let mut m = Model { child, stdin, stdout, calls: 0 };
        assert_eq!(m.call("(ping)"), "pong");
        m
    }

    pub fn call(&mut self, req: &str) -> String {
        self.calls += 1;
        let stdin = self.stdin.as_mut().unwrap();
        stdin.write_all(req.as_bytes()).unwrap();
        stdin.write_all(b"\n").unwrap();
        stdin.flush().unwrap();
        let mut line = String::new();
        self.stdout.read_line(&mut line).unwrap();
        if line.is_empty() {
            panic!("model driver closed the pipe on request {}", &req[..req.len().min(200)]);
        }
        line.trim_end().to_string()
    }

    /// Many requests, pipelined (writer thread) — order of replies = order of requests.
    pub fn call_many(&mut self, reqs: &[String]) -> Vec<String> {
        self.calls += reqs.len() as u64;
        let mut stdin = self.stdin.take().unwrap();
        let out = std::thread::scope(|s| {
            let h = s.spawn(move || {
                for r in reqs {
                    stdin.write_all(r.as_bytes()).unwrap();
                    stdin.write_all(b"\n").unwrap();
                }
                stdin.flush().unwrap();
                stdin
            });
            let mut out = Vec::with_capacity(reqs.len());
            for _ in 0..reqs.len() {
                let mut line = String::new();
                self.stdout.read_line(&mut line).unwrap();
                if line.is_empty() {
                    panic!("model driver closed the pipe");
                }
                out.push(line.trim_end().to_string());
            }
            (out, h.join().unwrap())
        });
        self.stdin = Some(out.1);
        out.0
    }
}

impl Drop for Model {
    fn drop(&mut self) {
        drop(self.stdin.take());
        let _ = self.child.wait();
    }
}
