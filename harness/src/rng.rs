//! One xorshift64* stream; every random choice of the harness derives from it.
#[derive(Clone)]
pub struct Rng(pub u64);

impl Rng {
    pub fn new(seed: u64) -> Rng {
        let mut r = Rng(seed.wrapping_mul(0x9E3779B97F4A7C15) ^ 0xD1B54A32D192ED03);
        if r.0 == 0 {
            r.0 = 0x2545F4914F6CDD1D;
        }
        for _ in 0..4 {
            r.next();
        }
        r
    }
    /// independent stream for case `index` of seed `seed`
    pub fn for_case(seed: u64, index: u64) -> Rng {
        Rng::new(seed ^ index.wrapping_mul(0xA24BAED4963EE407).rotate_left(17))
    }
    pub fn next(&mut self) -> u64 {
        let mut x = self.0;
        x ^= x >> 12;
        x ^= x << 25;
        x ^= x >> 27;
        self.0 = x;
        x.wrapping_mul(0x2545F4914F6CDD1D)
    }
    pub fn below(&mut self, n: usize) -> usize {
        if n == 0 {
            0
        } else {
            (self.next() % n as u64) as usize
        }
    }
    pub fn range(&mut self, lo: usize, hi: usize) -> usize {
        lo + self.below(hi - lo + 1)
    }
    pub fn chance(&mut self, num: usize, den: usize) -> bool {
        self.below(den) < num
    }
    pub fn pick<'a, T>(&mut self, xs: &'a [T]) -> &'a T {
        &xs[self.below(xs.len())]
    }
}
