/-
C06 — formatting refreshes link titles and never retargets or rewrites a link.
Decision logic of `GraphNodePointer::node` (reference nodes) and `GraphInline::normalize` (inline
links) stated outright, plus: which title is used (C04's `title_spec`), destinations are kept.
Helper lemmas live in `IweModel/Lemmas/Links.lean`.
-/
import IweModel.Lemmas.Links

namespace Iwe.C06
open Iwe

/-- **block reference, regular kind**: its text becomes the target's title if the target exists
and starts with a heading, otherwise it is kept; kind and target never change -/
theorem ref_title_refreshed (g : Graph) (key text : String) :
    g.normNode (.ref key text .regular) = .ref key ((g.title key).getD text) .regular := by
  rfl

/-- wiki references carry no text, piped wiki references keep theirs -/
theorem ref_wiki_kept (g : Graph) (key text : String) :
    g.normNode (.ref key text .wiki) = .ref key "" .wiki
    ∧ g.normNode (.ref key text .wikiPiped) = .ref key text .wikiPiped := by
  exact ⟨rfl, rfl⟩

/-- **the title used is the first heading of the latest version of the note the reference points
to** (no stale title, C04) — and nothing if that note is missing or does not start with a heading -/
theorem ref_title_is_current_heading (g : Graph) (lib : Library) (key : String) (h : Inv g lib) :
    g.title key = Spec.titleOf lib key := C04.title_spec g lib key h

/-- a missing note has no title: the reference keeps its text -/
theorem ref_to_missing_note_kept (g : Graph) (lib : Library) (key text : String) (h : Inv g lib)
    (hmiss : assocGet lib key = none) :
    g.normNode (.ref key text .regular) = .ref key text .regular := by
  rw [ref_title_refreshed, C04.title_spec g lib key h, Links.titleOf_missing lib key hmiss]
  rfl

/-- **inline link, decision table**: external link → unchanged; regular → text replaced by the
title of `from_file_name(url)` when there is one, else unchanged; bare wiki → no text; piped → kept -/
theorem inline_link_table (title : String → Option String) (url tt : String) (xs : Inlines) :
    (isRefUrl url = false → ∀ ty, Inline.normalize title (.link url tt ty xs) = .link url tt ty xs)
    ∧ (isRefUrl url = true → ∀ t, title (keyFromFileName url) = some t →
        Inline.normalize title (.link url tt .regular xs) = .link url tt .regular [.str t])
    ∧ (isRefUrl url = true → title (keyFromFileName url) = none →
        Inline.normalize title (.link url tt .regular xs) = .link url tt .regular xs)
    ∧ (isRefUrl url = true → Inline.normalize title (.link url tt .wiki xs) = .link url tt .wiki [])
    ∧ (isRefUrl url = true → Inline.normalize title (.link url tt .wikiPiped xs) = .link url tt .wikiPiped xs) := by
  refine ⟨?_, ?_, ?_, ?_, ?_⟩
  · intro h ty; simp [Inline.normalize, h]
  · intro h t ht; simp [Inline.normalize, h, ht]
  · intro h ht; simp [Inline.normalize, h, ht]
  · intro h; simp [Inline.normalize, h]
  · intro h; simp [Inline.normalize, h]

/-- images, code, math and plain text are never touched -/
theorem other_inlines_kept (title : String → Option String) (url tt s : String) (xs : Inlines) :
    Inline.normalize title (.image url tt xs) = .image url tt xs
    ∧ Inline.normalize title (.code s) = .code s
    ∧ Inline.normalize title (.str s) = .str s
    ∧ Inline.normalize title (.math s) = .math s := by
  simp [Inline.normalize]

mutual
/-- (destination, kind) of every link and destination of every image, in order -/
def dests : Inline → List (String × Option LinkType)
  | .link url _ t xs => (url, some t) :: destsL xs
  | .image url _ xs => (url, none) :: destsL xs
  | .emph xs => destsL xs
  | .strong xs => destsL xs
  | .strikeout xs => destsL xs
  | _ => []
def destsL : List Inline → List (String × Option LinkType)
  | [] => []
  | x :: xs => dests x ++ destsL xs
end

mutual
/-- a text without links and images has no destinations -/
theorem dests_of_hasNoLink : (x : Inline) → Links.hasNoLink x = true → dests x = []
  | .str _, _ => by simp [dests]
  | .code _, _ => by simp [dests]
  | .math _, _ => by simp [dests]
  | .emph xs, h => by
    simp only [Links.hasNoLink] at h; simp only [dests]; exact destsL_of_hasNoLinkL xs h
  | .strong xs, h => by
    simp only [Links.hasNoLink] at h; simp only [dests]; exact destsL_of_hasNoLinkL xs h
  | .strikeout xs, h => by
    simp only [Links.hasNoLink] at h; simp only [dests]; exact destsL_of_hasNoLinkL xs h
  | .link .., h => by simp [Links.hasNoLink] at h
  | .image .., h => by simp [Links.hasNoLink] at h
theorem destsL_of_hasNoLinkL : (xs : List Inline) → Links.hasNoLinkL xs = true → destsL xs = []
  | [], _ => by simp [destsL]
  | x :: xs, h => by
    simp only [Links.hasNoLinkL, Bool.and_eq_true] at h
    simp only [destsL, dests_of_hasNoLink x h.1, destsL_of_hasNoLinkL xs h.2, List.append_nil]
end

/-- the statement with the original hypothesis (link texts contain no *links*, images allowed) is
false: `[![alt](img.png)](a)` with a title for `a` loses the image together with the replaced link
text.  This is the behaviour of `GraphInline::normalize`; hence `Links.hasNoLink` rejects images
too. -/
theorem image_in_refreshed_link_text_is_lost :
    let title : String → Option String := fun k => if k == "a" then some "T" else none
    let xs : Inlines := [.link "a" "" .regular [.image "img.png" "" [.str "alt"]]]
    destsL xs = [("a", some .regular), ("img.png", none)]
    ∧ destsL (Inline.normalizeL title xs) = [("a", some .regular)] := by
  decide

mutual
theorem normalize_keeps_dests (title : String → Option String) :
    (x : Inline) → Links.noLinkInsideLinkText1 x = true → dests (Inline.normalize title x) = dests x
  | .str _, _ => by simp [Inline.normalize]
  | .code _, _ => by simp [Inline.normalize]
  | .math _, _ => by simp [Inline.normalize]
  | .emph xs, h => by
    simp only [Links.noLinkInsideLinkText1] at h
    simp only [Inline.normalize, dests]; exact normalizeL_keeps_dests title xs h
  | .strong xs, h => by
    simp only [Links.noLinkInsideLinkText1] at h
    simp only [Inline.normalize, dests]; exact normalizeL_keeps_dests title xs h
  | .strikeout xs, h => by
    simp only [Links.noLinkInsideLinkText1] at h
    simp only [Inline.normalize, dests]; exact normalizeL_keeps_dests title xs h
  | .image url t xs, _ => by simp [Inline.normalize]
  | .link url t ty xs, h => by
    simp only [Links.noLinkInsideLinkText1] at h
    have h0 := destsL_of_hasNoLinkL xs h
    simp only [Inline.normalize]
    split
    · cases ty with
      | regular =>
        simp only
        split <;> simp [dests, destsL, h0]
      | wiki => simp [dests, destsL, h0]
      | wikiPiped => rfl
    · rfl
theorem normalizeL_keeps_dests (title : String → Option String) :
    (xs : List Inline) → Links.noLinkInsideLinkText xs = true →
      destsL (Inline.normalizeL title xs) = destsL xs
  | [], _ => by simp [Inline.normalizeL]
  | x :: xs, h => by
    simp only [Links.noLinkInsideLinkText, Bool.and_eq_true] at h
    simp only [Inline.normalizeL, destsL, normalize_keeps_dests title x h.1,
      normalizeL_keeps_dests title xs h.2]
end

/-- **no inline link or image ever changes its destination or kind** under title refresh, at any
nesting depth of emphasis — only link *texts* change, and then the links nested in a replaced text
go with it; so we state it for the top-level links of every wrapper level: the list of
(destination, kind) of links not nested inside another link's text is unchanged.
Hypothesis: link texts contain neither links nor images (`Links.noLinkInsideLinkText`, strengthened:
with images allowed the statement is false, `image_in_refreshed_link_text_is_lost` above). -/
theorem normalize_keeps_destinations (title : String → Option String) (xs : Inlines)
    (hflat : Links.noLinkInsideLinkText xs = true) :
    destsL (Inline.normalizeL title xs) = destsL xs := by
  exact normalizeL_keeps_dests title xs hflat

/-- **the destination written for a block reference resolves, from the note's directory, to the
key the reference points to** (C15's round trip) -/
theorem block_reference_destination_kept (K D : List Path.Str) (hK : Path.NormalPath K)
    (hD : Path.NormalPath D) (hmd : Path.endsMd (Path.renderNames K) = false) :
    Path.fromRelLinkUrl (Path.toRelLinkUrl (Path.renderNames K) (Path.renderNames D)) (Path.renderNames D)
      = Path.renderNames K :=
  Path.resolve_relative K D hK hD hmd

/-- **the configured extension is added exactly once**: a regular reference link written with or
without `.md` is emitted as the bare url plus the configured extension (after the D26 repair) -/
theorem reference_link_extension_once (ext url tt : String) (xs : Inlines) (href : isRefUrl url = true) :
    Inline.toMarkdown ext (.link url tt .regular xs)
      = "[" ++ Inline.toMarkdownL ext xs ++ "](" ++ keyFromFileName url ++ ext ++ ")"
    ∧ keyFromFileName (url ++ ".md") = keyFromFileName url := by
  refine ⟨?_, Links.keyFromFileName_append_md url⟩
  simp [Inline.toMarkdown, href]

/-- autolink rule: an external link whose text is its own url (ASCII case-insensitively) is
written `<url>`; external links are otherwise written verbatim without extension -/
theorem external_link_rendering (ext url tt : String) (xs : Inlines) (hext : isRefUrl url = false) :
    Inline.toMarkdown ext (.link url tt .regular xs)
      = (if Inline.asciiLower (Inline.toMarkdownL ext xs) == Inline.asciiLower url then "<" ++ url ++ ">"
         else "[" ++ Inline.toMarkdownL ext xs ++ "](" ++ url ++ ")") := by
  simp [Inline.toMarkdown, hext]

/-- **finding D12, stated**: for an inline link the title used is that of `from_file_name(url)`,
i.e. of the note the url names *from the library root*; from a sub-directory this is not the note
the link resolves to (`x` written in `d/n` resolves to `d/x`) -/
theorem inline_title_is_root_relative_counterexample :
    let title : String → Option String := fun k => if k == "x" then some "ROOT" else if k == "d/x" then some "RIGHT" else none
    (match Inline.normalize title (.link "x" "" .regular [.str "old"]) with
     | .link _ _ _ [.str s] => s
     | _ => "") = "ROOT"
    ∧ keyFromRel "x" "d" = "d/x" := by
  decide

end Iwe.C06
