/-
C20 — the document graph stays a well-formed forest after every operation.
Property theorems only; helper lemmas live in `IweModel/Lemmas/Arena.lean` (layout, `Covers`),
`ArenaWalk.lean` (pointer walks), `ArenaGraph.lean` (`addDocument` / `updateKey` / `importDocs`)
and `ArenaWf.lean` (the executable check).
-/
import IweModel.Lemmas.ArenaWf

namespace Iwe.C20
open Iwe

/-- **Well-formedness.** The arena is, from offset 0, a sequence of tombstones and of the
closed-form segments of the notes (`Covers`, defined in `Lemmas/Arena.lean`), the segments are
exactly the notes bound in `keys`, and no key is bound twice.  So: the library is a set of
disjoint trees, one per note; every live block lies in exactly one segment and has exactly one
place in it. -/
def WF (g : Graph) : Prop :=
  ∃ segs : List Seg,
    Covers 0 segs g.arena
    ∧ (∀ k id, (k, id) ∈ g.keys ↔ ∃ s ∈ segs, s.key = k ∧ s.base = id)
    ∧ (segs.map (·.key)).Nodup
    ∧ (g.keys.map (·.1)).Nodup

/-- the empty library is well-formed -/
theorem wf_empty (ext : String) : WF { ext := ext } := by
  exact ⟨[], Covers.nil 0, by simp, by simp, by simp⟩

/-- adding a note under a key that is not bound yet (new file, or `import`) keeps well-formedness -/
theorem wf_addDocument (g g' : Graph) (dir : String → String) (key : String) (d : Document)
    (h : WF g) (hnew : assocGet g.keys key = none)
    (hok : g.addDocument dir key d = .ok g') : WF g' := by
  obtain ⟨segs, hw⟩ := h
  have hw' : WFWith segs g.arena (assocErase g.keys key) := by
    rw [assocErase_eq_self hnew]; exact hw
  obtain ⟨f, hw1⟩ := hw'.addDocument hok
  exact ⟨_, hw1⟩

/-- `Arena::delete_branch` on the root of a note blanks exactly that note's segment: every other
node of the arena — in particular every other note — is left as it was. -/
theorem deleteBranch_blanks_segment (pre post : List GNode) (s : Seg) (fuel : Nat)
    (hb : s.base = pre.length) (hf : s.nodes.length ≤ fuel) :
    Arena.deleteBranch fuel (pre ++ s.nodes ++ post) s.base
      = pre ++ List.replicate s.nodes.length GNode.empty ++ post := by
  exact Arena.deleteBranch_seg pre post s fuel hb hf

/-- `update_key` (edit of an existing note, or insertion of a new one) keeps well-formedness -/
theorem wf_updateKey (g g' : Graph) (key : String) (d : Document)
    (h : WF g) (hok : g.updateKey key d = .ok g') : WF g' := by
  obtain ⟨segs, hw⟩ := h
  rw [Graph.updateKey_eq] at hok
  cases hg : assocGet g.keys key with
  | none =>
    rw [hg] at hok
    have hw' : WFWith segs g.arena (assocErase g.keys key) := by
      rw [assocErase_eq_self hg]; exact hw
    obtain ⟨f, hw1⟩ := hw'.addDocument hok
    exact ⟨_, hw1⟩
  | some id =>
    rw [hg] at hok
    obtain ⟨segs', hw'⟩ := WFWith.deleteBranch hw hg
    obtain ⟨f, hw1⟩ := WFWith.addDocument (g := { g with arena := Arena.deleteBranch g.arena.length g.arena id }) hw' hok
    exact ⟨_, hw1⟩

/-- run a history of updates / insertions -/
def runHistory (g : Graph) : List (String × Document) → Except Site Graph
  | [] => .ok g
  | (k, d) :: rest =>
    match g.updateKey k d with
    | .error e => .error e
    | .ok g' => runHistory g' rest

/-- **every reachable state is well-formed**: any history of edits and insertions from a
well-formed library -/
theorem wf_reachable (g g' : Graph) (h : WF g) (steps : List (String × Document))
    (hok : runHistory g steps = .ok g') : WF g' := by
  induction steps generalizing g with
  | nil => simp [runHistory] at hok; subst hok; exact h
  | cons p rest ih =>
    obtain ⟨k, d⟩ := p
    simp only [runHistory] at hok
    cases h1 : g.updateKey k d with
    | error e => rw [h1] at hok; simp at hok
    | ok g1 =>
      rw [h1] at hok
      exact ih g1 (wf_updateKey g g1 k d h h1) hok

/-- `import` of files with pairwise distinct note keys gives a well-formed library
(two files mapping to one key — `x.md` and `x.md.md` — orphan the first tree; see finding D15) -/
theorem wf_import (ext : String) (state : List (String × Document)) (g : Graph)
    (hd : (state.map fun p => keyFromFileName p.1).Nodup)
    (hok : Graph.importDocs ext state = .ok g) : WF g := by
  rw [Graph.importDocs_eq] at hok
  refine Graph.import_fold_wf _ { ext := ext } g ⟨[], Covers.nil 0, by simp, by simp, by simp⟩ ?_
    (by intro p _; rfl) hok
  exact ((Graph.sortBy_perm _ state).map _).nodup_iff.2 hd

/-- **walking a note from its root visits precisely its blocks, in document order**: reading the
tree back through the `child` / `next` pointers gives the note's forest, with the pre-order ids. -/
theorem collect_segment (segs : List Seg) (a : List GNode) (s : Seg) (norm : Node → Node) (fuel : Nat)
    (h : Covers 0 segs a) (hs : s ∈ segs) (hf : 2 * a.length + 2 ≤ fuel) :
    Arena.collectTree a norm fuel s.base
      = some (Tree.mk (some s.base) (norm (.document s.key)) (forestWithIds norm (s.base + 1) s.forest)) := by
  obtain ⟨pre, post, rfl, hb⟩ := h.mem_split s hs
  exact Arena.collectTree_seg pre post s norm fuel (by omega) (by simp at hf ⊢; omega)

/-- **asking for the note of any block of a note gives that note** (`to_document`, `node_key`) -/
theorem toDocument_segment (segs : List Seg) (a : List GNode) (s : Seg) (i fuel : Nat)
    (h : Covers 0 segs a) (hs : s ∈ segs) (hi : s.base ≤ i ∧ i < s.base + s.nodes.length)
    (hf : a.length + 1 ≤ fuel) :
    Arena.toDocument a fuel i = some s.base := by
  obtain ⟨pre, post, rfl, hb⟩ := h.mem_split s hs
  have hc := Arena.segClosed_embed pre post s (by omega)
  exact hc.toDocument (i - s.base) i fuel hi.1 hi.2 (Nat.le_refl _) (by simp at hf; omega)

/-- **removed versions are unreachable**: every id visited when walking a note lies inside the
note's own segment, whose nodes are all live; tombstones and other notes' blocks are never reached -/
theorem walk_stays_in_segment (segs : List Seg) (a : List GNode) (s : Seg) (fuel : Nat)
    (h : Covers 0 segs a) (hs : s ∈ segs) :
    ∀ i ∈ Arena.allSubNodes a fuel s.base,
      s.base ≤ i ∧ i < s.base + s.nodes.length ∧ (Arena.get a i).isEmpty = false := by
  obtain ⟨pre, post, rfl, hb⟩ := h.mem_split s hs
  have hc := Arena.segClosed_embed pre post s (by omega)
  intro i hi
  have := hc.allSubNodes fuel s.base (Nat.le_refl _) (by have := s.nodes_length_pos; omega) i hi
  exact ⟨this.1, this.2, hc.not_empty this.1 this.2⟩

/-- **operations on one note never disturb another note's blocks**: after `update_key k`, the
segment of every other note is bit-for-bit where it was. -/
theorem notes_independent (g g' : Graph) (key : String) (d : Document) (segs : List Seg) (s : Seg)
    (h : Covers 0 segs g.arena) (hs : s ∈ segs) (hk : s.key ≠ key)
    (hkeys : ∀ k id, (k, id) ∈ g.keys ↔ ∃ s ∈ segs, s.key = k ∧ s.base = id)
    (hnd : (segs.map (·.key)).Nodup)
    (hok : g.updateKey key d = .ok g') :
    (g'.arena.drop s.base).take s.nodes.length = s.nodes := by
  have key1 : ∃ a1 segs1 f, Covers 0 segs1 a1 ∧ s ∈ segs1
      ∧ g'.arena = a1 ++ Arena.layoutDoc a1.length key f := by
    rw [Graph.updateKey_eq] at hok
    cases hg : assocGet g.keys key with
    | none =>
      rw [hg] at hok
      obtain ⟨f, ha, _⟩ := Graph.addDocument_ok hok
      exact ⟨g.arena, segs, f, h, hs, ha⟩
    | some id =>
      rw [hg] at hok
      obtain ⟨f, ha, _⟩ := Graph.addDocument_ok hok
      obtain ⟨s0, hs0, hk0, rfl⟩ := (hkeys key id).1 (assocGet_some_mem hg)
      obtain ⟨ss1, ss2, rfl, hc⟩ := Covers.deleteBranch h hs0
      refine ⟨_, ss1 ++ ss2, f, hc, ?_, ha⟩
      simp only [List.mem_append, List.mem_cons] at hs ⊢
      rcases hs with hs | rfl | hs
      · exact Or.inl hs
      · exact absurd hk0 hk
      · exact Or.inr hs
  obtain ⟨a1, segs1, f, hc, hs1, ha⟩ := key1
  obtain ⟨pre, post, rfl, hb⟩ := hc.mem_split s hs1
  rw [ha]
  simp only [Nat.zero_add] at hb
  simp [hb]

/-- the executable check used as oracle on the implementation's arena accepts every well-formed model state -/
theorem wfCheck_of_WF (g : Graph) (h : WF g) : Wf.wfCheck g.arena g.keys = true := by
  obtain ⟨segs, hw⟩ := h
  exact Wf.wfCheck_of_WFWith hw

/-- non-vacuity: a two-note library built by the model is well-formed (6 nodes) and the executable check agrees -/
example :
    (match Graph.importDocs "" [("a", ⟨[.header ⟨0, 1⟩ 1 [.str "t"], .para ⟨2, 3⟩ [.str "p"]], none⟩),
                                ("b", ⟨[.blist [[.para ⟨0, 1⟩ [.str "i"]]]], none⟩)] with
     | .ok g => Wf.wfCheck g.arena g.keys && g.arena.length == 6
     | .error _ => false) = true := by
  decide

end Iwe.C20
