/-
C13 — positions sent and received refer to the right place in the editor's text.
The reader's byte arithmetic equals LSP positions exactly on ASCII text with `\n` line ends
(`_partial`); with `\r\n` or multi-byte characters it does not (finding D14, kernel-checked
witnesses).  Hit testing of links is stated outright.  Helper lemmas: `IweModel/Lemmas/Position.lean`.
-/
import IweModel.Lemmas.Position

namespace Iwe.C13
open Iwe Iwe.Position

/-- **positions are exact on ASCII text with LF line ends**: the reader's (line, character) of any
byte offset inside the text is its LSP position -/
theorem inline_range_exact_partial (content : Bytes) (off : Nat)
    (hascii : isAscii content = true) (hcr : noCr content = true) (hoff : off ≤ content.length) :
    locate (lineStarts content) off = specPos content off := by
  exact locate_lineStarts_eq_specPos content off hascii hcr hoff

/-- hence both ends of every reported inline range are exact -/
theorem to_inline_range_exact_partial (content : Bytes) (s e : Nat)
    (hascii : isAscii content = true) (hcr : noCr content = true) (hs : s ≤ content.length) (he : e ≤ content.length) :
    toInlineRange content s e = (specPos content s, specPos content e) := by
  simp only [toInlineRange, inline_range_exact_partial content s hascii hcr hs,
    inline_range_exact_partial content e hascii hcr he]

/-- **line numbers are exact for every CR-free text, ASCII or not**: whatever bytes the text holds (any UTF-8,
even ill-formed), the line the reader reports for a byte offset is its LSP line.  Everything the server
addresses by line only — code actions, reference locations, symbols, hints — is therefore exact on non-ASCII
notes; only columns (go-to-definition and rename inside a line) suffer from finding D14. -/
theorem line_exact_partial (content : Bytes) (off : Nat) (hcr : noCr content = true) (hoff : off ≤ content.length) :
    (locate (lineStarts content) off).line = (specPos content off).line :=
  locate_line_eq_specPos_line content off hcr hoff

/-- hence the first line of every block's line range is the LSP line of its first byte, on such text -/
theorem block_start_line_exact_partial (content : Bytes) (s e : Nat) (hcr : noCr content = true)
    (hs : s ≤ content.length) : (toLineRange content s e).1 = (specPos content s).line := by
  simp only [toLineRange]
  exact line_exact_partial content s hcr hs

/-- non-vacuity: `é😀⏎x`, every offset (the column of offset 6, behind `é😀`, is wrong: D14; the lines are right) -/
example :
    let t : Bytes := [0xC3, 0xA9, 0xF0, 0x9F, 0x98, 0x80, 10, 120]
    noCr t = true ∧ (List.range 9).all (fun off => (locate (lineStarts t) off).line == (specPos t off).line) = true
      ∧ locate (lineStarts t) 6 ≠ specPos t 6 := by
  decide

/-- **a link is hit exactly when the cursor is inside its source span** (half-open: the position
just behind the closing parenthesis is outside) -/
theorem link_hit_iff (r : Pos × Pos) (p : Pos) :
    inRange r p = true ↔
      ((r.1.line < p.line ∨ (r.1.line = p.line ∧ r.1.character ≤ p.character))
       ∧ (p.line < r.2.line ∨ (p.line = r.2.line ∧ p.character < r.2.character))) := by
  simp only [inRange, posLe, posLt, Bool.and_eq_true, Bool.or_eq_true, Bool.not_eq_true',
    Bool.or_eq_false_iff, Bool.and_eq_false_iff, decide_eq_true_eq, decide_eq_false_iff_not,
    beq_iff_eq, beq_eq_false_iff_ne]
  omega

/-- **a block's line range is never empty and starts at the line of its first byte** -/
theorem line_range_covers_block (content : Bytes) (s e : Nat) :
    (toLineRange content s e).1 = (locate (lineStarts content) s).line
    ∧ ((locate (lineStarts content) s).line ≤ (locate (lineStarts content) e).line →
        (toLineRange content s e).1 < (toLineRange content s e).2) := by
  refine ⟨rfl, fun h => ?_⟩
  simp only [toLineRange]
  split <;> omega

/-- **the rename range is the destination**: for `[text](dest)` on one line starting at character
`c`, with ASCII text, `key_range` is exactly the span of `dest` -/
theorem key_range_is_destination_partial (line c textLen destLen : Nat) :
    keyRange (⟨line, c⟩, ⟨line, c + textLen + destLen + 4⟩) textLen
      = (⟨line, c + textLen + 3⟩, ⟨line, c + textLen + 3 + destLen⟩) := by
  simp only [keyRange, Prod.mk.injEq, Pos.mk.injEq, true_and]
  omega

/-- **finding D42**: for a link whose source wraps over a line break the rename range is not the destination —
`see [the wrapped⏎title](n1)`: the link spans 0:4–1:10, its text is 17 characters long, `key_range` answers
0:24–1:9 while `n1` stands at 1:7–1:9 (`key_range_is_destination_partial` needs the link on one line) -/
theorem key_range_multiline_counterexample :
    keyRange (⟨0, 4⟩, ⟨1, 10⟩) 17 = (⟨0, 24⟩, ⟨1, 9⟩)
    ∧ keyRange (⟨0, 4⟩, ⟨1, 10⟩) 17 ≠ (⟨1, 7⟩, ⟨1, 9⟩) := by
  decide

/-- **finding D14, CRLF**: every `\r\n` before the point shifts the reported column by one:
in `a\r\nbc`, byte 4 (`c`) is LSP (1,1) but reported (1,2)… -/
theorem crlf_counterexample :
    locate (lineStarts [97, 13, 10, 98, 99]) 4 = ⟨1, 2⟩ ∧ specPos [97, 13, 10, 98, 99] 4 = ⟨1, 1⟩ := by
  decide

/-- **finding D14, multi-byte**: after `é` (2 bytes, 1 UTF-16 unit) the reported column is one too
large; after `😀` (4 bytes, 2 units) two too large -/
theorem multibyte_counterexample :
    locate (lineStarts [0xC3, 0xA9, 120]) 2 = ⟨0, 2⟩ ∧ specPos [0xC3, 0xA9, 120] 2 = ⟨0, 1⟩
    ∧ locate (lineStarts [0xF0, 0x9F, 0x98, 0x80, 120]) 4 = ⟨0, 4⟩ ∧ specPos [0xF0, 0x9F, 0x98, 0x80, 120] 4 = ⟨0, 2⟩ := by
  decide

/-- non-vacuity: a two-line ASCII text, every offset -/
example :
    (List.range 8).all (fun off =>
      locate (lineStarts [97, 98, 10, 99, 100, 101, 10]) off == specPos [97, 98, 10, 99, 100, 101, 10] off) = true := by
  decide

end Iwe.C13
