/-
C03 — no document can crash, hang or kill the server or CLI (what a model can carry).
Every model function is a total Lean definition (structural recursion, or fuel with a proved
sufficiency bound), and every `panic!` / `unwrap` of the modelled code is an explicit `.error site`.
This file collects the totality statements; most are corollaries of theorems proved for other
properties.  Stack and heap exhaustion are outside any executable model (DESIGN.md §8).
-/
import IweModel.Props.C01
import IweModel.Props.C04
import IweModel.Props.C17
import IweModel.Props.C20
import IweModel.Lemmas.ReaderTotal

namespace Iwe.C03
open Iwe

/-- **loading never panics on the well-formed class**: the section builder returns a forest
(with the fuel the model gives it — no hidden non-termination) -/
theorem build_total (dir : String) (bs : List DBlock)
    (hitems : Tok.itemsOkL bs = true) (hlists : Tok.listsNonEmptyL bs = true) :
    ∃ f, Sections.forest dir bs = .ok f :=
  C01.forest_total_partial dir bs hitems hlists

/-- the one panic site of the builder, reached exactly by a list item that starts with a code
block, quote, rule or table (finding D9) -/
theorem build_panic_site :
    (match Sections.forest "" [.blist [[.code ⟨0, 1⟩ none "x"]]] with
     | .error .sectionBlock => true
     | _ => false) = true :=
  C01.forest_panics_on_code_first_item

/-- **formatting a note of a well-formed library never fails to find its blocks**: reading the
note back through the arena pointers succeeds and yields the note's forest (no dangling pointer,
no tombstone, enough fuel) -/
theorem collect_total (segs : List Seg) (a : List GNode) (s : Seg) (norm : Node → Node)
    (h : Covers 0 segs a) (hs : s ∈ segs) :
    ∃ t, Arena.collectTree a norm (2 * a.length + 2) s.base = some t :=
  ⟨_, C20.collect_segment segs a s norm (2 * a.length + 2) h hs (Nat.le_refl _)⟩

/-- **the block found at a line never indexes out of range**: for every line number whatsoever the
answer is `some id` of the note or `none` -/
theorem nodeIdAt_total (g : Graph) (lib : Library) (k : String) (line b : Nat) (f : List BTree)
    (h : Inv g lib) (hb : assocGet g.keys k = some b) (hf : Spec.forestOf lib k = some f) :
    ∃ r, g.nodeIdAt k line = .ok r :=
  ⟨_, C04.nodeIdAt_spec g lib k line b f h hb hf⟩

/-- **squash terminates for every reference graph and depth** — it is a total function; its result
has the root of the note (so the caller's `first().unwrap()` cannot fail) -/
theorem squash_total (lib : String → Option Tree) (d : Nat) (t : Tree) :
    ∃ r, Squash.squash lib d t = r ∧ r.id = t.id :=
  ⟨_, rfl, (C17.squash_root lib d t).1⟩

/-- **walking a note never leaves it**: every id visited from a note's root is a live node of that
note's own segment, for any amount of fuel (no unbounded walk through other notes) -/
theorem walk_total (segs : List Seg) (a : List GNode) (s : Seg) (fuel : Nat)
    (h : Covers 0 segs a) (hs : s ∈ segs) :
    ∀ i ∈ Arena.allSubNodes a fuel s.base, (Arena.get a i).isEmpty = false :=
  fun i hi => (C20.walk_stays_in_segment segs a s fuel h hs i hi).2.2

/-! ### the reader (`markdown/reader.rs`)

The reader is a stack machine over the parser's events; `Model/Reader.lean` has one `.error` per
`expect` / `unwrap` / `panic!` an event stream can reach (`top_block` on an empty stack, `pop_inline` /
`pop_block` on empty stacks, `append_item` / `append_row` / `append_cell` / `append_block` on the wrong
kind of block, `items.last_mut().unwrap()` on a list without items).  None is reached on a stream that
follows the parser's grammar (`Spec/Events.lean`: blocks only at top level, in quotes and in items; inlines
only in paragraphs, headings, cells, other inlines and tight items; every list has an item; tags are
bracketed).  The grammar is an assumption about pulldown-cmark; the correspondence run evaluates it on
the event stream of every generated text and reports a stream that violates it. -/

/-- **the reader never panics while it reads** a grammatical event stream — at every prefix, i.e. also
when the text ends inside open blocks -/
theorem reader_total (content : Position.Bytes) (evs : List Reader.Ev)
    (h : Events.wellFormedPrefix evs = true) : ∃ st, Reader.run content {} evs = .ok st :=
  ReaderTotal.run_total_core content evs h

/-- on a complete stream `MarkdownEventsReader::read` returns, with nothing left open: every block that
was started is in the result or inside one of its containers -/
theorem reader_delivers (content : Position.Bytes) (evs : List Reader.Ev)
    (h : Events.wellFormed evs = true) :
    (∃ r, Reader.read content evs = .ok r) ∧
    ∃ st, Reader.run content {} evs = .ok st ∧ st.stack = [] ∧ st.inlines = [] ∧ st.metaBlock = false :=
  ⟨ReaderTotal.read_total_core content evs h, ReaderTotal.run_delivers_core content evs h⟩

/-- finding D9 on the model: `Text` inside a top-level HTML block (pulldown-cmark emits it for an HTML
block indented by one to three spaces) reaches `top_block()` on an empty stack; that stream is what the
grammar excludes -/
theorem reader_panic_site (content : Position.Bytes) (s e : Nat) (t : String) :
    Reader.read content [.startHtml, .text s e t, .endHtml] = .error .emptyStack
    ∧ Events.wellFormedPrefix [.startHtml, .text s e t, .endHtml] = false :=
  ⟨ReaderTotal.html_text_at_top_level_panics content s e t, ReaderTotal.html_text_at_top_level_not_wellFormed s e t⟩

/-- non-vacuity: a stream with a tight item followed by a nested list and trailing text, a quote, a table
and inline containers is grammatical, and the model reads it -/
example :
    let evs : List Reader.Ev :=
      [.startList false, .startItem, .text 2 3 "a", .startList true, .startItem, .text 8 9 "b", .endItem, .endList,
       .text 12 13 "c", .endItem, .endList,
       .startQuote 14 20, .startPara 16 20, .startInline .emph 16 19, .text 17 18 "q", .endInline, .endPara, .endQuote,
       .startTable 21 40 [.left], .startCell, .text 23 24 "h", .startRow, .startCell, .code 30 33 "x", .endTable,
       .rule 41 44]
    Events.wellFormed evs = true ∧ (match Reader.read [] evs with | .ok (bs, _) => bs.length | .error _ => 0) = 4 := by
  decide

end Iwe.C03
