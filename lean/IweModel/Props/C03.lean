/-
C03 — no document can crash, hang or kill the server or CLI (what a model can carry).
Every model function is a total Lean definition (structural recursion, or fuel with a proved
sufficiency bound), and every `panic!` / `unwrap` of the modelled code is an explicit `.error site`.
This file collects the totality statements; most are corollaries of theorems proved for other
properties.  Stack and heap exhaustion are outside any executable model (DESIGN.md §8).
-/
import IweModel.Props.C01
import IweModel.Props.C04
import IweModel.Props.C17
import IweModel.Props.C20

namespace Iwe.C03
open Iwe

/-- **loading never panics on the well-formed class**: the section builder returns a forest
(with the fuel the model gives it — no hidden non-termination) -/
theorem build_total (dir : String) (bs : List DBlock)
    (hitems : Tok.itemsOkL bs = true) (hlists : Tok.listsNonEmptyL bs = true) :
    ∃ f, Sections.forest dir bs = .ok f :=
  C01.forest_total_partial dir bs hitems hlists

/-- the one panic site of the builder, reached exactly by a list item that starts with a code
block, quote, rule or table (finding D9) -/
theorem build_panic_site :
    (match Sections.forest "" [.blist [[.code ⟨0, 1⟩ none "x"]]] with
     | .error .sectionBlock => true
     | _ => false) = true :=
  C01.forest_panics_on_code_first_item

/-- **formatting a note of a well-formed library never fails to find its blocks**: reading the
note back through the arena pointers succeeds and yields the note's forest (no dangling pointer,
no tombstone, enough fuel) -/
theorem collect_total (segs : List Seg) (a : List GNode) (s : Seg) (norm : Node → Node)
    (h : Covers 0 segs a) (hs : s ∈ segs) :
    ∃ t, Arena.collectTree a norm (2 * a.length + 2) s.base = some t :=
  ⟨_, C20.collect_segment segs a s norm (2 * a.length + 2) h hs (Nat.le_refl _)⟩

/-- **the block found at a line never indexes out of range**: for every line number whatsoever the
answer is `some id` of the note or `none` -/
theorem nodeIdAt_total (g : Graph) (lib : Library) (k : String) (line b : Nat) (f : List BTree)
    (h : Inv g lib) (hb : assocGet g.keys k = some b) (hf : Spec.forestOf lib k = some f) :
    ∃ r, g.nodeIdAt k line = .ok r :=
  ⟨_, C04.nodeIdAt_spec g lib k line b f h hb hf⟩

/-- **squash terminates for every reference graph and depth** — it is a total function; its result
has the root of the note (so the caller's `first().unwrap()` cannot fail) -/
theorem squash_total (lib : String → Option Tree) (d : Nat) (t : Tree) :
    ∃ r, Squash.squash lib d t = r ∧ r.id = t.id :=
  ⟨_, rfl, (C17.squash_root lib d t).1⟩

/-- **walking a note never leaves it**: every id visited from a note's root is a live node of that
note's own segment, for any amount of fuel (no unbounded walk through other notes) -/
theorem walk_total (segs : List Seg) (a : List GNode) (s : Seg) (fuel : Nat)
    (h : Covers 0 segs a) (hs : s ∈ segs) :
    ∀ i ∈ Arena.allSubNodes a fuel s.base, (Arena.get a i).isEmpty = false :=
  fun i hi => (C20.walk_stays_in_segment segs a s fuel h hs i hi).2.2

end Iwe.C03
