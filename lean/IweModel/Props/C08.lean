/-
C08 — rename moves a note and keeps every link pointing at it (tree level: `Tree::change_key`,
decision logic of `handle_rename`).  Helper lemmas live in `IweModel/Lemmas/TreeOps.lean`.
-/
import IweModel.Lemmas.TreeOps

namespace Iwe.C08
open Iwe Actions

/-- **every block reference that pointed to the old key points to the new one, every other one is
untouched** -/
theorem changeKey_block_refs (a b : String) (t : Tree) :
    Content.refKeys (Tree.changeKey a b t) = (Content.refKeys t).map fun k => if k == a then b else k :=
  Content.refKeys_changeKey a b t

/-- **the same for links inside text, exact form**: with `Content.inlineSites t` the link sites of
the note in index order (`(reached, url)`, `reached = false` inside the alt text of an image, see
`IweModel/Lemmas/TreeRekey.lean`), every site is indexed under `from_file_name url` before, and
after `change_key a b` under `from_file_name b` if it is hit (reached, `is_ref url`, key `a`) and
under its old key otherwise -/
theorem changeKey_inline_links_exact (a b : String) (t : Tree) :
    Content.inlineKeys t = (Content.inlineSites t).map Inline.siteKey
    ∧ Content.inlineKeys (Tree.changeKey a b t) = (Content.inlineSites t).map (Inline.rekeySite a b) :=
  ⟨Content.inlineKeys_eq_sites t, Content.inlineKeys_changeKey a b t⟩

/-- **the same for links inside text** (restated: the original had a vacuous hypothesis `hext` and
only the first conjunct).  Provided `b` is a normalised key (`from_file_name b = b`):
every inline key of the result is `b` or was one of the original; every original inline key other
than `a` is still there; there are as many as before and position by position the key is kept or
goes from `a` to `b`.
Not every link indexed under `a` is rewritten: see `changeKey_skips_external_link`,
`changeKey_skips_image_alt` and `changeKey_inline_links_complete`. -/
theorem changeKey_inline_links (a b : String) (t : Tree) (hb : keyFromFileName b = b) :
    (∀ k, k ∈ Content.inlineKeys (Tree.changeKey a b t) → k = b ∨ k ∈ Content.inlineKeys t)
    ∧ (∀ k, k ∈ Content.inlineKeys t → k ≠ a → k ∈ Content.inlineKeys (Tree.changeKey a b t))
    ∧ (Content.inlineKeys (Tree.changeKey a b t)).length = (Content.inlineKeys t).length
    ∧ (∀ p ∈ (Content.inlineKeys (Tree.changeKey a b t)).zip (Content.inlineKeys t),
        p.1 = p.2 ∨ (p.2 = a ∧ p.1 = b)) := by
  rw [Content.inlineKeys_eq_sites t, Content.inlineKeys_changeKey a b t]
  generalize Content.inlineSites t = l
  refine ⟨?_, ?_, by simp, ?_⟩
  · intro k hk
    simp only [List.mem_map] at hk ⊢
    obtain ⟨p, hp, rfl⟩ := hk
    unfold Inline.rekeySite
    split
    · exact .inl hb
    · exact .inr ⟨p, hp, rfl⟩
  · intro k hk hne
    simp only [List.mem_map] at hk ⊢
    obtain ⟨p, hp, rfl⟩ := hk
    refine ⟨p, hp, ?_⟩
    unfold Inline.rekeySite
    split
    · rename_i hhit
      simp only [Inline.siteHit, Bool.and_eq_true, beq_iff_eq] at hhit
      exact absurd hhit.2 hne
    · rfl
  · intro q hq
    rw [List.zip_map', List.mem_map] at hq
    obtain ⟨p, _, rfl⟩ := hq
    show Inline.rekeySite a b p = Inline.siteKey p ∨ (Inline.siteKey p = a ∧ Inline.rekeySite a b p = b)
    unfold Inline.rekeySite
    split
    · rename_i hhit
      simp only [Inline.siteHit, Bool.and_eq_true, beq_iff_eq] at hhit
      exact .inr ⟨hhit.2, hb⟩
    · exact .inl rfl

/-- **completeness under the side condition**: if every link indexed under `a` is a note link
outside image alt text, then after `change_key a b` (`a ≠ b`, `b` normalised) no inline link is
indexed under `a` any more, and those under `b` are exactly the old ones plus the re-targeted ones -/
theorem changeKey_inline_links_complete (a b : String) (t : Tree) (hb : keyFromFileName b = b) (hab : a ≠ b)
    (hall : ∀ p ∈ Content.inlineSites t, Inline.siteKey p = a → p.1 = true ∧ isRefUrl p.2 = true) :
    a ∉ Content.inlineKeys (Tree.changeKey a b t)
    ∧ (Content.inlineKeys (Tree.changeKey a b t)).count b
        = (Content.inlineKeys t).count a + (Content.inlineKeys t).count b := by
  rw [Content.inlineKeys_eq_sites t, Content.inlineKeys_changeKey a b t]
  generalize Content.inlineSites t = l at hall
  have hhit : ∀ p ∈ l, Inline.siteKey p = a → Inline.siteHit a p = true := by
    intro p hp hk
    obtain ⟨h1, h2⟩ := hall p hp hk
    simp only [Inline.siteKey] at hk
    simp [Inline.siteHit, h1, h2, hk]
  have hmiss : ∀ p : Bool × String, Inline.siteKey p ≠ a → Inline.siteHit a p = false := by
    intro p hk
    simp only [Inline.siteKey] at hk
    simp [Inline.siteHit, hk]
  clear hall
  constructor
  · intro hm
    simp only [List.mem_map] at hm
    obtain ⟨p, hp, he⟩ := hm
    by_cases hk : Inline.siteKey p = a
    · simp only [Inline.rekeySite, hhit p hp hk, if_true, hb] at he
      exact hab he.symm
    · simp only [Inline.rekeySite, hmiss p hk] at he
      exact hk he
  · induction l with
    | nil => simp
    | cons p l ih =>
      have ih' := ih (fun q hq => hhit q (List.mem_cons_of_mem _ hq))
      simp only [List.map_cons, List.count_cons, ih']
      by_cases hk : Inline.siteKey p = a
      · have hab' : (a == b) = false := by simpa using hab
        simp [Inline.rekeySite, hhit p (List.mem_cons_self) hk, hb, hk, hab']
        omega
      · have hk' : (Inline.siteKey p == a) = false := by simpa using hk
        simp [Inline.rekeySite, hmiss p hk, hk']
        omega

/-- a link indexed under `a` that is not a note link (`is_ref` false) is left alone by `change_key`
although `ref_keys` lists it -/
theorem changeKey_skips_external_link :
    let t : Tree := .mk (some 0) (.leaf [.link "https://a" "" .regular [.str "x"]]) []
    (Content.inlineKeys t == ["https://a"]
      && Content.inlineKeys (Tree.changeKey "https://a" "b" t) == ["https://a"]) = true := by
  decide

/-- **finding (model level)**: a note link inside the alt text of an image is indexed as an inline
reference (`ref_keys` enters `Image`) but is not rewritten by rename (`change_key` has no `Image`
arm): after renaming `a` to `b` it still points to `a` -/
theorem changeKey_skips_image_alt :
    let t : Tree := .mk (some 0) (.leaf [.image "pic.png" "" [.link "a" "" .regular [.str "x"]]]) []
    (Content.inlineKeys t == ["a"] && Content.inlineKeys (Tree.changeKey "a" "b" t) == ["a"]) = true := by
  decide

/-- structure, ids and all non-link content are unchanged by `change_key` -/
theorem changeKey_keeps_shape (a b : String) (t : Tree) :
    Tree.ids (Tree.changeKey a b t) = Tree.ids t ∧ Tree.size (Tree.changeKey a b t) = Tree.size t :=
  ⟨Tree.ids_changeKey a b t, Tree.size_changeKey a b t⟩

/-- a note without any link to the old key is returned unchanged -/
theorem changeKey_frame (a b : String) (t : Tree)
    (h1 : a ∉ Content.refKeys t) (h2 : a ∉ Content.inlineKeys t) :
    Tree.changeKey a b t = t :=
  Tree.changeKey_frame a b t h1 h2

/-- **renaming onto an existing note is refused without edits** -/
theorem rename_refused_if_taken (g : Graph) (fromKey : String) (url : Option String) (newName : String)
    (h : (assocGet g.keys (keyFromFileName newName)).isSome = true) :
    rename g fromKey url newName = .error (.other "taken") := by
  simp [rename, h]

/-- no link under the cursor: nothing happens -/
theorem rename_without_link (g : Graph) (fromKey newName : String)
    (h : (assocGet g.keys (keyFromFileName newName)).isSome = false) :
    rename g fromKey none newName = .ok none := by
  simp [rename, h]

/-- **shape of the edit**: when rename succeeds it deletes the old note, creates the new one with
the old content re-keyed, and rewrites exactly the notes that hold a live link to the old key
(sorted, the renamed note itself excluded) -/
theorem rename_edit_shape (g : Graph) (fromKey url newName : String) (cs : List Change)
    (h : rename g fromKey (some url) newName = .ok (some cs)) :
    ∃ updates tree,
      g.collect (keyFromRel url (keyParent fromKey)) = .ok tree
      ∧ cs = updates ++ [.remove (keyFromRel url (keyParent fromKey)), .create newName,
              .update newName (patchMarkdown g (keyFromFileName newName)
                (Tree.changeKey (keyFromRel url (keyParent fromKey)) (keyFromFileName newName) tree))]
      ∧ updates.length = (Graph.sortBy (fun a b => a < b)
          (dedupStr (((g.blockReferencesTo (keyFromRel url (keyParent fromKey))
                        ++ g.inlineReferencesTo (keyFromRel url (keyParent fromKey))).filterMap g.nodeKey).filter
                      fun k => !(k == keyFromRel url (keyParent fromKey))))).length := by
  unfold rename at h
  simp only at h
  split at h
  · cases h
  · split at h
    · cases h
    · rename_i tree hcollect
      split at h
      · cases h
      · simp only [Except.ok.injEq, Option.some.injEq] at h
        refine ⟨_, tree, hcollect, h.symm, ?_⟩
        simp

/-- **finding D16, in the model**: the new name is taken root-relative when the note is built and
directory-relative when it is exported; from a sub-directory the two differ and the handler
panics (`to have key`) — here: rename requested from note `d/n` -/
theorem rename_from_subdirectory_panics :
    (match Graph.importDocs "" [("a", ⟨[.header ⟨0, 1⟩ 1 [.str "A"]], none⟩),
                                ("d/n", ⟨[.para ⟨0, 1⟩ [.link "../a" "" .regular [.str "x"]]], none⟩)] with
     | .ok g => (match rename g "d/n" (some "../a") "b" with | .error .noKey => true | _ => false)
     | .error _ => false) = true := by
  decide

/-- **finding D16, second half**: an inline link to the renamed note loses its text
(`change_key` empties it; the patch graph has no title to refill it) -/
theorem rename_blanks_inline_link_text :
    (match Inline.changeKey "a" "b" (.link "a" "" .regular [.str "keep me"]) with
     | .link url _ _ xs => url == "b" && xs.isEmpty
     | _ => false) = true := by
  decide

end Iwe.C08
