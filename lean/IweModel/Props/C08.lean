/-
C08 — rename moves a note and keeps every link pointing at it (tree level: `Tree::change_key`,
decision logic of `handle_rename`).  Helper lemmas live in `IweModel/Lemmas/TreeOps.lean`.
-/
import IweModel.Lemmas.TreeOps

namespace Iwe.C08
open Iwe Actions

/-- **every block reference that pointed to the old key points to the new one, every other one is
untouched** -/
theorem changeKey_block_refs (a b : String) (t : Tree) :
    Content.refKeys (Tree.changeKey a b t) = (Content.refKeys t).map fun k => if k == a then b else k := by
  sorry

/-- **the same for links inside text** (note links; an external url never equals a key through
`from_file_name` unless it names one — they are excluded by `is_ref`): provided `b` is a
normalised key (so that `from_file_name b = b`) -/
theorem changeKey_inline_links (a b : String) (t : Tree) (hb : keyFromFileName b = b)
    (hext : ∀ k ∈ Content.inlineKeys t, k = a → True) :
    ∀ k, k ∈ Content.inlineKeys (Tree.changeKey a b t) → k = b ∨ k ∈ Content.inlineKeys t := by
  sorry

/-- structure, ids and all non-link content are unchanged by `change_key` -/
theorem changeKey_keeps_shape (a b : String) (t : Tree) :
    Tree.ids (Tree.changeKey a b t) = Tree.ids t ∧ Tree.size (Tree.changeKey a b t) = Tree.size t := by
  sorry

/-- a note without any link to the old key is returned unchanged -/
theorem changeKey_frame (a b : String) (t : Tree)
    (h1 : a ∉ Content.refKeys t) (h2 : a ∉ Content.inlineKeys t) :
    Tree.changeKey a b t = t := by
  sorry

/-- **renaming onto an existing note is refused without edits** -/
theorem rename_refused_if_taken (g : Graph) (fromKey : String) (url : Option String) (newName : String)
    (h : (assocGet g.keys (keyFromFileName newName)).isSome = true) :
    rename g fromKey url newName = .error (.other "taken") := by
  sorry

/-- no link under the cursor: nothing happens -/
theorem rename_without_link (g : Graph) (fromKey newName : String)
    (h : (assocGet g.keys (keyFromFileName newName)).isSome = false) :
    rename g fromKey none newName = .ok none := by
  sorry

/-- **shape of the edit**: when rename succeeds it deletes the old note, creates the new one with
the old content re-keyed, and rewrites exactly the notes that hold a live link to the old key
(sorted, the renamed note itself excluded) -/
theorem rename_edit_shape (g : Graph) (fromKey url newName : String) (cs : List Change)
    (h : rename g fromKey (some url) newName = .ok (some cs)) :
    ∃ updates tree,
      g.collect (keyFromRel url (keyParent fromKey)) = .ok tree
      ∧ cs = updates ++ [.remove (keyFromRel url (keyParent fromKey)), .create newName,
              .update newName (patchMarkdown g (keyFromFileName newName)
                (Tree.changeKey (keyFromRel url (keyParent fromKey)) (keyFromFileName newName) tree))]
      ∧ updates.length = (Graph.sortBy (fun a b => a < b)
          (dedupStr (((g.blockReferencesTo (keyFromRel url (keyParent fromKey))
                        ++ g.inlineReferencesTo (keyFromRel url (keyParent fromKey))).filterMap g.nodeKey).filter
                      fun k => !(k == keyFromRel url (keyParent fromKey))))).length := by
  sorry

/-- **finding D16, in the model**: the new name is taken root-relative when the note is built and
directory-relative when it is exported; from a sub-directory the two differ and the handler
panics (`to have key`) — here: rename requested from note `d/n` -/
theorem rename_from_subdirectory_panics :
    (match Graph.importDocs "" [("a", ⟨[.header ⟨0, 1⟩ 1 [.str "A"]], none⟩),
                                ("d/n", ⟨[.para ⟨0, 1⟩ [.link "../a" "" .regular [.str "x"]]], none⟩)] with
     | .ok g => (match rename g "d/n" (some "../a") "b" with | .error .noKey => true | _ => false)
     | .error _ => false) = true := by
  decide

/-- **finding D16, second half**: an inline link to the renamed note loses its text
(`change_key` empties it; the patch graph has no title to refill it) -/
theorem rename_blanks_inline_link_text :
    (match Inline.changeKey "a" "b" (.link "a" "" .regular [.str "keep me"]) with
     | .link url _ _ xs => url == "b" && xs.isEmpty
     | _ => false) = true := by
  decide

end Iwe.C08
