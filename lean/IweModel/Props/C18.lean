/-
C18 — symbol search and path listings show every heading and only real ones.
Theorems about `Model/Paths.lean` (`graph_to_paths`, `search_paths`, ordering and truncation of
`global_search`).  Helper lemmas live in `IweModel/Lemmas/Paths.lean`.
-/
import IweModel.Lemmas.Paths
import IweModel.Model.Symbols
import IweModel.Lemmas.Cli

namespace Iwe.C18
open Iwe Iwe.Paths

/-- `Includes g a d`: the section of heading `a` directly holds a block reference to the note whose
`Document` node is `d` (`direct`), or it includes — in this sense — a note `d'` that holds, outside of
any section (before its first heading), a block reference to the note `d` (`via`).  This is what
`paths_for_node` follows: for a `Document` node it continues with the parents of the block
references to it, and such a parent may itself be a `Document` node. -/
inductive Includes (g : Graph) (a : Nat) : Nat → Prop
  | direct {r : Nat} {key : String} {d i : Nat} {child : Option Nat} :
      (key, r) ∈ g.blockRefs → Arena.toParent g.arena (fuelOf g) r = some a
      → g.node d = .document i child key → Includes g a d
  | via {r : Nat} {key : String} {d d' i : Nat} {child : Option Nat} :
      (key, r) ∈ g.blockRefs → Arena.toParent g.arena (fuelOf g) r = some d' → Includes g a d'
      → g.node d = .document i child key → Includes g a d

/-- one step of an outline path: from a heading to one of its sub-headings, or from a heading whose
section holds a block reference (directly, or through notes whose reference sits before their first
heading, see `Includes`) to a top-level heading of the referenced note.

Statement change w.r.t. the first draft, whose second disjunct was
`∃ r key d child, (key, r) ∈ g.blockRefs ∧ toParent r = some a ∧ toParent b = some d ∧ g.node d = .document d child key`:
that version is false, see the two counterexamples at the end of this file. -/
def Step (g : Graph) (a b : Nat) : Prop :=
  Arena.toParent g.arena (fuelOf g) b = some a
  ∨ ∃ d, Includes g a d ∧ Arena.toParent g.arena (fuelOf g) b = some d

def isSectionNode (g : Graph) (id : Nat) : Prop :=
  ∃ i p n c xs, g.node id = .node i p n c (.sect xs)

/-- how the last element `l` of a path produced for node `id` relates to `id` (auxiliary) -/
def LastOk (g : Graph) (id l : Nat) : Prop := (isSectionNode g id ∧ l = id) ∨ Includes g l id

/-- the walk invariant behind `pathsForNode_sound`: additionally tracks the last element of the path -/
theorem pathsForNode_inv (g : Graph) : ∀ (fuel : Nat) (visited : List Nat) (id : Nat) (p : List Nat),
    p ∈ pathsForNode g fuel visited id →
    (∀ x ∈ p, isSectionNode g x) ∧ ChainRel (Step g) p ∧ p.Nodup ∧ (∀ x ∈ p, x ∉ visited)
      ∧ ∃ l, p.getLast? = some l ∧ LastOk g id l := by
  intro fuel
  induction fuel with
  | zero => intro visited id p hp; simp [pathsForNode] at hp
  | succ fuel ih =>
    intro visited id p hp
    rw [pathsForNode] at hp
    split at hp
    · simp at hp
    · rename_i hvis
      have hvis' : id ∉ visited := by simpa using hvis
      split at hp
      · -- document
        rename_i i c key hnode
        simp only [List.mem_flatMap, List.mem_map, List.mem_filter] at hp
        obtain ⟨r, ⟨⟨k', r'⟩, ⟨hmem, hk⟩, rfl⟩, hp⟩ := hp
        have hk' : k' = key := by simpa using hk
        subst hk'
        cases hpar : Arena.toParent g.arena (fuelOf g) r' with
        | none => simp [hpar] at hp
        | some par =>
          simp only [hpar] at hp
          obtain ⟨h1, h2, h3, h4, l, hl, hlast⟩ := ih (id :: visited) par p hp
          refine ⟨h1, h2, h3, fun x hx hv => h4 x hx (List.mem_cons_of_mem _ hv), l, hl, Or.inr ?_⟩
          rcases hlast with ⟨_, rfl⟩ | hinc
          · exact Includes.direct hmem hpar hnode
          · exact Includes.via hmem hpar hinc hnode
      · -- section
        rename_i i pr nx c xs hnode
        have hsect : isSectionNode g id := ⟨_, _, _, _, _, hnode⟩
        rcases List.mem_append.1 hp with hp | hp
        · cases hpar : Arena.toParent g.arena (fuelOf g) id with
          | none => simp [hpar] at hp
          | some par =>
            simp only [hpar, List.mem_map] at hp
            obtain ⟨q, hq, rfl⟩ := hp
            obtain ⟨h1, h2, h3, h4, l, hl, hlast⟩ := ih (id :: visited) par q hq
            have hidq : id ∉ q := fun h => h4 id h (by simp)
            refine ⟨?_, ?_, ?_, ?_, id, by simp, Or.inl ⟨hsect, rfl⟩⟩
            · intro x hx
              rcases List.mem_append.1 hx with hx | hx
              · exact h1 x hx
              · simp at hx; subst hx; exact hsect
            · refine ChainRel.snoc h2 hl ?_
              rcases hlast with ⟨_, rfl⟩ | hinc
              · exact Or.inl hpar
              · exact Or.inr ⟨par, hinc, hpar⟩
            · rw [List.nodup_append]
              refine ⟨h3, by simp, ?_⟩
              intro a ha b hb
              simp at hb; subst hb
              intro h; subst h; exact hidq ha
            · intro x hx
              rcases List.mem_append.1 hx with hx | hx
              · exact fun hv => h4 x hx (List.mem_cons_of_mem _ hv)
              · simp at hx; subst hx; exact hvis'
        · simp at hp; subst hp
          refine ⟨?_, trivial, by simp, ?_, id, rfl, Or.inl ⟨hsect, rfl⟩⟩
          · intro x hx; simp at hx; subst hx; exact hsect
          · intro x hx; simp at hx; subst hx; exact hvis'
      · simp at hp

/-- **only real chains are listed (walk level)**: every path produced for a node ends at that node,
consists of section nodes only, every step is a `Step`, and no node occurs twice on it (the cycle
guard — so listings stay finite when notes include each other) -/
theorem pathsForNode_sound (g : Graph) (fuel : Nat) (visited : List Nat) (id : Nat) (p : List Nat)
    (hp : p ∈ pathsForNode g fuel visited id) :
    p ≠ [] ∧ (∀ x ∈ p, isSectionNode g x) ∧ ChainRel (Step g) p ∧ p.Nodup
    ∧ (∀ x ∈ p, x ∉ visited) := by
  obtain ⟨h1, h2, h3, h4, l, hl, _⟩ := pathsForNode_inv g fuel visited id p hp
  refine ⟨?_, h1, h2, h3, h4⟩
  rintro rfl
  simp at hl

/-- **only real chains are listed (listing level)**: every listed path is a non-empty chain of
headings; its first heading is a top-level heading (its parent is the note itself) of a note that no
live block reference points to -/
theorem paths_sound (g : Graph) (p : List Nat) (hp : p ∈ graphToPaths g) :
    p ≠ [] ∧ (∀ x ∈ p, isSectionNode g x) ∧ ChainRel (Step g) p ∧ p.Nodup
    ∧ (∃ first par, p.head? = some first ∧ Arena.toParent g.arena (fuelOf g) first = some par
        ∧ (g.node par).isDocument = true
        ∧ ∃ k, g.nodeKey first = some k ∧ g.blockReferencesTo k = []) := by
  unfold graphToPaths at hp
  rw [mem_sortDedup, List.mem_filter, List.mem_flatMap] at hp
  obtain ⟨⟨id, _, hmem⟩, hcond⟩ := hp
  obtain ⟨h0, h1, h2, h3, _⟩ := pathsForNode_sound g _ _ id p hmem
  refine ⟨h0, h1, h2, h3, ?_⟩
  cases hh : p.head? with
  | none => simp [hh] at hcond
  | some first =>
    simp only [hh, Bool.and_eq_true] at hcond
    obtain ⟨hc1, hc2⟩ := hcond
    cases hk : g.nodeKey first with
    | none => simp [hk] at hc1
    | some k =>
      cases hpar : Arena.toParent g.arena (fuelOf g) first with
      | none => simp [hpar] at hc2
      | some par =>
        simp only [hk, List.isEmpty_iff] at hc1
        simp only [hpar] at hc2
        exact ⟨first, par, rfl, hpar, hc2, k, hk, hc1⟩

/-- the listing has no duplicates and is in the canonical (lexicographic) order, whatever order the
parallel walk found the paths in -/
theorem paths_sorted_nodup (g : Graph) :
    (graphToPaths g).Pairwise (fun a b => pathLt a b = true) ∧ (graphToPaths g).Nodup := by
  unfold graphToPaths
  exact ⟨sortDedup_sorted _, (sortDedup_sorted _).nodup⟩

/-- `sortDedup` forgets the order and multiplicity in which paths were found (C16 uses this too) -/
theorem sortDedup_perm_invariant (ps qs : List (List Nat)) (h : ∀ p, p ∈ ps ↔ p ∈ qs) :
    sortDedup ps = sortDedup qs := by
  refine Sorted.ext (sortDedup_sorted ps) (sortDedup_sorted qs) ?_
  intro p
  rw [mem_sortDedup, mem_sortDedup, h]

set_option linter.unusedVariables false in
/-- **complete for notes nobody references**: in a well-formed graph, if no live block reference
points to note `s.key`, every top-level heading of that note is listed as a path of its own
(the proof only needs the arena part `hc` of well-formedness, not `hkeys` / `hnd`) -/
theorem top_headings_listed (g : Graph) (segs : List Seg) (s : Seg) (xs : Inlines) (lr : Option LineRange)
    (cs rest : List BTree) (pre : List BTree)
    (hc : Covers 0 segs g.arena) (hs : s ∈ segs)
    (hkeys : ∀ k id, (k, id) ∈ g.keys ↔ ∃ s ∈ segs, s.key = k ∧ s.base = id)
    (hnd : (segs.map (·.key)).Nodup)
    (hf : s.forest = pre ++ BTree.mk (.sect xs) lr cs :: rest)
    (hroot : g.blockReferencesTo s.key = []) :
    [s.base + 1 + Arena.sizes pre] ∈ graphToPaths g := by
  obtain ⟨pre0, post, ha, hb⟩ := Covers.mem_split hc s hs
  have hb' : pre0.length = s.base := by omega
  obtain ⟨⟨pr, nx, ch, hnode⟩, ⟨dch, hdoc⟩, hpar⟩ := Seg.top_block ha hb' hf
  have hbounds := Covers.bounds hc s hs
  have hlen : s.nodes.length = 1 + (Arena.sizes pre + (1 + Arena.sizes cs + Arena.sizes rest)) := by
    rw [Seg.length_nodes, hf, Arena.sizes_append]; simp [Arena.sizes, Arena.size]
  have hpl := Arena.length_le_sizes pre
  generalize hi : s.base + 1 + Arena.sizes pre = i at hnode hpar
  have hlt : i < g.arena.length := by omega
  have hparent : Arena.toParent g.arena (g.arena.length + 1) i = some s.base := hpar _ (by omega)
  have hkey : g.nodeKey i = some s.key := by
    have hsc := Arena.segClosed_embed pre0 post s hb'
    rw [← ha] at hsc
    unfold Graph.nodeKey
    rw [hsc.toDocument (i - s.base) i _ (by omega) (by omega) (Nat.le_refl _) (by omega)]
    simp [Graph.node, hdoc, GNode.key?]
  have hinlist : Arena.isInList g.arena (g.arena.length + 1) i = false := by
    rw [Arena.isInList, hnode]
    simp only [hparent]
    obtain ⟨m, hm⟩ : ∃ m, g.arena.length = m + 1 := ⟨g.arena.length - 1, by omega⟩
    rw [hm, Arena.isInList, hdoc]
  unfold graphToPaths
  rw [mem_sortDedup, List.mem_filter, List.mem_flatMap]
  refine ⟨⟨i, ?_, ?_⟩, ?_⟩
  · rw [List.mem_filter, List.mem_range]
    refine ⟨hlt, ?_⟩
    simp only [fuelOf, hinlist, Graph.node, hnode, GNode.isEmpty]
    rfl
  · rw [show 2 * g.arena.length + 2 = (2 * g.arena.length + 1) + 1 by omega, pathsForNode]
    simp only [Graph.node, hnode]
    simp
  · simp only [List.head?_cons, hkey, hroot, fuelOf, hparent, Graph.node, hdoc, GNode.isDocument]
    rfl

/-- **search returns at most 100 entries** -/
theorem search_at_most_100 (paths : List SearchPath) (scores : List Nat) (e : Bool) :
    (globalSearch paths scores e).length ≤ 100 := by
  unfold globalSearch
  simp only [List.length_take]
  omega

/-- the comparator of `global_search` for an empty query -/
private def beforeEmpty (a b : SearchPath × Nat) : Bool :=
  a.1.rank > b.1.rank || (a.1.rank == b.1.rank && a.1.text.utf8ByteSize < b.1.text.utf8ByteSize)

/-- the comparator of `global_search` for a non-empty query -/
private def beforeQuery (a b : SearchPath × Nat) : Bool :=
  a.2 > b.2 || (a.2 == b.2 && (a.1.text.utf8ByteSize < b.1.text.utf8ByteSize
    || (a.1.text.utf8ByteSize == b.1.text.utf8ByteSize && a.1.rank > b.1.rank)))

private theorem beforeEmpty_asymm (a b : SearchPath × Nat) (h : beforeEmpty a b = true) :
    beforeEmpty b a = false := by
  generalize ha : a.1.text.utf8ByteSize = sa at *
  generalize hb : b.1.text.utf8ByteSize = sb at *
  simp only [beforeEmpty, ha, hb, Bool.or_eq_true, Bool.and_eq_true, decide_eq_true_eq, beq_iff_eq,
    Bool.or_eq_false_iff, Bool.and_eq_false_iff, decide_eq_false_iff_not, beq_eq_false_iff_ne] at h ⊢
  omega

private theorem beforeEmpty_trans (a b c : SearchPath × Nat) (h1 : beforeEmpty a b = true)
    (h2 : beforeEmpty b c = true) : beforeEmpty a c = true := by
  simp only [beforeEmpty, Bool.or_eq_true, Bool.and_eq_true, decide_eq_true_eq, beq_iff_eq] at h1 h2 ⊢
  omega

private theorem beforeQuery_asymm (a b : SearchPath × Nat) (h : beforeQuery a b = true) :
    beforeQuery b a = false := by
  simp only [beforeQuery, Bool.or_eq_true, Bool.and_eq_true, decide_eq_true_eq, beq_iff_eq,
    Bool.or_eq_false_iff, Bool.and_eq_false_iff, decide_eq_false_iff_not, beq_eq_false_iff_ne] at h ⊢
  omega

private theorem beforeQuery_trans (a b c : SearchPath × Nat) (h1 : beforeQuery a b = true)
    (h2 : beforeQuery b c = true) : beforeQuery a c = true := by
  simp only [beforeQuery, Bool.or_eq_true, Bool.and_eq_true, decide_eq_true_eq, beq_iff_eq] at h1 h2 ⊢
  omega

/-- **an empty query lists the most-referenced notes first**: ranks never increase along the result -/
theorem empty_query_most_referenced_first (paths : List SearchPath) (scores : List Nat) :
    (globalSearch paths scores true).Pairwise (fun a b => b.rank ≤ a.rank) := by
  unfold globalSearch
  refine List.Pairwise.sublist (List.take_sublist _ _) ?_
  rw [List.pairwise_map]
  have h := sortStable_sorted beforeEmpty_asymm beforeEmpty_trans (paths.zip scores)
  simp only [if_true]
  refine List.Pairwise.imp ?_ h
  intro a b hab
  simp only [beforeEmpty, Bool.or_eq_false_iff, Bool.and_eq_false_iff, decide_eq_false_iff_not,
    beq_eq_false_iff_ne] at hab
  omega

/-- **documented order for a non-empty query**: better fuzzy score first; among equal scores the
shorter text; among those the higher rank.  Stated on the (path, score) pairs before truncation. -/
theorem search_order_nonempty (paths : List SearchPath) (scores : List Nat) :
    (sortStable (fun (a b : SearchPath × Nat) =>
        a.2 > b.2 || (a.2 == b.2 && (a.1.text.utf8ByteSize < b.1.text.utf8ByteSize
          || (a.1.text.utf8ByteSize == b.1.text.utf8ByteSize && a.1.rank > b.1.rank)))) (paths.zip scores)).Pairwise
      (fun a b => b.2 < a.2 ∨ (b.2 = a.2 ∧ (a.1.text.utf8ByteSize < b.1.text.utf8ByteSize
          ∨ (a.1.text.utf8ByteSize = b.1.text.utf8ByteSize ∧ b.1.rank ≤ a.1.rank)))) := by
  have h := sortStable_sorted beforeQuery_asymm beforeQuery_trans (paths.zip scores)
  refine List.Pairwise.imp ?_ h
  intro a b hab
  simp only [beforeQuery, Bool.or_eq_false_iff, Bool.and_eq_false_iff, decide_eq_false_iff_not,
    beq_eq_false_iff_ne] at hab
  omega

/-- nothing is invented or lost by the sort: the result of `global_search` is a sub-multiset of the
candidate paths, and all of them when there are at most 100 -/
theorem search_results_are_paths (paths : List SearchPath) (scores : List Nat) (e : Bool)
    (hlen : scores.length = paths.length) :
    (∀ sp ∈ globalSearch paths scores e, sp ∈ paths)
    ∧ (paths.length ≤ 100 → (globalSearch paths scores e).Perm paths) := by
  unfold globalSearch
  have hperm := fun before => (sortStable_perm before (paths.zip scores)).map (·.1)
  have hzip : (paths.zip scores).map (·.1) = paths := List.map_fst_zip (by omega)
  constructor
  · intro sp hsp
    have := (hperm _).mem_iff.1 (List.mem_of_mem_take hsp)
    rwa [hzip] at this
  · intro h100
    have := hperm (fun (a b : SearchPath × Nat) =>
      if e then
        a.1.rank > b.1.rank || (a.1.rank == b.1.rank && a.1.text.utf8ByteSize < b.1.text.utf8ByteSize)
      else
        a.2 > b.2 || (a.2 == b.2 && (a.1.text.utf8ByteSize < b.1.text.utf8ByteSize
          || (a.1.text.utf8ByteSize == b.1.text.utf8ByteSize && a.1.rank > b.1.rank))))
    rw [hzip] at this
    rw [List.take_of_length_le (by rw [this.length_eq]; exact h100)]
    exact this

/-- **symbol names are the heading texts of the chain** (trimmed, joined by a blank; the LSP layer
joins with ` • `) -/
theorem names_are_heading_texts (g : Graph) (sp : SearchPath) (h : sp ∈ searchPaths g) :
    sp.path ∈ graphToPaths g
    ∧ sp.text = " ".intercalate (sp.path.map fun id => Render.trim (nodeText g id))
    ∧ sp.root = (sp.path.length == 1) := by
  unfold searchPaths at h
  have h := (sortStable_perm _ _).mem_iff.1 h
  obtain ⟨p, hp, rfl⟩ := List.mem_map.1 h
  exact ⟨hp, rfl, rfl⟩

/-- non-vacuity: note `a` includes `b`; listed paths are `A`, `A • A2`, `A • B` — not `B` alone (it is
referenced) — as evaluated by the kernel -/
example :
    (match Graph.importDocs "" [
        ("a", ⟨[.header ⟨0, 1⟩ 1 [.str "A"], .para ⟨2, 3⟩ [.link "b" "" .regular [.str "x"]], .header ⟨4, 5⟩ 2 [.str "A2"]], none⟩),
        ("b", ⟨[.header ⟨0, 1⟩ 1 [.str "B"]], none⟩)] with
     | .ok g => graphToPaths g == [[1], [1, 3], [1, 5]]
     | .error _ => false) = true := by
  decide

/-! ## why `Step` is not the first draft -/

/-! ### The symbol handlers (`Model/Symbols.lean`): `workspace/symbol` and `textDocument/documentSymbol` -/

open Iwe.Symbols in
/-- **workspace symbols are the search results, in their order**: one symbol per result whose rendered
name is not empty; nothing is reordered or added by the LSP layer -/
theorem workspace_symbols_order (g : Graph) (results : List SearchPath) :
    workspaceSymbols g results
      = (results.filter fun sp => renderPath g sp.path != "").map (pathToSymbol g) := by
  unfold workspaceSymbols
  induction results with
  | nil => rfl
  | cons sp rest ih =>
    simp only [List.map_cons, List.filter_cons]
    have : (pathToSymbol g sp).name = renderPath g sp.path := rfl
    rw [this]
    split <;> simp_all

open Iwe.Symbols in
/-- **at most 100 workspace symbols**, whatever the query -/
theorem workspace_symbols_at_most_100 (g : Graph) (paths : List SearchPath) (scores : List Nat) (e : Bool) :
    (workspaceSymbols g (globalSearch paths scores e)).length ≤ 100 := by
  unfold workspaceSymbols
  exact Nat.le_trans (List.length_filter_le _ _) (by rw [List.length_map]; exact search_at_most_100 paths scores e)

open Iwe.Symbols in
/-- **every workspace symbol names a listed chain of headings**: its name is the trimmed heading texts
of a listed outline path joined by ` • `, it is a `NAMESPACE` exactly when the path is a single
top-level heading, and its location is the note and line of the path's last heading -/
theorem workspace_symbol_is_listed_path (g : Graph) (results : List SearchPath)
    (hres : ∀ sp ∈ results, sp ∈ searchPaths g) (s : Symbol) (hs : s ∈ workspaceSymbols g results) :
    ∃ p ∈ graphToPaths g,
      s.name = " • ".intercalate (p.map fun id => Render.trim (nodeText g id))
      ∧ s.name ≠ ""
      ∧ s.namespaceKind = (p.length == 1)
      ∧ s.key = (g.nodeKey (p.getLast?.getD 0)).getD ""
      ∧ s.line = ((g.nodeLineRange (p.getLast?.getD 0)).map (·.start)).getD 0 := by
  unfold workspaceSymbols at hs
  obtain ⟨hm, hne⟩ := List.mem_filter.1 hs
  obtain ⟨sp, hsp, rfl⟩ := List.mem_map.1 hm
  have h := hres sp hsp
  unfold searchPaths at h
  have h := (sortStable_perm _ _).mem_iff.1 h
  obtain ⟨p, hp, rfl⟩ := List.mem_map.1 h
  refine ⟨p, hp, rfl, ?_, rfl, rfl, rfl⟩
  simpa using hne

private theorem docBefore_asymm : ∀ a b : List Nat, Symbols.docBefore a b = true → Symbols.docBefore b a = false
  | [], [], h => by simp [Symbols.docBefore] at h
  | [], _ :: _, h => by simp [Symbols.docBefore] at h
  | _ :: _, [], _ => by simp [Symbols.docBefore]
  | a :: as, b :: bs, h => by
    unfold Symbols.docBefore at h ⊢
    by_cases hab : a = b
    · subst hab
      simp only [beq_self_eq_true, if_true] at h ⊢
      exact docBefore_asymm as bs h
    · have hba : ¬ b = a := fun e => hab e.symm
      simp only [beq_iff_eq, hab, hba, if_false, decide_eq_true_eq, decide_eq_false_iff_not] at h ⊢
      omega

private theorem docBefore_trans : ∀ a b c : List Nat, Symbols.docBefore a b = true → Symbols.docBefore b c = true →
    Symbols.docBefore a c = true
  | [], _, _, h1, _ => by
    cases ‹List Nat› <;> simp [Symbols.docBefore] at h1
  | _ :: _, [], [], _, h2 => by simp [Symbols.docBefore] at h2
  | _ :: _, [], _ :: _, _, h2 => by simp [Symbols.docBefore] at h2
  | _ :: _, _ :: _, [], _, _ => by simp [Symbols.docBefore]
  | a :: as, b :: bs, c :: cs, h1, h2 => by
    unfold Symbols.docBefore at h1 h2 ⊢
    by_cases hab : a = b
    · subst hab
      simp only [beq_self_eq_true, if_true] at h1
      by_cases hac : a = c
      · subst hac
        simp only [beq_self_eq_true, if_true] at h2 ⊢
        exact docBefore_trans as bs cs h1 h2
      · simp only [beq_iff_eq, hac, if_false] at h2 ⊢
        exact h2
    · simp only [beq_iff_eq, hab, if_false, decide_eq_true_eq] at h1
      by_cases hbc : b = c
      · subst hbc
        simp only [beq_iff_eq, hab, if_false, decide_eq_true_eq]
        exact h1
      · simp only [beq_iff_eq, hbc, if_false, decide_eq_true_eq] at h2
        have hac : ¬ a = c := by omega
        simp only [beq_iff_eq, hac, if_false, decide_eq_true_eq]
        omega

open Iwe.Symbols in
/-- **document symbols, exactly**: a symbol is listed for a note iff it is the nested symbol of a listed
outline path with its first heading removed, for a path that runs through the note's first block (or
its document node), has between two and four headings, and whose rendered name is not empty.  So
every document symbol is the last heading of a real chain of current headings, shown with the text of
that heading and at that heading's line. -/
theorem document_symbols_spec (g : Graph) (key : String) (s : Symbol) :
    s ∈ documentSymbols g key ↔
      ∃ doc first p, assocGet g.keys key = some doc ∧ (g.node doc).child? = some first
        ∧ p ∈ graphToPaths g ∧ (first ∈ p ∨ doc ∈ p) ∧ 2 ≤ p.length ∧ p.length ≤ 4
        ∧ s = nestedSymbol g (p.drop 1) ∧ s.name ≠ "" := by
  unfold documentSymbols documentSymbolsOf
  cases hk : assocGet g.keys key with
  | none => simp
  | some doc =>
    cases hc : (g.node doc).child? with
    | none => simp [hc]
    | some first =>
      simp only [hc]
      constructor
      · intro h
        obtain ⟨h1, hne⟩ := List.mem_filter.1 h
        obtain ⟨q, hq, rfl⟩ := List.mem_map.1 h1
        obtain ⟨hq1, hq4⟩ := List.mem_filter.1 hq
        obtain ⟨p, hp, rfl⟩ := List.mem_map.1 hq1
        have hp := (sortStable_perm _ _).mem_iff.1 hp
        obtain ⟨hp2, hlen⟩ := List.mem_filter.1 hp
        obtain ⟨hp3, hin⟩ := List.mem_filter.1 hp2
        simp only [List.length_drop, decide_eq_true_eq] at hq4 hlen
        refine ⟨doc, first, p, rfl, hc, hp3, ?_, by omega, by omega, rfl, ?_⟩
        · simpa [List.contains_iff_mem] using hin
        · simpa using hne
      · rintro ⟨doc', first', p, hd, hf, hp, hin, h2, h4, rfl, hne⟩
        cases hd
        cases hc.symm.trans hf
        refine List.mem_filter.2 ⟨List.mem_map.2 ⟨p.drop 1, List.mem_filter.2 ⟨List.mem_map.2 ⟨p, ?_, rfl⟩, ?_⟩, rfl⟩, ?_⟩
        · refine (sortStable_perm _ _).mem_iff.2 (List.mem_filter.2 ⟨List.mem_filter.2 ⟨hp, ?_⟩, ?_⟩)
          · simpa [List.contains_iff_mem] using hin
          · simp only [decide_eq_true_eq]; omega
        · simp only [List.length_drop, decide_eq_true_eq]; omega
        · simpa using hne

open Iwe.Symbols in
/-- a note the graph does not hold, or a note without blocks, has no document symbols (no panic) -/
theorem document_symbols_unknown_note (g : Graph) (key : String)
    (h : assocGet g.keys key = none ∨ ∃ doc, assocGet g.keys key = some doc ∧ (g.node doc).child? = none) :
    documentSymbols g key = [] := by
  unfold documentSymbols documentSymbolsOf
  rcases h with h | ⟨doc, h, hc⟩
  · rw [h]
  · rw [h]; simp only [hc]

open Iwe.Symbols in
/-- **the order of document symbols**: they come from the selected paths sorted by the handler's
comparator (at the first differing heading the later one first, a longer path before its prefix),
and nothing else reorders them -/
theorem document_symbols_order (g : Graph) (key : String) :
    ∃ ps : List (List Nat), ps.Pairwise (fun a b => docBefore b a = false)
      ∧ (∀ p ∈ ps, p ∈ graphToPaths g)
      ∧ documentSymbols g key
          = ((((ps.map fun p => p.drop 1).filter fun p => p.length < 4).map (nestedSymbol g)).filter fun s => s.name != "") := by
  unfold documentSymbols documentSymbolsOf
  cases hk : assocGet g.keys key with
  | none => exact ⟨[], List.Pairwise.nil, by simp, by simp⟩
  | some doc =>
    cases hc : (g.node doc).child? with
    | none => exact ⟨[], List.Pairwise.nil, by simp, by simp [hc]⟩
    | some first =>
      simp only [hc]
      refine ⟨_, sortStable_sorted docBefore_asymm docBefore_trans _, ?_, rfl⟩
      intro p hp
      have := (sortStable_perm _ _).mem_iff.1 hp
      exact (List.mem_filter.1 (List.mem_filter.1 this).1).1

open Iwe.Symbols in
/-- the name of a nested symbol: two em spaces per remaining ancestor, then the trimmed text of the
path's last heading -/
theorem nested_symbol_name (g : Graph) (p : List Nat) :
    (nestedSymbol g p).name
      = String.join (List.replicate (p.length - 1) "\u2003\u2003") ++ Render.trim (nodeText g (p.getLast?.getD 0)) := rfl

/-- non-vacuity (kernel-evaluated): note `a` = `# A`, `## A2`, `### A3`, and includes `b` = `# B`; the document
symbols of `a` are, later headings first, `B` (the included note's heading, in note `b`), `A3` (indented) and `A2` —
not `A` itself, the first heading of every path is dropped; those of `b` are `B` -/
example :
    (match Graph.importDocs "" [
        ("a", ⟨[.header ⟨0, 1⟩ 1 [.str "A"], .para ⟨2, 3⟩ [.link "b" "" .regular [.str "x"]],
                .header ⟨4, 5⟩ 2 [.str "A2"], .header ⟨6, 7⟩ 3 [.str "A3"]], none⟩),
        ("b", ⟨[.header ⟨0, 1⟩ 1 [.str "B"]], none⟩)] with
     | .ok g => ((Symbols.documentSymbols g "a").map fun s => (s.name, s.key, s.line),
                 (Symbols.documentSymbols g "b").map fun s => (s.name, s.key, s.line))
     | .error _ => ([], []))
    = ([("B", "b", 0), ("\u2003\u2003A3", "a", 6), ("A2", "a", 4)], [("B", "b", 0)]) := by
  decide +kernel

/-! ### The command line (`Model/Cli.lean`): `iwe paths --depth d` and `iwe contents` -/

/-- **`iwe paths --depth d` prints exactly the listed chains of at most `d` headings**: a line is
printed iff it is the rendering (trimmed heading texts joined by ` • `) of a listed outline path with
at most `d` headings — nothing invented, nothing dropped -/
theorem cli_paths_exact (g : Graph) (d : Nat) (line : String) :
    line ∈ Cli.pathsOutput g d ↔
      ∃ p ∈ graphToPaths g, p.length ≤ d ∧ line = Symbols.renderPath g p := by
  unfold Cli.pathsOutput
  rw [Cli.mem_sortUnique, List.mem_map]
  constructor
  · rintro ⟨p, hp, rfl⟩
    obtain ⟨hp1, hp2⟩ := List.mem_filter.1 hp
    exact ⟨p, hp1, by simpa using hp2, rfl⟩
  · rintro ⟨p, hp, hd, rfl⟩
    exact ⟨p, List.mem_filter.2 ⟨hp, by simpa using hd⟩, rfl⟩

/-- the listing is strictly increasing in the byte order of its lines: sorted, every line once -/
theorem cli_paths_sorted_unique (g : Graph) (d : Nat) :
    (Cli.pathsOutput g d).Pairwise (fun a b => a < b) :=
  Cli.sortUnique_sorted _

/-- **`iwe contents`**: after the heading line, one `[title](key)` reference for every note that owns
a one-heading outline path (a top-level heading of a note nobody includes), sorted, each once -/
theorem cli_contents_exact (g : Graph) (line : String) :
    line ∈ Cli.contentsOutput g ↔
      line = "# Contents" ∨ ∃ p ∈ graphToPaths g, p.length ≤ 1
        ∧ line = Cli.blockReference g ((g.nodeKey (p.head?.getD 0)).getD "") := by
  unfold Cli.contentsOutput
  rw [List.mem_cons, Cli.mem_sortUnique, List.mem_map]
  constructor
  · rintro (h | ⟨p, hp, rfl⟩)
    · exact Or.inl h
    · obtain ⟨hp1, hp2⟩ := List.mem_filter.1 hp
      exact Or.inr ⟨p, hp1, by simpa using hp2, rfl⟩
  · rintro (h | ⟨p, hp, hd, rfl⟩)
    · exact Or.inl h
    · exact Or.inr ⟨p, List.mem_filter.2 ⟨hp, by simpa using hd⟩, rfl⟩

/-- non-vacuity (kernel-evaluated): `a` = `# A`, `## A2` and includes `b` = `# B` -/
example :
    (match Graph.importDocs "" [
        ("a", ⟨[.header ⟨0, 1⟩ 1 [.str "A"], .para ⟨2, 3⟩ [.link "b" "" .regular [.str "x"]],
                .header ⟨4, 5⟩ 2 [.str "A2"]], none⟩),
        ("b", ⟨[.header ⟨0, 1⟩ 1 [.str "B"]], none⟩)] with
     | .ok g => (Cli.pathsOutput g 2, Cli.pathsOutput g 1, Cli.contentsOutput g)
     | .error _ => ([], [], []))
    = (["A", "A • A2", "A • B"], ["A"], ["# Contents", "[A](a)"]) := by
  decide +kernel

/-- the first draft of `Step` (false, see below) -/
def StepDraft (g : Graph) (a b : Nat) : Prop :=
  Arena.toParent g.arena (fuelOf g) b = some a
  ∨ ∃ r key d child, (key, r) ∈ g.blockRefs ∧ Arena.toParent g.arena (fuelOf g) r = some a
      ∧ Arena.toParent g.arena (fuelOf g) b = some d ∧ g.node d = .document d child key

/-- a boolean test implied by `StepDraft` -/
def stepDraftB (g : Graph) (a b : Nat) : Bool :=
  Arena.toParent g.arena (fuelOf g) b == some a
  || g.blockRefs.any fun kr =>
      Arena.toParent g.arena (fuelOf g) kr.2 == some a
      && match Arena.toParent g.arena (fuelOf g) b with
         | some d => (match g.node d with
                      | .document d' _ key => d' == d && key == kr.1
                      | _ => false)
         | none => false

theorem stepDraftB_of_StepDraft {g : Graph} {a b : Nat} (h : StepDraft g a b) : stepDraftB g a b = true := by
  rcases h with h | ⟨r, key, d, child, h1, h2, h3, h4⟩
  · simp [stepDraftB, h]
  · simp only [stepDraftB, Bool.or_eq_true, List.any_eq_true]
    exact Or.inr ⟨(key, r), h1, by simp [h2, h3, h4]⟩

/-- the draft relation is a special case of `Step` -/
theorem Step_of_StepDraft {g : Graph} {a b : Nat} (h : StepDraft g a b) : Step g a b := by
  rcases h with h | ⟨r, key, d, child, h1, h2, h3, h4⟩
  · exact Or.inl h
  · exact Or.inr ⟨d, Includes.direct h1 h2 h4, h3⟩

/-- counterexample 1 (a real import): `a` = `# A` + reference to `b`; `b` = only a reference to `c`;
`c` = `# C`.  `A • C` is listed (path `[1, 6]`), but the section of `A` holds no reference to `c`. -/
example :
    (match Graph.importDocs "" [
        ("a", ⟨[.header ⟨0, 1⟩ 1 [.str "A"], .para ⟨2, 3⟩ [.link "b" "" .regular [.str "x"]]], none⟩),
        ("b", ⟨[.para ⟨0, 1⟩ [.link "c" "" .regular [.str "y"]]], none⟩),
        ("c", ⟨[.header ⟨0, 1⟩ 1 [.str "C"]], none⟩)] with
     | .ok g => graphToPaths g == [[1], [1, 6]] && !stepDraftB g 1 6
     | .error _ => false) = true := by
  decide

/-- counterexample 2 (`pathsForNode_sound` has no well-formedness hypothesis): a `Document` node
whose stored id differs from its index -/
example :
    let g : Graph := { arena := [.document 7 (some 1) "k", .node 1 0 none none (.sect []),
                                 .node 2 2 none (some 3) (.sect []), .node 3 2 none none (.ref "k" "" .regular)],
                       blockRefs := [("k", 3)] }
    (pathsForNode g 10 [] 1 == [[2, 1], [1]] && !stepDraftB g 2 1) = true := by
  decide

end Iwe.C18
