/-
C18 — symbol search and path listings show every heading and only real ones.
Theorems about `Model/Paths.lean` (`graph_to_paths`, `search_paths`, ordering and truncation of
`global_search`).  Helper lemmas live in `IweModel/Lemmas/Paths.lean`.
-/
import IweModel.Lemmas.Paths

namespace Iwe.C18
open Iwe Iwe.Paths

/-- one step of an outline path: from a heading to one of its sub-headings, or from a heading whose
section directly holds a block reference `r` to a top-level heading of the referenced note -/
def Step (g : Graph) (a b : Nat) : Prop :=
  Arena.toParent g.arena (fuelOf g) b = some a
  ∨ ∃ r key d child, (key, r) ∈ g.blockRefs ∧ Arena.toParent g.arena (fuelOf g) r = some a
      ∧ Arena.toParent g.arena (fuelOf g) b = some d ∧ g.node d = .document d child key

def isSectionNode (g : Graph) (id : Nat) : Prop :=
  ∃ i p n c xs, g.node id = .node i p n c (.sect xs)

/-- **only real chains are listed (walk level)**: every path produced for a node ends at that node,
consists of section nodes only, every step is a `Step`, and no node occurs twice on it (the cycle
guard — so listings stay finite when notes include each other) -/
theorem pathsForNode_sound (g : Graph) (fuel : Nat) (visited : List Nat) (id : Nat) (p : List Nat)
    (hp : p ∈ pathsForNode g fuel visited id) :
    p ≠ [] ∧ (∀ x ∈ p, isSectionNode g x) ∧ ChainRel (Step g) p ∧ p.Nodup
    ∧ (∀ x ∈ p, x ∉ visited) := by
  sorry

/-- **only real chains are listed (listing level)**: every listed path is a non-empty chain of
headings; its first heading is a top-level heading (its parent is the note itself) of a note that no
live block reference points to -/
theorem paths_sound (g : Graph) (p : List Nat) (hp : p ∈ graphToPaths g) :
    p ≠ [] ∧ (∀ x ∈ p, isSectionNode g x) ∧ ChainRel (Step g) p ∧ p.Nodup
    ∧ (∃ first par, p.head? = some first ∧ Arena.toParent g.arena (fuelOf g) first = some par
        ∧ (g.node par).isDocument = true
        ∧ ∃ k, g.nodeKey first = some k ∧ g.blockReferencesTo k = []) := by
  sorry

/-- the listing has no duplicates and is in the canonical (lexicographic) order, whatever order the
parallel walk found the paths in -/
theorem paths_sorted_nodup (g : Graph) :
    (graphToPaths g).Pairwise (fun a b => pathLt a b = true) ∧ (graphToPaths g).Nodup := by
  sorry

/-- `sortDedup` forgets the order and multiplicity in which paths were found (C16 uses this too) -/
theorem sortDedup_perm_invariant (ps qs : List (List Nat)) (h : ∀ p, p ∈ ps ↔ p ∈ qs) :
    sortDedup ps = sortDedup qs := by
  sorry

/-- **complete for notes nobody references**: in a well-formed graph, if no live block reference
points to note `s.key`, every top-level heading of that note is listed as a path of its own -/
theorem top_headings_listed (g : Graph) (segs : List Seg) (s : Seg) (xs : Inlines) (lr : Option LineRange)
    (cs rest : List BTree) (pre : List BTree)
    (hc : Covers 0 segs g.arena) (hs : s ∈ segs)
    (hkeys : ∀ k id, (k, id) ∈ g.keys ↔ ∃ s ∈ segs, s.key = k ∧ s.base = id)
    (hnd : (segs.map (·.key)).Nodup)
    (hf : s.forest = pre ++ BTree.mk (.sect xs) lr cs :: rest)
    (hroot : g.blockReferencesTo s.key = []) :
    [s.base + 1 + Arena.sizes pre] ∈ graphToPaths g := by
  sorry

/-- **search returns at most 100 entries** -/
theorem search_at_most_100 (paths : List SearchPath) (scores : List Nat) (e : Bool) :
    (globalSearch paths scores e).length ≤ 100 := by
  sorry

/-- **an empty query lists the most-referenced notes first**: ranks never increase along the result -/
theorem empty_query_most_referenced_first (paths : List SearchPath) (scores : List Nat) :
    (globalSearch paths scores true).Pairwise (fun a b => b.rank ≤ a.rank) := by
  sorry

/-- **documented order for a non-empty query**: better fuzzy score first; among equal scores the
shorter text; among those the higher rank.  Stated on the (path, score) pairs before truncation. -/
theorem search_order_nonempty (paths : List SearchPath) (scores : List Nat) :
    (sortStable (fun (a b : SearchPath × Nat) =>
        a.2 > b.2 || (a.2 == b.2 && (a.1.text.utf8ByteSize < b.1.text.utf8ByteSize
          || (a.1.text.utf8ByteSize == b.1.text.utf8ByteSize && a.1.rank > b.1.rank)))) (paths.zip scores)).Pairwise
      (fun a b => b.2 < a.2 ∨ (b.2 = a.2 ∧ (a.1.text.utf8ByteSize < b.1.text.utf8ByteSize
          ∨ (a.1.text.utf8ByteSize = b.1.text.utf8ByteSize ∧ b.1.rank ≤ a.1.rank)))) := by
  sorry

/-- nothing is invented or lost by the sort: the result of `global_search` is a sub-multiset of the
candidate paths, and all of them when there are at most 100 -/
theorem search_results_are_paths (paths : List SearchPath) (scores : List Nat) (e : Bool)
    (hlen : scores.length = paths.length) :
    (∀ sp ∈ globalSearch paths scores e, sp ∈ paths)
    ∧ (paths.length ≤ 100 → (globalSearch paths scores e).Perm paths) := by
  sorry

/-- **symbol names are the heading texts of the chain** (trimmed, joined by a blank; the LSP layer
joins with ` • `) -/
theorem names_are_heading_texts (g : Graph) (sp : SearchPath) (h : sp ∈ searchPaths g) :
    sp.path ∈ graphToPaths g
    ∧ sp.text = " ".intercalate (sp.path.map fun id => Render.trim (nodeText g id))
    ∧ sp.root = (sp.path.length == 1) := by
  sorry

/-- non-vacuity: note `a` includes `b`; listed paths are `A`, `A • A2`, `A • B` — not `B` alone (it is
referenced) — as evaluated by the kernel -/
example :
    (match Graph.importDocs "" [
        ("a", ⟨[.header ⟨0, 1⟩ 1 [.str "A"], .para ⟨2, 3⟩ [.link "b" "" .regular [.str "x"]], .header ⟨4, 5⟩ 2 [.str "A2"]], none⟩),
        ("b", ⟨[.header ⟨0, 1⟩ 1 [.str "B"]], none⟩)] with
     | .ok g => graphToPaths g == [[1], [1, 3], [1, 5]]
     | .error _ => false) = true := by
  decide

end Iwe.C18
