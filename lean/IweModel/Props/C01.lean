/-
C01 — normalisation never loses or invents note content (structural half).
The theorems follow a note from the reader's blocks through the section builder, the arena and the
projector to the rendered blocks and show that its content tokens (`Spec/Tokens.lean`) are
unchanged.  `reader_content` covers the step before that, from the pulldown-cmark event stream to the reader's blocks,
for the flat text (`Spec/Flat.lean`).  Not covered here (DESIGN.md §5): Markdown text → event stream
(pulldown-cmark itself) and rendered *text* → what pulldown-cmark reads back; both are exercised by the
correspondence run and the end-to-end oracle.
Helper lemmas live in `IweModel/Lemmas/Tokens.lean`.
-/
import IweModel.Lemmas.Tokens
import IweModel.Lemmas.ReaderContent

namespace Iwe.C01
open Iwe

/-- **the section builder neither drops, duplicates, reorders nor re-parents a block**:
whenever it succeeds on a document whose items start text-like, the forest has exactly the
document's tokens. -/
theorem forest_tokens (dir : String) (bs : List DBlock) (f : List BTree)
    (hok : Sections.forest dir bs = .ok f) (hitems : Tok.itemsOkL bs = true) :
    Tok.ofBs Tok.ref f = Tok.ofDs dir bs :=
  (Tok.tokSpec _).1 dir true bs f hok hitems

/-- the same for the contents of a block quote (built by a nested builder without line ranges) -/
theorem blocks_tokens (fuel : Nat) (dir : String) (w : Bool) (bs : List DBlock) (f : List BTree)
    (hok : Sections.blocks fuel dir w bs = .ok f) (hitems : Tok.itemsOkL bs = true) :
    Tok.ofBs Tok.ref f = Tok.ofDs dir bs :=
  (Tok.tokSpec fuel).1 dir w bs f hok hitems

/-- **the section builder is total on the well-formed class** (the fuel is sufficient, no panic):
items start with a paragraph or heading, every list has a non-empty item. -/
theorem forest_total_partial (dir : String) (bs : List DBlock)
    (hitems : Tok.itemsOkL bs = true) (hlists : Tok.listsNonEmptyL bs = true) :
    ∃ f, Sections.forest dir bs = .ok f :=
  (Sections.totSpec _).1 dir true bs (by simp only [Sections.fuelFor]; omega) hitems hlists

/-- finding D9, in the model: an item whose first block is a code block makes the builder panic
at `section block panic for` -/
theorem forest_panics_on_code_first_item :
    (match Sections.forest "" [.blist [[.code ⟨0, 1⟩ none "x"]]] with
     | .error .sectionBlock => true
     | _ => false) = true := by
  decide

/-- **the projector re-emits every node**: rendered blocks of a forest (read back from the arena
with its pre-order ids) carry the forest's tokens, block references shown as the link paragraphs
they are rendered to. Holds at every heading depth `lvl`. -/
theorem project_tokens (dir : String) (lvl b : Nat) (f : List BTree) :
    Tok.ofGs (Project.forest dir lvl (forestWithIds id b f)) = Tok.ofBs (Tok.refAsPara dir) f :=
  Tok.project_forest dir f lvl b

/-- **reader blocks → forest → arena → tree → rendered blocks keeps the tokens**: the forest is
laid out anywhere in an arena (`pre`/`post` arbitrary: other notes, tombstones), read back through
the pointers and projected.  `Tok.ofDs'` is `Tok.ofDs` with block references shown as rendered. -/
theorem pipeline_tokens (dir : String) (bs : List DBlock) (f : List BTree) (pre post : List GNode)
    (p fuel : Nat) (hok : Sections.forest dir bs = .ok f) (hitems : Tok.itemsOkL bs = true)
    (hne : f ≠ []) (hfuel : 2 * Arena.sizes f + 2 ≤ fuel) :
    Tok.ofGs (Project.forest dir 0
        (Arena.collectSiblings (pre ++ Arena.layoutForest pre.length p f ++ post) id fuel pre.length))
      = Tok.ofBs (Tok.refAsPara dir) f
    ∧ Tok.ofBs Tok.ref f = Tok.ofDs dir bs := by
  refine ⟨?_, forest_tokens dir bs f hok hitems⟩
  obtain ⟨fuel, rfl⟩ : ∃ k, fuel = k + 1 := ⟨fuel - 1, by omega⟩
  cases f with
  | nil => exact absurd rfl hne
  | cons t ts =>
    have h := (Arena.collect_embed id (fuel + 1)).2 (t :: ts) pre post pre.length p rfl (by omega)
    simp only [Arena.collOpt, Arena.firstPtr] at h
    rw [h]
    exact project_tokens dir 0 pre.length (t :: ts)

/-- **the reader keeps every piece of text the parser reports, once and in order**: on a complete event stream
that follows the parser's grammar (`Spec/Events.lean`) and has no `Text` inside an HTML block, the flat text of
the blocks `MarkdownEventsReader::read` returns — paragraphs, headings, items, quotes, table cells, code
blocks, code spans, math, inline HTML, at any nesting — is the concatenation of the texts of the events, the
front-matter block excepted.  (Before the repair of finding D41 this was false: text after a code block of a
tight list item was dropped.) -/
theorem reader_content (content : Position.Bytes) (evs : List Reader.Ev) (bs : List DBlock) (m : Option String)
    (hwf : Events.wellFormed evs = true) (hfree : Flat.htmlTextFree [] evs = true)
    (h : Reader.read content evs = .ok (bs, m)) : Flat.blocks bs = Flat.events false evs := by
  obtain ⟨st, hs, hstack, hinl, _⟩ := ReaderTotal.run_delivers_core content evs hwf
  simp only [Reader.read, hs, Except.ok.injEq, Prod.mk.injEq] at h
  have hfs : Events.run [] evs = some [] := by simpa [Events.wellFormed] using hwf
  have hc := ReaderContent.run_content content evs ReaderTotal.rel_init hfs hfree hs
  rw [← h.1]
  simpa [ReaderContent.state, ReaderContent.stack, ReaderContent.opens, hstack, hinl, Flat.blocks] using hc

/-- **the front matter the reader hands on is the front matter the parser reported**: the text of the last `Text`
event inside a metadata block (there is exactly one for a front-matter block at the top of a note; several only in
the shape of finding D24, where the reader keeps the last chunk — stated here, not hidden) -/
theorem reader_frontmatter (content : Position.Bytes) (evs : List Reader.Ev) (bs : List DBlock) (m : Option String)
    (hwf : Events.wellFormed evs = true) (hfree : Flat.htmlTextFree [] evs = true)
    (h : Reader.read content evs = .ok (bs, m)) : m = Flat.metaText false none evs := by
  obtain ⟨st, hs, _, _, _⟩ := ReaderTotal.run_delivers_core content evs hwf
  simp only [Reader.read, hs, Except.ok.injEq, Prod.mk.injEq] at h
  have hfs : Events.run [] evs = some [] := by simpa [Events.wellFormed] using hwf
  have hc := ReaderContent.run_md content evs ReaderTotal.rel_init hfs hfree hs
  rw [← h.2]
  exact hc

/-- the HTML-block exception is needed: with `Text` inside an HTML block of a quote the reader appends the text to
the last block of the quote, and a code block silently swallows it (model-level witness; pulldown-cmark emits
such a stream only for finding D21's indented HTML blocks) -/
theorem reader_content_html_text_counterexample :
    let evs : List Reader.Ev :=
      [.startQuote 0 9, .startCode 2 5 none, .text 2 3 "c", .endCode, .startHtml, .text 6 7 "x", .endHtml, .endQuote]
    Events.wellFormed evs = true ∧ Flat.htmlTextFree [] evs = false ∧
      (match Reader.read [] evs with
       | .ok (bs, _) => Flat.blocks bs == "c" && Flat.events false evs == "cx"
       | .error _ => false) = true := by
  decide

/-- non-vacuity of `reader_content`: a tight item with text under a code block (finding D41's shape), a table
and a front-matter block -/
example :
    let evs : List Reader.Ev :=
      [.startMeta, .text 0 1 "t: 1", .endMeta,
       .startList false, .startItem, .text 0 1 "a", .startCode 2 5 none, .text 2 3 "c", .endCode,
       .text 6 7 "b", .startInline .emph 8 9, .text 8 9 "e", .endInline, .endItem, .endList,
       .startTable 10 20 [.none], .startRow, .startCell, .text 10 11 "h", .startRow, .startCell, .code 12 13 "k",
       .endTable]
    Events.wellFormed evs = true ∧ Flat.htmlTextFree [] evs = true ∧
      (match Reader.read [] evs with
       | .ok (bs, m) => Flat.blocks bs == "acbehk" && m == some "t: 1"
       | .error _ => false) = true := by
  decide

/-- front-matter is re-emitted verbatim in front of the body -/
theorem frontmatter_verbatim (m body : String) :
    Render.withMeta (some m) body = "---\n" ++ m ++ "---\n\n" ++ body ∧ Render.withMeta none body = body :=
  ⟨rfl, rfl⟩

/-- non-vacuity: a document with a heading, a list with a two-block item, a quote and a reference
meets the hypotheses; its forest is built and has the same ten tokens. -/
example :
    let bs : List DBlock :=
      [.header ⟨0, 1⟩ 2 [.str "h"], .blist [[.para ⟨2, 3⟩ [.str "i"], .code ⟨3, 5⟩ none "c"], []],
       .quote ⟨6, 7⟩ [.para ⟨6, 7⟩ [.str "q"]]]
    Tok.itemsOkL bs = true ∧ Tok.listsNonEmptyL bs = true ∧
      (match Sections.forest "" bs with
       | .ok f => (Tok.ofBs Tok.ref f).length == 10 && (Tok.ofDs "" bs).length == 10
       | .error _ => false) = true := by
  decide

end Iwe.C01
