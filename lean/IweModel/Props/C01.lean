/-
C01 — normalisation never loses or invents note content (structural half).
The theorems follow a note from the reader's blocks through the section builder, the arena and the
projector to the rendered blocks and show that its content tokens (`Spec/Tokens.lean`) are
unchanged.  Not covered here (DESIGN.md §5): the pulldown-cmark event stream → reader blocks
step and the step rendered *text* → what pulldown-cmark reads back; both are exercised by the
correspondence run and the end-to-end oracle.
Helper lemmas live in `IweModel/Lemmas/Tokens.lean`.
-/
import IweModel.Lemmas.Tokens

namespace Iwe.C01
open Iwe

/-- **the section builder neither drops, duplicates, reorders nor re-parents a block**:
whenever it succeeds on a document whose items start text-like, the forest has exactly the
document's tokens. -/
theorem forest_tokens (dir : String) (bs : List DBlock) (f : List BTree)
    (hok : Sections.forest dir bs = .ok f) (hitems : Tok.itemsOkL bs = true) :
    Tok.ofBs Tok.ref f = Tok.ofDs dir bs :=
  (Tok.tokSpec _).1 dir true bs f hok hitems

/-- the same for the contents of a block quote (built by a nested builder without line ranges) -/
theorem blocks_tokens (fuel : Nat) (dir : String) (w : Bool) (bs : List DBlock) (f : List BTree)
    (hok : Sections.blocks fuel dir w bs = .ok f) (hitems : Tok.itemsOkL bs = true) :
    Tok.ofBs Tok.ref f = Tok.ofDs dir bs :=
  (Tok.tokSpec fuel).1 dir w bs f hok hitems

/-- **the section builder is total on the well-formed class** (the fuel is sufficient, no panic):
items start with a paragraph or heading, every list has a non-empty item. -/
theorem forest_total_partial (dir : String) (bs : List DBlock)
    (hitems : Tok.itemsOkL bs = true) (hlists : Tok.listsNonEmptyL bs = true) :
    ∃ f, Sections.forest dir bs = .ok f :=
  (Sections.totSpec _).1 dir true bs (by simp only [Sections.fuelFor]; omega) hitems hlists

/-- finding D9, in the model: an item whose first block is a code block makes the builder panic
at `section block panic for` -/
theorem forest_panics_on_code_first_item :
    (match Sections.forest "" [.blist [[.code ⟨0, 1⟩ none "x"]]] with
     | .error .sectionBlock => true
     | _ => false) = true := by
  decide

/-- **the projector re-emits every node**: rendered blocks of a forest (read back from the arena
with its pre-order ids) carry the forest's tokens, block references shown as the link paragraphs
they are rendered to. Holds at every heading depth `lvl`. -/
theorem project_tokens (dir : String) (lvl b : Nat) (f : List BTree) :
    Tok.ofGs (Project.forest dir lvl (forestWithIds id b f)) = Tok.ofBs (Tok.refAsPara dir) f :=
  Tok.project_forest dir f lvl b

/-- **reader blocks → forest → arena → tree → rendered blocks keeps the tokens**: the forest is
laid out anywhere in an arena (`pre`/`post` arbitrary: other notes, tombstones), read back through
the pointers and projected.  `Tok.ofDs'` is `Tok.ofDs` with block references shown as rendered. -/
theorem pipeline_tokens (dir : String) (bs : List DBlock) (f : List BTree) (pre post : List GNode)
    (p fuel : Nat) (hok : Sections.forest dir bs = .ok f) (hitems : Tok.itemsOkL bs = true)
    (hne : f ≠ []) (hfuel : 2 * Arena.sizes f + 2 ≤ fuel) :
    Tok.ofGs (Project.forest dir 0
        (Arena.collectSiblings (pre ++ Arena.layoutForest pre.length p f ++ post) id fuel pre.length))
      = Tok.ofBs (Tok.refAsPara dir) f
    ∧ Tok.ofBs Tok.ref f = Tok.ofDs dir bs := by
  refine ⟨?_, forest_tokens dir bs f hok hitems⟩
  obtain ⟨fuel, rfl⟩ : ∃ k, fuel = k + 1 := ⟨fuel - 1, by omega⟩
  cases f with
  | nil => exact absurd rfl hne
  | cons t ts =>
    have h := (Arena.collect_embed id (fuel + 1)).2 (t :: ts) pre post pre.length p rfl (by omega)
    simp only [Arena.collOpt, Arena.firstPtr] at h
    rw [h]
    exact project_tokens dir 0 pre.length (t :: ts)

/-- front-matter is re-emitted verbatim in front of the body -/
theorem frontmatter_verbatim (m body : String) :
    Render.withMeta (some m) body = "---\n" ++ m ++ "---\n\n" ++ body ∧ Render.withMeta none body = body :=
  ⟨rfl, rfl⟩

/-- non-vacuity: a document with a heading, a list with a two-block item, a quote and a reference
meets the hypotheses; its forest is built and has the same ten tokens. -/
example :
    let bs : List DBlock :=
      [.header ⟨0, 1⟩ 2 [.str "h"], .blist [[.para ⟨2, 3⟩ [.str "i"], .code ⟨3, 5⟩ none "c"], []],
       .quote ⟨6, 7⟩ [.para ⟨6, 7⟩ [.str "q"]]]
    Tok.itemsOkL bs = true ∧ Tok.listsNonEmptyL bs = true ∧
      (match Sections.forest "" bs with
       | .ok f => (Tok.ofBs Tok.ref f).length == 10 && (Tok.ofDs "" bs).length == 10
       | .error _ => false) = true := by
  decide

end Iwe.C01
