/-
C16 — results do not depend on thread count, load order or hash seeds.
In the model every place where the real code iterates a hash map or a parallel iterator is either
a per-key function (export), a sort with a total order on distinct keys (import), or a
sort-and-dedup of a set (paths): the theorems say that the order in which the items arrive is
irrelevant.  Insertion order of notes changes node ids but no answer (corollary of C04).
Ordering of search results with equal rank does depend on ids (finding D19): stated.
Helper lemmas live in `IweModel/Lemmas/Determinism.lean`.
-/
import IweModel.Lemmas.Determinism

namespace Iwe.C16
open Iwe

/-- **load order is irrelevant for `import`**: any permutation of the files (distinct names) gives
the identical graph, ids included -/
theorem import_order_irrelevant (ext : String) (state state' : List (String × Document))
    (hperm : state.Perm state') (hd : (state.map (·.1)).Nodup) :
    Graph.importDocs ext state = Graph.importDocs ext state' := by
  rw [Graph.importDocs_eq, Graph.importDocs_eq]
  exact congrArg (fun l => l.foldl Graph.importStep (.ok { ext := ext }))
    (Graph.sortBy_nameLt_perm_invariant state state' hperm hd)

/-- **insertion order is irrelevant for every answer**: inserting the same notes (distinct keys)
into the empty library in two different orders gives graphs with the same formatted texts, titles
and backlinks (as places) — although node ids differ -/
theorem insert_order_irrelevant (ext : String) (docs docs' : List (String × Document)) (g g' : Graph)
    (hperm : docs.Perm docs') (hd : (docs.map (·.1)).Nodup)
    (hg : C20.runHistory { ext := ext } docs = .ok g) (hg' : C20.runHistory { ext := ext } docs' = .ok g') :
    (∀ k, g.toMarkdown k = g'.toMarkdown k)
    ∧ (∀ k, g.title k = g'.title k)
    ∧ (∀ K p, p ∈ (g.blockReferencesTo K).map g.place ↔ p ∈ (g'.blockReferencesTo K).map g'.place)
    ∧ (∀ K p, p ∈ (g.inlineReferencesTo K).map g.place ↔ p ∈ (g'.inlineReferencesTo K).map g'.place) := by
  obtain ⟨hinv, hext⟩ := C04.inv_reachable _ g [] docs (Inv.empty ext) hg
  obtain ⟨hinv0', hext'⟩ := C04.inv_reachable _ g' [] docs' (Inv.empty ext) hg'
  have hlnd : ((C04.finalLib [] docs).map (·.1)).Nodup := by
    obtain ⟨segs, hi⟩ := inv_iff.1 hinv
    exact hi.libNodup
  have hinv' : Inv g' (C04.finalLib [] docs) :=
    C04.inv_congr g' _ _ hinv0' hlnd (fun k => (assocGet_finalLib_perm [] hperm hd k).symm)
  refine ⟨?_, ?_, ?_, ?_⟩
  · intro k
    rw [C04.toMarkdown_spec g _ k hinv, C04.toMarkdown_spec g' _ k hinv', hext, hext']
  · intro k
    rw [C04.title_spec g _ k hinv, C04.title_spec g' _ k hinv']
  · intro K p
    rw [(C04.blockBacklinks_spec g _ K hinv).1 p, (C04.blockBacklinks_spec g' _ K hinv').1 p]
  · intro K p
    rw [(C04.inlineBacklinks_spec g _ K hinv).1 p, (C04.inlineBacklinks_spec g' _ K hinv').1 p]

/-- **the path listing is canonical**: whatever order (and multiplicity) the parallel walk finds
the paths in, `sorted().dedup()` returns the same list -/
theorem paths_listing_canonical (ps qs : List (List Nat)) (h : ∀ p, p ∈ ps ↔ p ∈ qs) :
    Paths.sortDedup ps = Paths.sortDedup qs :=
  C18.sortDedup_perm_invariant ps qs h

/-- **the command-line listings are canonical**: `sorted().unique()` of the rendered lines depends on the *set*
of lines only — in whatever order (and however often) the parallel walk and the hash maps deliver the paths,
`iwe paths` and `iwe contents` print the same lines in the same order -/
theorem cli_listing_canonical (xs ys : List String) (h : ∀ x, x ∈ xs ↔ x ∈ ys) :
    Cli.sortUnique xs = Cli.sortUnique ys := by
  have hx := Cli.sortUnique_sorted xs
  have hy := Cli.sortUnique_sorted ys
  have hnd : ∀ l : List String, l.Pairwise (fun a b => a < b) → l.Nodup := by
    intro l hl
    exact hl.imp (fun {a b} hab heq => by subst heq; exact String.lt_irrefl _ hab)
  refine List.Perm.eq_of_pairwise ?_ hx hy ?_
  · intro a b _ _ hab hba
    exact absurd hba (String.lt_asymm hab)
  · refine (List.perm_ext_iff_of_nodup (hnd _ hx) (hnd _ hy)).2 ?_
    intro a
    rw [Cli.mem_sortUnique, Cli.mem_sortUnique]
    exact h a

/-- … in particular for two graphs that list the same outline paths with the same heading texts (two load orders
of one library, by `insert_order_irrelevant` and `paths_listing_canonical`, up to the renaming of node ids) -/
theorem cli_paths_same_lines (g g' : Graph) (d : Nat)
    (h : ∀ line, (∃ p ∈ Paths.graphToPaths g, p.length ≤ d ∧ line = Symbols.renderPath g p)
               ↔ (∃ p ∈ Paths.graphToPaths g', p.length ≤ d ∧ line = Symbols.renderPath g' p)) :
    Cli.pathsOutput g d = Cli.pathsOutput g' d := by
  unfold Cli.pathsOutput
  apply cli_listing_canonical
  intro line
  have e1 := C18.cli_paths_exact g d line
  have e2 := C18.cli_paths_exact g' d line
  unfold Cli.pathsOutput at e1 e2
  rw [Cli.mem_sortUnique] at e1 e2
  rw [e1, e2]
  exact h line

/-- export is computed note by note: the text of a note does not depend on which other keys are
iterated before it (it is a function of the graph and the key) — so any iteration order of the key
map yields the same key → text map -/
theorem export_is_pointwise (g : Graph) (ks ks' : List String) (hperm : ks.Perm ks') :
    (ks.map fun k => (k, g.toMarkdown k)).Perm (ks'.map fun k => (k, g.toMarkdown k)) :=
  hperm.map _

/-- **finding D19, in the model**: note `b` is included by `a` and by `c`; the two search paths
`A B` and `C B` have the same rank, key and length, so their order is the order of the node ids of
`a` and `c` — i.e. of the insertion history -/
theorem equal_rank_order_depends_on_history :
    let a : Document := ⟨[.header ⟨0, 1⟩ 1 [.str "A"], .para ⟨2, 3⟩ [.link "b" "" .regular [.str "x"]]], none⟩
    let c : Document := ⟨[.header ⟨0, 1⟩ 1 [.str "C"], .para ⟨2, 3⟩ [.link "b" "" .regular [.str "x"]]], none⟩
    let b : Document := ⟨[.header ⟨0, 1⟩ 1 [.str "B"]], none⟩
    (match C20.runHistory {} [("a", a), ("b", b), ("c", c)], C20.runHistory {} [("c", c), ("b", b), ("a", a)] with
     | .ok g, .ok g' =>
       ((Paths.searchPaths g).map (·.text)) != ((Paths.searchPaths g').map (·.text))
         && (Paths.searchPaths g).length == 4
     | _, _ => false) = true := by
  decide +kernel

end Iwe.C16
