/-
C05 — backlinks are exact: every link to a note is found, nothing else is.
The index answers equal an independent scan of the latest documents (refinement theorems of C04,
restated here), targets of block references are resolved relative to the linking note's
directory, external URLs are excluded, the decision `is_ref_url` is stated outright.
Inline links are keyed from the library root instead (finding D12): stated, refuted for
sub-directories, proved for root notes.
Helper lemmas live in `IweModel/Lemmas/Links.lean`.
-/
import IweModel.Lemmas.Links
import IweModel.Model.Hints

namespace Iwe.C05
open Iwe

/-- **sound and complete, block references**: in every state reachable by import and edits, the
live reference nodes to `K`, as (linking note, position), are exactly the reference blocks that a
scan of the latest documents finds, each once -/
theorem block_backlinks_exact (g : Graph) (lib : Library) (K : String) (h : Inv g lib) :
    (∀ p, p ∈ (g.blockReferencesTo K).map g.place ↔ p ∈ (Spec.blockBacklinks lib K).map some)
    ∧ ((g.blockReferencesTo K).map g.place).Nodup :=
  C04.blockBacklinks_spec g lib K h

/-- **sound and complete, links inside paragraphs, headings and list items** -/
theorem inline_backlinks_exact (g : Graph) (lib : Library) (K : String) (h : Inv g lib) :
    (∀ p, p ∈ (g.inlineReferencesTo K).map g.place ↔ p ∈ (Spec.inlineBacklinks lib K).map some)
    ∧ ((g.inlineReferencesTo K).map g.place).Nodup :=
  C04.inlineBacklinks_spec g lib K h

/-- reference counts are the cardinalities of those sets -/
theorem backlink_counts (g : Graph) (lib : Library) (K : String) (h : Inv g lib) :
    (g.blockReferencesTo K).length = ((g.blockReferencesTo K).map g.place).length
    ∧ ((g.blockReferencesTo K).map g.place).Nodup ∧ ((g.inlineReferencesTo K).map g.place).Nodup := by
  exact ⟨(List.length_map _).symm, (C04.blockBacklinks_spec g lib K h).2,
    (C04.inlineBacklinks_spec g lib K h).2⟩

/-! ### inlay hints (`Model/Hints.lean`: `handle_inlay_hints` and its helpers) -/

/-- **the superscript of the `⎘` hint, for every count**: nothing up to one inclusion, the digit for 2‥9 (all
different), `+` from ten on — no count panics or falls between the arms -/
theorem number_substr_shape (n : Nat) :
    (n ≤ 1 → Hints.numberSubstr n = "") ∧ (10 ≤ n → Hints.numberSubstr n = "+")
    ∧ (2 ≤ n → n ≤ 9 → Hints.numberSubstr n = (["²", "³", "⁴", "⁵", "⁶", "⁷", "⁸", "⁹"] : List String).getD (n - 2) "") := by
  refine ⟨fun h => ?_, fun h => ?_, fun h2 h9 => ?_⟩
  · match n, h with
    | 0, _ => rfl
    | 1, _ => rfl
  · match n, h with
    | n + 10, _ => rfl
  · match n, h2, h9 with
    | 2, _, _ => rfl
    | 3, _, _ => rfl
    | 4, _, _ => rfl
    | 5, _, _ => rfl
    | 6, _, _ => rfl
    | 7, _, _ => rfl
    | 8, _, _ => rfl
    | 9, _, _ => rfl

/-- **the `‹n›` hint counts exactly the linking blocks**: it is shown iff some block links to the note inline,
and `n` is the number of distinct places (linking note, block) — which by `inline_backlinks_exact` are exactly
the places an independent scan of the latest documents finds -/
theorem inline_counter_hint (g : Graph) (lib : Library) (K : String) (h : Inv g lib) :
    Hints.refsCounterHints g K =
      (if 0 < ((g.inlineReferencesTo K).map g.place).length
       then [("‹" ++ toString ((g.inlineReferencesTo K).map g.place).length ++ "›", 0)] else [])
    ∧ (∀ p, p ∈ (g.inlineReferencesTo K).map g.place ↔ p ∈ (Spec.inlineBacklinks lib K).map some)
    ∧ ((g.inlineReferencesTo K).map g.place).Nodup := by
  refine ⟨?_, (inline_backlinks_exact g lib K h).1, (inline_backlinks_exact g lib K h).2⟩
  simp only [Hints.refsCounterHints, List.length_map, gt_iff_lt]

/-- **the `‹n›` hint does not depend on how the library got into its state**: two graphs that stand for the same
library — one freshly imported, one reached by any history of edits — show the same inline counter for every note
(the reference sets may hold different node ids; their places are the same set) -/
theorem inline_counter_history_independent (g₁ g₂ : Graph) (lib : Library) (K : String)
    (h₁ : Inv g₁ lib) (h₂ : Inv g₂ lib) :
    Hints.refsCounterHints g₁ K = Hints.refsCounterHints g₂ K := by
  obtain ⟨e₁, m₁, n₁⟩ := inline_counter_hint g₁ lib K h₁
  obtain ⟨e₂, m₂, n₂⟩ := inline_counter_hint g₂ lib K h₂
  have hperm : ((g₁.inlineReferencesTo K).map g₁.place).Perm ((g₂.inlineReferencesTo K).map g₂.place) :=
    (List.perm_ext_iff_of_nodup n₁ n₂).2 (fun p => (m₁ p).trans (m₂ p).symm)
  rw [e₁, e₂, hperm.length_eq]

/-- the same for the number behind `⎘`: how often a note is included does not depend on the edit history -/
theorem block_reference_count_history_independent (g₁ g₂ : Graph) (lib : Library) (K : String)
    (h₁ : Inv g₁ lib) (h₂ : Inv g₂ lib) :
    Hints.numberSubstr (g₁.blockReferencesTo K).length = Hints.numberSubstr (g₂.blockReferencesTo K).length := by
  obtain ⟨m₁, n₁⟩ := block_backlinks_exact g₁ lib K h₁
  obtain ⟨m₂, n₂⟩ := block_backlinks_exact g₂ lib K h₂
  have hperm : ((g₁.blockReferencesTo K).map g₁.place).Perm ((g₂.blockReferencesTo K).map g₂.place) :=
    (List.perm_ext_iff_of_nodup n₁ n₂).2 (fun p => (m₁ p).trans (m₂ p).symm)
  have := hperm.length_eq
  simp only [List.length_map] at this
  rw [this]

/-- **every `⎘` hint belongs to a block reference of the note and counts the inclusions of its target**: the
hints are, in document order, one per live reference node of the note that has a line range, on that node's
first line, with the number of live block references to the same target anywhere in the library -/
theorem block_reference_hints_spec (g : Graph) (K : String) (ids : List Nat) (hs : List Hints.Hint)
    (hids : Hints.blockReferencesIn g K = .ok ids) (h : Hints.blockReferenceHints g K = .ok hs) :
    hs = ids.filterMap fun id =>
      (g.nodeLineRange id).map fun r =>
        ("⎘" ++ Hints.numberSubstr (match Hints.refKey? g id with
          | some k => (g.blockReferencesTo k).length
          | none => 0), r.start) := by
  simp only [Hints.blockReferenceHints, hids, Except.ok.injEq] at h
  exact h.symm

private theorem mem_dedupAdj : ∀ (l : List String) (x : String), x ∈ Hints.dedupAdj l ↔ x ∈ l
  | [], _ => by simp [Hints.dedupAdj]
  | [a], _ => by simp [Hints.dedupAdj]
  | a :: b :: rest, x => by
    have ih := mem_dedupAdj (b :: rest) x
    simp only [Hints.dedupAdj]
    split
    · rename_i hab
      have : a = b := by simpa using hab
      subst this
      rw [ih]
      simp
    · simp only [List.mem_cons] at ih ⊢
      rw [ih]

/-- **the `↖` hints name exactly the notes that include this one**: the labels are `↖` followed by the title of the
note holding a live block reference to `K` — every such title appears, nothing else does (sorting and removing
repetitions neither lose nor invent a title) -/
theorem container_hints_exact (g : Graph) (K : String) (texts : List String) (hs : List Hints.Hint)
    (ht : Hints.mapExcept (Hints.containerText g) (g.blockReferencesTo K) = .ok texts)
    (h : Hints.containerHints g K = .ok hs) :
    ∀ l, l ∈ hs.map (·.1) ↔ ∃ t ∈ texts, l = "↖" ++ t := by
  simp only [Hints.containerHints, ht, Except.ok.injEq] at h
  subst h
  intro l
  simp only [List.map_map, List.mem_map, Function.comp]
  constructor
  · rintro ⟨t, ht', rfl⟩
    exact ⟨t, ((Graph.sortBy_perm _ texts).mem_iff).1 ((mem_dedupAdj _ t).1 ht'), rfl⟩
  · rintro ⟨t, ht', rfl⟩
    exact ⟨t, (mem_dedupAdj _ t).2 (((Graph.sortBy_perm _ texts).mem_iff).2 ht'), rfl⟩

/-- the three groups come in a fixed order: containers (sorted, on line 0), the inline counter (line 0), then the
block references in document order — nothing depends on the requested range -/
theorem inlay_hints_order (g : Graph) (K : String) (cs bs : List Hints.Hint)
    (hc : Hints.containerHints g K = .ok cs) (hb : Hints.blockReferenceHints g K = .ok bs) :
    Hints.inlayHints g K = .ok (cs ++ Hints.refsCounterHints g K ++ bs) := by
  simp [Hints.inlayHints, hc, hb]

/-- an unknown note makes the request panic (`expect("to have key")`; answered with an error since the repair
of finding D5) -/
theorem inlay_hints_unknown_note (g : Graph) (K : String) (h : assocGet g.keys K = none)
    (cs : List Hints.Hint) (hc : Hints.containerHints g K = .ok cs) :
    Hints.inlayHints g K = .error .noKey := by
  simp [Hints.inlayHints, hc, Hints.blockReferenceHints, Hints.blockReferencesIn, h]

/-- **a block reference is recorded under the key its url resolves to from the linking note's
directory**, `.md` ignored: the reference token of a sole-link paragraph -/
theorem block_target_resolved_from_directory (dir url title : String) (t : LinkType) (ys : Inlines)
    (lr : LineRange) (href : isRefUrl url = true) :
    Tok.ofD dir (.para lr [.link url title t ys]) = [.ref (keyFromRel url dir) (Inline.plainTexts ys) t]
    ∧ keyFromRel (url ++ ".md") dir = keyFromRel url dir := by
  refine ⟨?_, Links.keyFromRel_append_md url dir⟩
  simp [Tok.ofD, Sections.paraRef, href]

/-- **external URLs are never references**: a paragraph that is a single external link stays text -/
theorem external_link_is_not_a_reference (dir url title : String) (t : LinkType) (ys : Inlines)
    (lr : LineRange) (hext : isRefUrl url = false) :
    Tok.ofD dir (.para lr [.link url title t ys]) = [.text [.link url title t ys]] := by
  simp [Tok.ofD, Sections.paraRef, hext]

/-- `is_ref_url`, stated outright: a url is external iff, lower-cased (ASCII), it starts with
`http://`, `https://` or `mailto:` -/
theorem isRefUrl_iff (url : String) :
    isRefUrl url = false ↔
      ("http://".toList.isPrefixOf (url.toList.map Path.lower) = true
       ∨ "https://".toList.isPrefixOf (url.toList.map Path.lower) = true
       ∨ "mailto:".toList.isPrefixOf (url.toList.map Path.lower) = true) := by
  unfold isRefUrl Path.isRefUrl
  simp only [Bool.not_eq_false', Bool.or_eq_true, or_assoc]

/-- examples of the decision (kernel-evaluated) -/
theorem isRefUrl_examples :
    Path.isRefUrl "HTTP://x".toList = false ∧ Path.isRefUrl "hTTps://x".toList = false
    ∧ Path.isRefUrl "MailTo:x".toList = false ∧ Path.isRefUrl "ftp://x".toList = true
    ∧ Path.isRefUrl "http:/x".toList = true ∧ Path.isRefUrl "a/b.md".toList = true
    ∧ Path.isRefUrl "".toList = true := by
  decide

/-- **finding D12, stated**: the key under which an *inline* link is indexed is the url taken from
the library root (`from_file_name`), not resolved from the linking note's directory -/
theorem inline_key_is_root_relative (url title : String) (t : LinkType) (ys : Inlines) :
    Inline.refKeys (.link url title t ys) = [keyFromFileName url] := by
  simp [Inline.refKeys]

/-- …so for a note in a sub-directory the full statement "target resolved relative to the directory
of the linking note" fails for inline links: from `d/`, `x` means `d/x` but is indexed as `x` -/
theorem inline_link_in_subdirectory_counterexample :
    Inline.refKeys (.link "x" "" .regular []) ≠ [keyFromRel "x" "d"] := by
  decide

/-- what does hold (`_partial`): for notes in the library root and urls without `.`/`..`/`//`,
the indexed key of an inline link is the resolved key -/
theorem inline_key_resolved_partial (cs : List Path.Str) (hcs : Path.NormalPath cs)
    (hmd : Path.endsMd (Path.renderNames cs) = false) :
    keyFromFileName (String.ofList (Path.renderNames cs))
      = keyFromRel (String.ofList (Path.renderNames cs)) "" := by
  exact Links.keyFromFileName_eq_keyFromRel_root cs hcs hmd

/-- table cells are not indexed (outside the property's list; stated so that it is not a surprise) -/
theorem table_cells_not_indexed (b : Nat) (h : List Inlines) (a : List Align) (rows : List (List Inlines))
    (lr : Option LineRange) :
    Graph.indexTree b (.mk (.table h a rows) lr []) = ([], []) := by
  simp [Graph.indexTree, Graph.indexForest]

end Iwe.C05
