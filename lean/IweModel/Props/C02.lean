/-
C02 — normalisation is a fixpoint (structural half and marker arithmetic).
`structural_fixpoint`: take the blocks iwe renders for a note, read them as a document again
(`NormalForm.asDoc`), push them through section builder and projector once more: the same blocks
come out.  So heading levels (= depth + 1), the merge of leading lists, the removal of empty items
and the Para/Plain choice are all already stable after one pass.  The remaining half — that the
rendered *text* is parsed back to `asDoc` of the blocks — is the syntax bridge (DESIGN.md §5),
exercised on every run by byte-exact correspondence and the format∘format = format oracle.
Helper lemmas live in `IweModel/Lemmas/Fixpoint.lean`.
-/
import IweModel.Lemmas.Fixpoint

namespace Iwe.C02
open Iwe NormalForm

/-- **iwe's structural normal form is a fixpoint** -/
theorem structural_fixpoint (dir : String) (bs : List DBlock) (f : List BTree)
    (hok : Sections.forest dir bs = .ok f)
    (hitems : Tok.itemsOkL bs = true) (hlists : Tok.listsNonEmptyL bs = true)
    (hrefs : refsRoundTripL dir f = true) :
    ∃ f', Sections.forest dir (asDocs (blocksOf dir f)) = .ok f' ∧ blocksOf dir f' = blocksOf dir f := by
  -- `hlists` is not needed: the builder never returns a list node without children
  have _ := hlists
  exact Fixpoint.fixpoint dir bs f hok hitems hrefs

/-- hence the tight/loose decision of every list is the same the second time (it is a function of
the rendered blocks) -/
theorem sparse_stable (dir : String) (bs : List DBlock) (f f' : List BTree)
    (hok : Sections.forest dir bs = .ok f)
    (hitems : Tok.itemsOkL bs = true) (hlists : Tok.listsNonEmptyL bs = true)
    (hrefs : refsRoundTripL dir f = true)
    (hok' : Sections.forest dir (asDocs (blocksOf dir f)) = .ok f') (ext : String) :
    Render.blocksSparse ext (blocksOf dir f') = Render.blocksSparse ext (blocksOf dir f) := by
  obtain ⟨f'', h1, h2⟩ := structural_fixpoint dir bs f hok hitems hlists hrefs
  rw [hok'] at h1
  cases h1
  rw [h2]

/-- refreshing link titles twice is refreshing them once -/
theorem normalize_idem (title : String → Option String) (xs : Inlines) :
    Inline.normalizeL title (Inline.normalizeL title xs) = Inline.normalizeL title xs :=
  Fixpoint.normalizeL_idem title xs

/-- **ordered-list marker arithmetic, all n**: the first line of an item and its continuation
lines are indented by the same number of characters (the `> 9` case distinction keeps content at
column 4 up to 99 and at marker width + 1 beyond) -/
theorem ordered_indent (n : Nat) (l : String) :
    (Render.numPrefix n ++ " " ++ l).length = (Render.rep ' ' (Render.numPrefix n).length ++ " " ++ l).length := by
  simp [String.length_append, Fixpoint.rep_length]

/-- the number marker is the decimal numeral, a dot, and one blank up to 9 -/
theorem numPrefix_shape (n : Nat) :
    Render.numPrefix n = toString n ++ "." ++ (if n > 9 then "" else " ") := by
  rfl

/-- numbering restarts at 1 and is consecutive, whatever the source numbers were -/
theorem numbered_consecutive (k : Nat) (ss : List String) :
    Render.numbered k ss = (List.range ss.length).zipWith (fun i s => Render.leftPadAndPrefixNum s (k + i)) ss := by
  induction ss generalizing k with
  | nil => simp [Render.numbered]
  | cons s ss ih =>
    rw [Render.numbered, ih, List.length_cons, List.range_succ_eq_map, List.zipWith_cons_cons,
      List.zipWith_map_left]
    simp [Nat.add_assoc, Nat.add_comm 1]

/-- front-matter is a fixpoint of the wrapper: re-wrapping the same meta gives the same text -/
theorem frontmatter_fixpoint (m body : String) :
    Render.withMeta (some m) body = "---\n" ++ m ++ "---\n\n" ++ body := by
  rfl

/-- non-vacuity: levels 3,1 with a nested list whose first item is empty and a leading-list item —
rendered blocks, re-read and re-rendered, are identical (evaluated by the kernel) -/
example :
    let bs : List DBlock :=
      [.header ⟨0, 1⟩ 3 [.str "h"], .header ⟨1, 2⟩ 1 [.str "k"],
       .blist [[], [.para ⟨2, 3⟩ [.str "i"], .para ⟨3, 4⟩ [.str "j"]]], .quote ⟨5, 6⟩ []]
    (match Sections.forest "" bs with
     | .ok f =>
       (match Sections.forest "" (asDocs (blocksOf "" f)) with
        | .ok f' => (Render.blocksSparse "" (blocksOf "" f')).toOption == (Render.blocksSparse "" (blocksOf "" f)).toOption
                    && (Render.blocksSparse "" (blocksOf "" f)).toOption.isSome
        | .error _ => false)
     | .error _ => false) = true := by
  decide

end Iwe.C02
