/-
C14 — a file on disk, its URI and its note key always name the same note (for safe names).
`_partial`: names made of the characters crate `url` leaves alone.  For spaces, non-ASCII, `%`,
`#`, `?`, a base path with a space or a trailing slash the real code round-trips through
percent-encoded text and fails (finding D15; exhibited by the harness on the real crate).
Helper lemmas: `IweModel/Lemmas/Uri.lean`.
-/
import IweModel.Lemmas.Uri

namespace Iwe.C14
open Iwe Iwe.Uri Iwe.Path

/-- **URI → key is the inverse of key → URI** for a key that does not end in `.md` and whose text
does not itself begin with the base string -/
theorem url_key_roundtrip_partial (basePath key : Str)
    (hmd : endsMd key = false) (hpre : (baseOf basePath).isPrefixOf key = false) :
    urlToKey (baseOf basePath) (keyToUrl (baseOf basePath) key) = key := by
  have hpre' : (baseOf basePath).isPrefixOf (key ++ ['.', 'm', 'd']) = false := by
    rw [baseOf_eq] at hpre ⊢
    exact slash_not_prefix_append_md _ _ hpre
  have hlen : (keyToUrl (baseOf basePath) key).length
      = ((baseOf basePath).length + key.length + 2) + 1 := by
    simp [keyToUrl, toPath]; omega
  unfold urlToKey
  rw [hlen]
  unfold keyToUrl toPath
  rw [trimStartMatches_strip_once _ _ _ (baseOf_ne_nil basePath) hpre', fromFileName,
    trimMd_append_md_core, trimMd_of_not_endsMd _ hmd]

/-- a key made of safe components never begins with `file://…` (it has no `:`), so the side
condition of the round trip holds for every safe key -/
theorem safe_key_has_no_base_prefix (basePath : Str) (comps : List Str)
    (hsafe : ∀ c ∈ comps, safeComponent c = true) :
    (baseOf basePath).isPrefixOf ("/".toList.intercalate comps) = false := by
  cases h : (baseOf basePath).isPrefixOf ("/".toList.intercalate comps) with
  | false => rfl
  | true => exact absurd (colon_mem_of_base_prefix _ _ h) (colon_not_mem_safe_key comps hsafe)

/-- **disk → key → disk** : the file a note is written to is the file it was read from, when the
file's stem does not itself end in `.md` (`x.md.md` is the counterexample) -/
theorem disk_key_path_roundtrip_partial (dirs : List Str) (stem : Str) (hstem : endsMd stem = false) :
    pathOfKey (keyOfFile dirs (stem ++ ".md".toList))
      = (match dirs with
         | [] => stem ++ ".md".toList
         | _ => "/".toList.intercalate dirs ++ ['/'] ++ stem ++ ".md".toList) := by
  rw [keyOfFile_stem_md dirs stem hstem, md_toList]
  cases dirs with
  | nil => rfl
  | cons d ds => simp [pathOfKey, toPath]

/-- **an edit notification for a loaded file addresses the loaded note**: the key derived from the
URI of the file equals the key derived from the file on disk -/
theorem edit_updates_same_note (basePath : Str) (dirs : List Str) (stem : Str)
    (hstem : endsMd stem = false)
    (hpre : (baseOf basePath).isPrefixOf (keyOfFile dirs (stem ++ ".md".toList)) = false) :
    urlToKey (baseOf basePath) (keyToUrl (baseOf basePath) (keyOfFile dirs (stem ++ ".md".toList)))
      = keyOfFile dirs (stem ++ ".md".toList) :=
  url_key_roundtrip_partial basePath _ (endsMd_keyOfFile dirs stem hstem) hpre

/-- **finding D15, `x.md.md`**: the file `x.md.md` gets key `x` and is written back to `x.md` -/
theorem md_md_counterexample :
    pathOfKey (keyOfFile [] "x.md.md".toList) = "x.md".toList := by
  decide

/-- non-vacuity: a nested safe key round-trips (kernel-evaluated) -/
example :
    urlToKey (baseOf "/home/u/notes".toList) (keyToUrl (baseOf "/home/u/notes".toList) "d/e/my-note_1".toList)
      = "d/e/my-note_1".toList := by
  decide

end Iwe.C14
