/-
C14 — a file on disk, its URI and its note key always name the same note (for safe names).
`_partial`: names made of the characters crate `url` leaves alone.  For spaces, non-ASCII, `%`,
`#`, `?`, a base path with a space or a trailing slash the real code round-trips through
percent-encoded text and fails (finding D15; exhibited by the harness on the real crate).
Helper lemmas: `IweModel/Lemmas/Uri.lean`.
-/
import IweModel.Lemmas.Uri

namespace Iwe.C14
open Iwe Iwe.Uri Iwe.Path

/-- **URI → key is the inverse of key → URI** for a key that does not end in `.md` and whose text
does not itself begin with the base string -/
theorem url_key_roundtrip_partial (basePath key : Str)
    (hmd : endsMd key = false) (hpre : (baseOf basePath).isPrefixOf key = false) :
    urlToKey (baseOf basePath) (keyToUrl (baseOf basePath) key) = key := by
  have hpre' : (baseOf basePath).isPrefixOf (key ++ ['.', 'm', 'd']) = false := by
    rw [baseOf_eq] at hpre ⊢
    exact slash_not_prefix_append_md _ _ hpre
  have hlen : (keyToUrl (baseOf basePath) key).length
      = ((baseOf basePath).length + key.length + 2) + 1 := by
    simp [keyToUrl, toPath]; omega
  unfold urlToKey
  rw [hlen]
  unfold keyToUrl toPath
  rw [trimStartMatches_strip_once _ _ _ (baseOf_ne_nil basePath) hpre', fromFileName,
    trimMd_append_md_core, trimMd_of_not_endsMd _ hmd]

/-- a key made of safe components never begins with `file://…` (it has no `:`), so the side
condition of the round trip holds for every safe key -/
theorem safe_key_has_no_base_prefix (basePath : Str) (comps : List Str)
    (hsafe : ∀ c ∈ comps, safeComponent c = true) :
    (baseOf basePath).isPrefixOf ("/".toList.intercalate comps) = false := by
  cases h : (baseOf basePath).isPrefixOf ("/".toList.intercalate comps) with
  | false => rfl
  | true => exact absurd (colon_mem_of_base_prefix _ _ h) (colon_not_mem_safe_key comps hsafe)

/-- **disk → key → disk** : the file a note is written to is the file it was read from, when the
file's stem does not itself end in `.md` (`x.md.md` is the counterexample) -/
theorem disk_key_path_roundtrip_partial (dirs : List Str) (stem : Str) (hstem : endsMd stem = false) :
    pathOfKey (keyOfFile dirs (stem ++ ".md".toList))
      = (match dirs with
         | [] => stem ++ ".md".toList
         | _ => "/".toList.intercalate dirs ++ ['/'] ++ stem ++ ".md".toList) := by
  rw [keyOfFile_stem_md dirs stem hstem, md_toList]
  cases dirs with
  | nil => rfl
  | cons d ds => simp [pathOfKey, toPath]

/-- **an edit notification for a loaded file addresses the loaded note**: the key derived from the
URI of the file equals the key derived from the file on disk -/
theorem edit_updates_same_note (basePath : Str) (dirs : List Str) (stem : Str)
    (hstem : endsMd stem = false)
    (hpre : (baseOf basePath).isPrefixOf (keyOfFile dirs (stem ++ ".md".toList)) = false) :
    urlToKey (baseOf basePath) (keyToUrl (baseOf basePath) (keyOfFile dirs (stem ++ ".md".toList)))
      = keyOfFile dirs (stem ++ ".md".toList) :=
  url_key_roundtrip_partial basePath _ (endsMd_keyOfFile dirs stem hstem) hpre

/-- **go-to-definition opens the file of the note the link resolves to**: the path segments of the URI
answered for a link met in a note of directory `D` (the base's segments `B`, then what `Url::join`
makes of `D` followed by the link's components `u`) are the base's segments followed by the components
of the key that link resolution (`join_normalized`, C15) gives for the same link — whenever that key does
not climb above the library root.  So the URI in the response and the backlink index name the same note. -/
theorem definition_resolution_agrees (B D : List Str) (u : List Comp)
    (hroot : Comp.parent ∉ joinNormalized (D.map Comp.normal) u) :
    urlResolve B (D.map Comp.normal ++ u) = B ++ (joinNormalized (D.map Comp.normal) u).map compStr := by
  unfold urlResolve joinNormalized at *
  rw [trav_normals D []] at hroot ⊢
  rw [List.append_nil] at hroot ⊢
  have hroot' : Comp.parent ∉ trav (D.map Comp.normal).reverse u := by
    intro h; exact hroot (List.mem_reverse.2 h)
  have hst : ∀ c ∈ (D.map Comp.normal).reverse, ∃ n, c = Comp.normal n := by
    intro c hc
    obtain ⟨n, _, rfl⟩ := List.mem_map.1 (List.mem_reverse.1 hc)
    exact ⟨n, rfl⟩
  have h1 : (D.map Comp.normal).foldl urlStep B.reverse = (D.map Comp.normal).reverse.map compStr ++ B.reverse := by
    have := urlTrav_eq B.reverse (D.map Comp.normal) [] (by simp) (by
      rw [trav_normals D []]
      intro h
      rw [List.append_nil] at h
      obtain ⟨n, _, hn⟩ := List.mem_map.1 (List.mem_reverse.1 h)
      cases hn)
    rw [trav_normals D []] at this
    simpa using this
  rw [List.foldl_append, h1, urlTrav_eq B.reverse u _ hst hroot']
  simp

/-- **the link iwe writes opens the note it was written for**: for every note key `K` and every
directory `D` (given by their component names), the relative link `relative D K` that iwe writes into a
note of directory `D` (C15) is answered by go-to-definition with the URI whose path is the base's
segments followed by the components of `K` — the file of that note, never another one -/
theorem written_link_opens_the_note (B D K : List Str) :
    urlResolve B (D.map Comp.normal ++ relative (D.map Comp.normal) (K.map Comp.normal)) = B ++ K := by
  obtain ⟨P, D', K', hD, hK, hrel⟩ := relative_normals D K
  have hjoin : joinNormalized (D.map Comp.normal) (relative (D.map Comp.normal) (K.map Comp.normal))
      = K.map Comp.normal := by
    rw [hrel, hD, hK]
    exact joinNormalized_relative P D' K'
  have hroot : Comp.parent ∉ joinNormalized (D.map Comp.normal) (relative (D.map Comp.normal) (K.map Comp.normal)) := by
    rw [hjoin]
    intro h
    obtain ⟨n, _, hn⟩ := List.mem_map.1 h
    cases hn
  have hid : ∀ L : List Str, (L.map Comp.normal).map compStr = L := by
    intro L
    induction L with
    | nil => rfl
    | cons k ks ih => simp only [List.map_cons, compStr, ih]
  rw [definition_resolution_agrees B D _ hroot, hjoin, hid]

/-- above the library root the two part ways (finding D15's neighbourhood): link resolution keeps the
`..`, the URL stays at the root of the file system -/
theorem definition_above_root_counterexample :
    urlResolve [] ([Comp.parent, Comp.normal "x".toList]) = ["x".toList]
    ∧ joinNormalized [] [Comp.parent, Comp.normal "x".toList] = [Comp.parent, Comp.normal "x".toList] := by
  decide

/-- non-vacuity, at the level of strings (kernel-evaluated): from note `d/e/n` the link `../x` opens
`<base>/d/x.md`, the file of the key `d/x` that the link resolves to -/
example :
    definitionTarget "/home/u/notes".toList "d/e/n".toList "../x".toList = "file:///home/u/notes/d/x.md".toList
    ∧ fromRelLinkUrl "../x".toList (parent "d/e/n".toList) = "d/x".toList
    ∧ keyToUrl (baseOf "/home/u/notes".toList) "d/x".toList = "file:///home/u/notes/d/x.md".toList := by
  decide

/-- **finding D15, `x.md.md`**: the file `x.md.md` gets key `x` and is written back to `x.md` -/
theorem md_md_counterexample :
    pathOfKey (keyOfFile [] "x.md.md".toList) = "x.md".toList := by
  decide

/-- non-vacuity: a nested safe key round-trips (kernel-evaluated) -/
example :
    urlToKey (baseOf "/home/u/notes".toList) (keyToUrl (baseOf "/home/u/notes".toList) "d/e/my-note_1".toList)
      = "d/e/my-note_1".toList := by
  decide

end Iwe.C14
