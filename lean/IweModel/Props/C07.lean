/-
C07 — the outline survives formatting and comes out well-nested (structural half).
Order and text of headings and blocks and their containers are C01's token theorems
(`forest_tokens`, `project_tokens`: the token sequence includes the container brackets, the list
kind and the item membership of every block).  Here: the heading *levels*.
Helper lemmas live in `IweModel/Lemmas/Outline.lean`.
-/
import IweModel.Lemmas.Outline
import IweModel.Lemmas.ReaderOutline

namespace Iwe.C07
open Iwe Outline

/-- **any outline is mapped to a well-nested one**: whatever forest is projected at heading depth
`lvl`, the levels of the emitted headings start at most one below `lvl` … i.e. are ≥ 1, the first
is ≤ `lvl + 1`, and no heading is more than one level deeper than the heading before it. -/
theorem out_wellNested (dir : String) (norm : Node → Node) (lvl b : Nat) (f : List BTree)
    (hnorm : ∀ n, (norm n).isSect = n.isSect) :
    wellNested lvl (levelsG (Project.forest dir lvl (forestWithIds norm b f))) = true := by
  -- `levels_forest` holds for every `List Tree`, whatever `norm` does; `hnorm` is not needed
  have _ := hnorm
  exact (levels_forest dir (forestWithIds norm b f) lvl).2 lvl (Nat.le_refl _)

/-- a whole note: levels start at 1 and never skip -/
theorem note_wellNested (dir : String) (b : Nat) (f : List BTree) :
    wellNested 0 (levelsG (Project.forest dir 0 (forestWithIds id b f))) = true :=
  out_wellNested dir id 0 b f (fun _ => rfl)

/-- **an outline whose levels are already well-nested is reproduced with identical levels** -/
theorem nest_identity (fuel : Nat) (dir : String) (w : Bool) (bs : List DBlock) (f : List BTree) (b : Nat)
    (hok : Sections.blocks fuel dir w bs = .ok f)
    (hwn : wellNested 0 (levelsD bs) = true) :
    levelsG (Project.forest dir 0 (forestWithIds id b f)) = levelsD bs :=
  (nestSpec fuel).1 dir w bs f 0 hok hwn (fun x hx => by have := wellNested_pos _ _ hwn x hx; omega) b

/-- the same for a whole note -/
theorem note_nest_identity (dir : String) (bs : List DBlock) (f : List BTree) (b : Nat)
    (hok : Sections.forest dir bs = .ok f)
    (hwn : wellNested 0 (levelsD bs) = true) :
    levelsG (Project.forest dir 0 (forestWithIds id b f)) = levelsD bs :=
  nest_identity _ dir true bs f b hok hwn

/-- **the number and order of headings never changes** (well-nested or not) -/
theorem heading_count_kept (fuel : Nat) (dir : String) (w : Bool) (bs : List DBlock) (f : List BTree) (b : Nat)
    (hok : Sections.blocks fuel dir w bs = .ok f) :
    (levelsG (Project.forest dir 0 (forestWithIds id b f))).length = (levelsD bs).length :=
  (countSpec fuel).1 dir w bs f hok 0 b

/-- **the reader keeps the outline it is given**: on every complete event stream that follows the parser's grammar,
the top-level headings of the blocks `MarkdownEventsReader::read` returns have, in order, exactly the levels of the
heading events the parser reported at top level — none lost, invented, reordered or re-levelled between
pulldown-cmark and the section builder (headings inside quotes and list items stay inside them: `reader_content`
and the token theorems of C01) -/
theorem reader_outline (content : Position.Bytes) (evs : List Reader.Ev) (bs : List DBlock) (m : Option String)
    (hwf : Events.wellFormed evs = true) (h : Reader.read content evs = .ok (bs, m)) :
    levelsD bs = levelsEv [] evs := by
  obtain ⟨st, hs, hstack, _, _⟩ := ReaderTotal.run_delivers_core content evs hwf
  simp only [Reader.read, hs, Except.ok.injEq, Prod.mk.injEq] at h
  have hfs : Events.run [] evs = some [] := by simpa [Events.wellFormed] using hwf
  have hc := ReaderOutline.run_levels content evs ReaderTotal.rel_init hfs hs
  rw [← h.1]
  simpa [ReaderOutline.lv, ReaderOutline.bottom, hstack, levelsD] using hc

/-- hence, end to end from the parser's events: a well-nested outline is reproduced level for level, and any outline
keeps its number of headings -/
theorem events_to_rendered_outline (content : Position.Bytes) (dir : String) (evs : List Reader.Ev) (bs : List DBlock)
    (m : Option String) (f : List BTree) (b : Nat)
    (hwf : Events.wellFormed evs = true) (h : Reader.read content evs = .ok (bs, m))
    (hok : Sections.forest dir bs = .ok f) :
    (levelsG (Project.forest dir 0 (forestWithIds id b f))).length = (levelsEv [] evs).length
    ∧ (wellNested 0 (levelsEv [] evs) = true →
        levelsG (Project.forest dir 0 (forestWithIds id b f)) = levelsEv [] evs) := by
  have e := reader_outline content evs bs m hwf h
  refine ⟨?_, fun hwn => ?_⟩
  · rw [← e]; exact heading_count_kept _ dir true bs f b hok
  · rw [← e] at hwn ⊢; exact note_nest_identity dir bs f b hok hwn

/-- non-vacuity: `# a`, a quote holding `### q`, `## b` with a list item holding `# i`: the top-level outline is 1, 2 -/
example :
    let evs : List Reader.Ev :=
      [.startHeading 0 3 1, .text 2 3 "a", .endHeading,
       .startQuote 4 12, .startHeading 6 11 3, .text 10 11 "q", .endHeading, .endQuote,
       .startHeading 13 17 2, .text 16 17 "b", .endHeading,
       .startList false, .startItem, .startHeading 20 23 1, .text 22 23 "i", .endHeading, .endItem, .endList]
    Events.wellFormed evs = true ∧ levelsEv [] evs = [1, 2] ∧
      (match Reader.read [] evs with
       | .ok (bs, _) => levelsD bs == [1, 2]
       | .error _ => false) = true := by
  decide

/-- heading levels restart inside quotes and list items: they are projected at depth 0 whatever the
depth of the enclosing section -/
theorem levels_restart_in_containers (dir : String) (lvl : Nat) (id? : Option Nat) (cs : List Tree) :
    Project.tree dir lvl (.mk id? .quote cs) = [.quote (Project.forest dir 0 cs)]
    ∧ Project.tree dir lvl (.mk id? .blist cs) = [.blist (Project.items dir cs)]
    ∧ Project.tree dir lvl (.mk id? .olist cs) = [.olist (Project.items dir cs)] := by
  simp [Project.tree]

/-- non-vacuity and an example of the mapping: levels 3,1,4,2 come out as 1,1,2,1;
the well-nested 1,2,3,2,1 comes out unchanged. -/
example :
    let hs (ls : List Nat) : List DBlock := ls.map fun l => .header ⟨0, 1⟩ l [.str "h"]
    (match Sections.forest "" (hs [3, 1, 4, 2]) with
     | .ok f => levelsG (Project.forest "" 0 (forestWithIds id 1 f)) == [1, 1, 2, 1]
     | .error _ => false) = true
    ∧ (match Sections.forest "" (hs [1, 2, 3, 2, 1]) with
     | .ok f => levelsG (Project.forest "" 0 (forestWithIds id 1 f)) == [1, 2, 3, 2, 1]
     | .error _ => false) = true
    ∧ wellNested 0 [1, 2, 3, 2, 1] = true ∧ wellNested 0 [3, 1, 4, 2] = false := by
  decide

end Iwe.C07
