/-
C07 — the outline survives formatting and comes out well-nested (structural half).
Order and text of headings and blocks and their containers are C01's token theorems
(`forest_tokens`, `project_tokens`: the token sequence includes the container brackets, the list
kind and the item membership of every block).  Here: the heading *levels*.
Helper lemmas live in `IweModel/Lemmas/Outline.lean`.
-/
import IweModel.Lemmas.Outline

namespace Iwe.C07
open Iwe Outline

/-- **any outline is mapped to a well-nested one**: whatever forest is projected at heading depth
`lvl`, the levels of the emitted headings start at most one below `lvl` … i.e. are ≥ 1, the first
is ≤ `lvl + 1`, and no heading is more than one level deeper than the heading before it. -/
theorem out_wellNested (dir : String) (norm : Node → Node) (lvl b : Nat) (f : List BTree)
    (hnorm : ∀ n, (norm n).isSect = n.isSect) :
    wellNested lvl (levelsG (Project.forest dir lvl (forestWithIds norm b f))) = true := by
  -- `levels_forest` holds for every `List Tree`, whatever `norm` does; `hnorm` is not needed
  have _ := hnorm
  exact (levels_forest dir (forestWithIds norm b f) lvl).2 lvl (Nat.le_refl _)

/-- a whole note: levels start at 1 and never skip -/
theorem note_wellNested (dir : String) (b : Nat) (f : List BTree) :
    wellNested 0 (levelsG (Project.forest dir 0 (forestWithIds id b f))) = true :=
  out_wellNested dir id 0 b f (fun _ => rfl)

/-- **an outline whose levels are already well-nested is reproduced with identical levels** -/
theorem nest_identity (fuel : Nat) (dir : String) (w : Bool) (bs : List DBlock) (f : List BTree) (b : Nat)
    (hok : Sections.blocks fuel dir w bs = .ok f)
    (hwn : wellNested 0 (levelsD bs) = true) :
    levelsG (Project.forest dir 0 (forestWithIds id b f)) = levelsD bs :=
  (nestSpec fuel).1 dir w bs f 0 hok hwn (fun x hx => by have := wellNested_pos _ _ hwn x hx; omega) b

/-- the same for a whole note -/
theorem note_nest_identity (dir : String) (bs : List DBlock) (f : List BTree) (b : Nat)
    (hok : Sections.forest dir bs = .ok f)
    (hwn : wellNested 0 (levelsD bs) = true) :
    levelsG (Project.forest dir 0 (forestWithIds id b f)) = levelsD bs :=
  nest_identity _ dir true bs f b hok hwn

/-- **the number and order of headings never changes** (well-nested or not) -/
theorem heading_count_kept (fuel : Nat) (dir : String) (w : Bool) (bs : List DBlock) (f : List BTree) (b : Nat)
    (hok : Sections.blocks fuel dir w bs = .ok f) :
    (levelsG (Project.forest dir 0 (forestWithIds id b f))).length = (levelsD bs).length :=
  (countSpec fuel).1 dir w bs f hok 0 b

/-- heading levels restart inside quotes and list items: they are projected at depth 0 whatever the
depth of the enclosing section -/
theorem levels_restart_in_containers (dir : String) (lvl : Nat) (id? : Option Nat) (cs : List Tree) :
    Project.tree dir lvl (.mk id? .quote cs) = [.quote (Project.forest dir 0 cs)]
    ∧ Project.tree dir lvl (.mk id? .blist cs) = [.blist (Project.items dir cs)]
    ∧ Project.tree dir lvl (.mk id? .olist cs) = [.olist (Project.items dir cs)] := by
  simp [Project.tree]

/-- non-vacuity and an example of the mapping: levels 3,1,4,2 come out as 1,1,2,1;
the well-nested 1,2,3,2,1 comes out unchanged. -/
example :
    let hs (ls : List Nat) : List DBlock := ls.map fun l => .header ⟨0, 1⟩ l [.str "h"]
    (match Sections.forest "" (hs [3, 1, 4, 2]) with
     | .ok f => levelsG (Project.forest "" 0 (forestWithIds id 1 f)) == [1, 1, 2, 1]
     | .error _ => false) = true
    ∧ (match Sections.forest "" (hs [1, 2, 3, 2, 1]) with
     | .ok f => levelsG (Project.forest "" 0 (forestWithIds id 1 f)) == [1, 2, 3, 2, 1]
     | .error _ => false) = true
    ∧ wellNested 0 [1, 2, 3, 2, 1] = true ∧ wellNested 0 [3, 1, 4, 2] = false := by
  decide

end Iwe.C07
