/-
C17 — squash expands references to a bounded depth and always terminates.
`Squash.squash lib d t` (Model/Squash.lean) is defined by nested *structural* recursion — outer on
the depth, inner on the tree — so it is a total function for every library `lib`, i.e. for every
reference graph, cyclic or not: termination is checked by Lean's kernel when the definition is
accepted.  The theorems below state what it computes.
Helper lemmas live in `IweModel/Lemmas/Squash.lean`.
-/
import IweModel.Lemmas.Squash

namespace Iwe.C17
open Iwe Iwe.Squash

/-- **the statement's equation, node case**: squashing a node squashes its children and orders
them: first child, then the other non-references, then the other references -/
theorem squash_node (lib : String → Option Tree) (d : Nat) (id : Option Nat) (n : Node) (cs : List Tree) :
    squash lib d (.mk id n cs) = .mk id n (assemble (sqKids (jumpAt lib d) cs)) := by
  simp only [squash, sqTree]

/-- **reference case, expanded**: with `d + 1` levels left, a reference to an existing note `k` is
replaced by the children of that note squashed with depth `d` -/
theorem squash_ref_expands (lib : String → Option Tree) (d : Nat) (id : Option Nat) (k text : String)
    (ty : LinkType) (cs : List Tree) (t : Tree) (hk : lib k = some t) :
    sqChild (jumpAt lib (d + 1)) (.mk id (.ref k text ty) cs) = (squash lib d t).children := by
  simp [sqChild, jumpAt, hk, squash]

/-- **references at depth 0 are kept as links** -/
theorem squash_ref_depth0 (lib : String → Option Tree) (id : Option Nat) (k text : String) (ty : LinkType) :
    sqChild (jumpAt lib 0) (.mk id (.ref k text ty) []) = [.mk id (.ref k text ty) []] := by
  simp [sqChild, jumpAt, sqKids, assemble]

/-- **references to missing notes are kept as links**, at every depth -/
theorem squash_ref_missing (lib : String → Option Tree) (d : Nat) (id : Option Nat) (k text : String)
    (ty : LinkType) (hk : lib k = none) :
    sqChild (jumpAt lib d) (.mk id (.ref k text ty) []) = [.mk id (.ref k text ty) []] := by
  cases d <;> simp [sqChild, jumpAt, sqKids, assemble, hk]

/-- at depth 0 nothing is expanded: the references of the result are the references of the note
(as a multiset: squash reorders children) -/
theorem squash_zero_keeps_links (lib : String → Option Tree) (t : Tree) :
    (refs (squash lib 0 t)).Perm (refs t) :=
  refs_sq0 t

/-- **all non-reference content is kept once** (depth 0, where only the note itself contributes):
the non-reference nodes of the result are exactly those of the note, each once -/
theorem nonref_content_once_depth0 (lib : String → Option Tree) (t : Tree) :
    (nonRefIds (squash lib 0 t)).Perm (nonRefIds t) :=
  nonRefIds_sq0 t

/-- **at any depth no non-reference node of the note is lost** (expansion only adds content):
every non-reference node of `t` occurs in the result at least as often as in `t`.
Hypothesis `refsAreLeaves t` (Lemmas/Squash.lean; decidable, true for every arena tree: a reference
block has no children): an expanded reference is replaced by the target's children, so children
of the reference node itself — which `nonRefIds` would count — are dropped.  Without it the
statement is false, see the `example` below. -/
theorem nonref_content_kept (lib : String → Option Tree) (d : Nat) (t : Tree) (i : Option Nat)
    (hleaf : refsAreLeaves t = true) :
    (nonRefIds t).count i ≤ (nonRefIds (squash lib d t)).count i :=
  count_sqTree (jumpAt lib d) i t hleaf

/-- why `nonref_content_kept` needs `refsAreLeaves`: a (non-arena) reference node with a child,
expanded at depth 1, loses that child -/
example :
    let t : Tree := .mk (some 0) (.document "a") [.mk (some 1) (.ref "b" "B" .regular) [.mk (some 2) .quote []]]
    let lib : String → Option Tree := fun k => if k == "b" then some (.mk (some 5) (.document "b") []) else none
    refsAreLeaves t = false ∧
      (nonRefIds t).count (some 2) = 1 ∧ (nonRefIds (squash lib 1 t)).count (some 2) = 0 := by
  decide

/-- the root node itself is unchanged -/
theorem squash_root (lib : String → Option Tree) (d : Nat) (t : Tree) :
    (squash lib d t).id = t.id ∧ (squash lib d t).node = t.node := by
  obtain ⟨id, n, cs⟩ := t
  simp [squash, sqTree, Tree.id, Tree.node]

/-- **size bound** (why depth 255 is only feasible on chains and self-loops): if every note has at
most `m` nodes, the result has at most `(m + 1) ^ (d + 1)` nodes -/
theorem size_bound (lib : String → Option Tree) (m : Nat)
    (hm : ∀ k t, lib k = some t → Tree.size t ≤ m) (d : Nat) (t : Tree) (ht : Tree.size t ≤ m) :
    Tree.size (squash lib d t) ≤ (m + 1) ^ (d + 1) :=
  size_squash_le lib m hm d t ht

/-- a note that references itself, squashed with depth 2: the definition reduces in the kernel
(cycle, no fuel), the self-reference is expanded twice and then kept -/
example :
    let self : Tree := .mk (some 0) (.document "a") [.mk (some 1) (.sect [.str "A"]) [.mk (some 2) (.ref "a" "A" .regular) []]]
    let lib : String → Option Tree := fun k => if k == "a" then some self else none
    (refs (squash lib 2 self)).length = 1 ∧ Tree.size (squash lib 2 self) = 5 ∧ Tree.size (squash lib 0 self) = 3 := by
  decide

/-! ### A note that includes itself: one more copy per level of depth, however the cycle is reached -/

/-- the note `k`: a paragraph and a block reference to `k` itself -/
def selfLoop : Tree :=
  .mk (some 0) (.document "k") [.mk (some 1) (.leaf []) [], .mk (some 2) (.ref "k" "" .regular) []]

def selfLib : String → Option Tree := fun key => if key = "k" then some selfLoop else none

private theorem selfLoop_children (jump : String → Option (List Tree)) :
    (sqTree jump selfLoop).children
      = .mk (some 1) (.leaf []) [] :: (match jump "k" with
          | some kids => kids
          | none => [.mk (some 2) (.ref "k" "" .regular) []]) := by
  simp only [selfLoop, sqTree, sqKids, sqChild, assemble, Tree.children, Tree.isReference, Tree.node, Node.isRef]
  cases jump "k" <;> simp [sqKids, assemble]

private theorem selfLoop_kids_count (d : Nat) :
    (nonRefIdsL (sqTree (jumpAt selfLib d) selfLoop).children).length = d + 1 := by
  induction d with
  | zero =>
    rw [selfLoop_children]
    simp [jumpAt, nonRefIdsL, nonRefIds, Node.isRef]
  | succ d ih =>
    rw [selfLoop_children]
    have hj : jumpAt selfLib (d + 1) "k" = some (sqTree (jumpAt selfLib d) selfLoop).children := by
      simp [jumpAt, selfLib]
    rw [hj]
    simp only [nonRefIdsL, nonRefIds, Node.isRef, List.length_append, ih]
    simp
    omega

/-- **expansion is counted down along the cycle, never cut short**: squashing the self-including note
with depth `d` yields the paragraph `d + 1` times (and the root once) — the reference is expanded at
every level while depth remains, although its target is the very note being expanded.  (A guard that
keeps a reference as a link because its target is "already open" would give 2 copies for every `d ≥ 1`.) -/
theorem self_loop_copies (d : Nat) :
    (nonRefIds (squash selfLib d selfLoop)).length = d + 2 := by
  have h := selfLoop_kids_count d
  have hs : squash selfLib d selfLoop
      = .mk (some 0) (.document "k") (sqTree (jumpAt selfLib d) selfLoop).children := by
    simp [squash, selfLoop, sqTree, Tree.children]
  rw [hs]
  simp only [nonRefIds, Node.isRef, List.length_append, h]
  simp
  omega

end Iwe.C17
