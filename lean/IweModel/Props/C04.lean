/-
C04 — incremental edits leave the same library as a fresh start.
Refinement to the abstract spec `Library` (`Spec/Library.lean`): an invariant `Inv g lib` ties the
concrete graph (arena with tombstones, accumulating index, caches) to the latest documents; it is
established by `import`, preserved by every `update_key`, and every answer is a function of `lib`
alone.  Hence a graph reached by any history and a graph freshly imported from the final texts —
both satisfying `Inv` for the same library — answer identically.
The invariant is defined in `IweModel/Lemmas/Refine.lean`; helper lemmas live in
`IweModel/Lemmas/RefineInv.lean` (preservation) and `IweModel/Lemmas/RefineObs.lean` (observations).
-/
import IweModel.Lemmas.RefineObs

namespace Iwe.C04
open Iwe

/-- `import` of files with pairwise distinct keys establishes the invariant for the library of those files -/
theorem inv_import (ext : String) (state : List (String × Document)) (g : Graph)
    (hd : (state.map fun p => keyFromFileName p.1).Nodup)
    (hok : Graph.importDocs ext state = .ok g) :
    Inv g (state.map fun p => (keyFromFileName p.1, p.2)) ∧ g.ext = ext := by
  exact Inv.import hd hok

/-- every edit of an existing note and every insertion of a new note preserves the invariant, for
the library in which that note's document is replaced / added -/
theorem inv_updateKey (g g' : Graph) (lib : Library) (key : String) (d : Document)
    (h : Inv g lib) (hok : g.updateKey key d = .ok g') :
    Inv g' (assocSet lib key d) ∧ g'.ext = g.ext := by
  exact h.updateKey hok

/-- the library after a history -/
def finalLib (lib : Library) : List (String × Document) → Library
  | [] => lib
  | (k, d) :: rest => finalLib (assocSet lib k d) rest

/-- **every reachable state satisfies the invariant for the latest texts** -/
theorem inv_reachable (g g' : Graph) (lib : Library) (steps : List (String × Document))
    (h : Inv g lib) (hok : C20.runHistory g steps = .ok g') :
    Inv g' (finalLib lib steps) ∧ g'.ext = g.ext := by
  induction steps generalizing g lib with
  | nil => simp [C20.runHistory] at hok; subst hok; exact ⟨h, rfl⟩
  | cons p rest ih =>
    obtain ⟨k, d⟩ := p
    simp only [C20.runHistory] at hok
    cases h1 : g.updateKey k d with
    | error e => rw [h1] at hok; simp at hok
    | ok g1 =>
      rw [h1] at hok
      obtain ⟨hinv1, hext1⟩ := inv_updateKey g g1 lib k d h h1
      obtain ⟨hinv, hext⟩ := ih g1 (assocSet lib k d) hinv1 hok
      exact ⟨hinv, by rw [hext, hext1]⟩

/-- the invariant only depends on the library as a finite map -/
theorem inv_congr (g : Graph) (lib lib' : Library) (h : Inv g lib)
    (hnd : (lib'.map (·.1)).Nodup) (heq : ∀ k, assocGet lib k = assocGet lib' k) : Inv g lib' := by
  obtain ⟨segs, hi⟩ := inv_iff.1 h
  exact inv_iff.2 ⟨segs, hi.congr hnd heq⟩

/-- **formatted text is a function of the latest documents** -/
theorem toMarkdown_spec (g : Graph) (lib : Library) (k : String) (h : Inv g lib) :
    g.toMarkdown k = Spec.markdown g.ext lib k := by
  obtain ⟨segs, hi⟩ := inv_iff.1 h
  exact hi.toMarkdown k

/-- **link titles are a function of the latest documents** (no stale title survives) -/
theorem title_spec (g : Graph) (lib : Library) (k : String) (h : Inv g lib) :
    g.title k = Spec.titleOf lib k := by
  obtain ⟨segs, hi⟩ := inv_iff.1 h
  exact hi.titles k

/-- **block backlinks are a function of the latest documents** (no ghost, none missing): the live
reference nodes to `K`, as (note, position in the note), are exactly the reference blocks found by
scanning the documents; each is reported once. -/
theorem blockBacklinks_spec (g : Graph) (lib : Library) (K : String) (h : Inv g lib) :
    (∀ p, p ∈ (g.blockReferencesTo K).map g.place ↔ p ∈ (Spec.blockBacklinks lib K).map some)
    ∧ ((g.blockReferencesTo K).map g.place).Nodup := by
  obtain ⟨segs, hi⟩ := inv_iff.1 h
  exact hi.backlinks Prod.fst
    (fun b c ts => by rw [Graph.indexForest_shift ts b c])
    (fun b ts K id hm => Graph.indexForest_range ts b K id (Or.inl hm))
    g.blockRefs hi.blockLive K

/-- the same for links inside paragraphs, headings and list items -/
theorem inlineBacklinks_spec (g : Graph) (lib : Library) (K : String) (h : Inv g lib) :
    (∀ p, p ∈ (g.inlineReferencesTo K).map g.place ↔ p ∈ (Spec.inlineBacklinks lib K).map some)
    ∧ ((g.inlineReferencesTo K).map g.place).Nodup := by
  obtain ⟨segs, hi⟩ := inv_iff.1 h
  exact hi.backlinks Prod.snd
    (fun b c ts => by rw [Graph.indexForest_shift ts b c])
    (fun b ts K id hm => Graph.indexForest_range ts b K id (Or.inr hm))
    g.inlineRefs hi.inlineLive K

/-- **the block found at a line is a function of the latest documents**: `get_node_id_at` answers
from the line ranges of the note's current forest, re-based at the note's root -/
theorem nodeIdAt_spec (g : Graph) (lib : Library) (k : String) (line b : Nat) (f : List BTree)
    (h : Inv g lib) (hb : assocGet g.keys k = some b) (hf : Spec.forestOf lib k = some f) :
    g.nodeIdAt k line =
      .ok (((Arena.rangesForest (b + 1) f).reverse.find? fun p => p.2.start ≤ line && line < p.2.stop).map (·.1)) := by
  obtain ⟨segs, hi⟩ := inv_iff.1 h
  obtain ⟨s, hs, rfl, rfl⟩ := (hi.keys k b).1 (assocGet_some_mem hb)
  rw [hi.forests s hs] at hf
  simp only [Option.some.injEq] at hf
  subst hf
  simp only [Graph.nodeIdAt, hi.nodesMap s hs]

/-- **C04, main statement.** Start from any imported library, apply any history of edits and
insertions; import the final texts afresh.  Both graphs give the same formatted text and title for
every note, and the same backlinks (as places) for every target. -/
theorem incremental_eq_fresh (ext : String) (state : List (String × Document))
    (steps : List (String × Document)) (g0 g gf : Graph) (fresh : List (String × Document))
    (hd : (state.map fun p => keyFromFileName p.1).Nodup)
    (h0 : Graph.importDocs ext state = .ok g0)
    (hrun : C20.runHistory g0 steps = .ok g)
    (hfd : (fresh.map fun p => keyFromFileName p.1).Nodup)
    (hfresh : ∀ k, assocGet (fresh.map fun p => (keyFromFileName p.1, p.2)) k
                 = assocGet (finalLib (state.map fun p => (keyFromFileName p.1, p.2)) steps) k)
    (hf : Graph.importDocs ext fresh = .ok gf) :
    (∀ k, g.toMarkdown k = gf.toMarkdown k)
    ∧ (∀ k, g.title k = gf.title k)
    ∧ (∀ K p, p ∈ (g.blockReferencesTo K).map g.place ↔ p ∈ (gf.blockReferencesTo K).map gf.place)
    ∧ (∀ K p, p ∈ (g.inlineReferencesTo K).map g.place ↔ p ∈ (gf.inlineReferencesTo K).map gf.place) := by
  obtain ⟨hinv0, hext0⟩ := inv_import ext state g0 hd h0
  obtain ⟨hinv, hext⟩ := inv_reachable g0 g _ steps hinv0 hrun
  obtain ⟨hinvf0, hextf⟩ := inv_import ext fresh gf hfd hf
  have hlnd : ((finalLib (state.map fun p => (keyFromFileName p.1, p.2)) steps).map (·.1)).Nodup := by
    obtain ⟨segs, hi⟩ := inv_iff.1 hinv
    exact hi.libNodup
  have hinvf := inv_congr gf _ _ hinvf0 hlnd hfresh
  refine ⟨?_, ?_, ?_, ?_⟩
  · intro k
    rw [toMarkdown_spec g _ k hinv, toMarkdown_spec gf _ k hinvf, hext, hext0, hextf]
  · intro k
    rw [title_spec g _ k hinv, title_spec gf _ k hinvf]
  · intro K p
    rw [(blockBacklinks_spec g _ K hinv).1 p, (blockBacklinks_spec gf _ K hinvf).1 p]
  · intro K p
    rw [(inlineBacklinks_spec g _ K hinv).1 p, (inlineBacklinks_spec gf _ K hinvf).1 p]

/-- non-vacuity: a two-note library, one edit that removes the heading of `b` and the reference to
it: evaluated, the incremental graph and the fresh one agree on text, title and backlinks. -/
example :
    let a1 : Document := ⟨[.header ⟨0, 1⟩ 1 [.str "A"], .para ⟨2, 3⟩ [.link "b" "" .regular [.str "x"]]], none⟩
    let b1 : Document := ⟨[.header ⟨0, 1⟩ 1 [.str "B"]], none⟩
    let b2 : Document := ⟨[.para ⟨0, 1⟩ [.str "no heading"]], none⟩
    (match Graph.importDocs "" [("a", a1), ("b", b1)] with
     | .ok g0 =>
       match g0.updateKey "b" b2, Graph.importDocs "" [("a", a1), ("b", b2)] with
       | .ok g, .ok gf =>
         (g.title "b").isNone && (gf.title "b").isNone && (g0.title "b") == some "B"
         && (g.blockReferencesTo "b").map g.place == (gf.blockReferencesTo "b").map gf.place
         && ((g.blockReferencesTo "b").length == 1)
       | _, _ => false
     | .error _ => false) = true := by
  decide

end Iwe.C04
