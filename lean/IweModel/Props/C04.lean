import IweModel.Props.C20
