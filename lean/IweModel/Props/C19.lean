/-
C19 — on-disk normalize rewrites notes in place and never leaves a damaged file.
Invariant over all crash points of the write sequence of `iwe normalize` (`Model/Fs.lean`).
Helper lemmas live in `IweModel/Lemmas/Fs.lean`.
-/
import IweModel.Lemmas.Fs

namespace Iwe.C19
open Iwe Iwe.Fs

/-- the note keys are distinct and no note is called like another note's temp file -/
def GoodStore (base : String) (store : List (String × List String)) : Prop :=
  (store.map (·.1)).Nodup
  ∧ ∀ k ∈ store, ∀ k' ∈ store, tmpPath base k.1 ≠ notePath base k'.1

private theorem GoodStore.tail {base : String} {e : String × List String}
    {rest : List (String × List String)} (h : GoodStore base (e :: rest)) : GoodStore base rest := by
  obtain ⟨hnd, htn⟩ := h
  simp only [List.map_cons, List.nodup_cons] at hnd
  exact ⟨hnd.2, fun a ha b hb => htn a (List.mem_cons_of_mem _ ha) b (List.mem_cons_of_mem _ hb)⟩

/-- the notes after the head neither are nor use the head's note path / temp path -/
private theorem GoodStore.head_frame {base key : String} {chunks : List String}
    {rest : List (String × List String)} (h : GoodStore base ((key, chunks) :: rest)) :
    ∀ e ∈ rest, (notePath base key ≠ notePath base e.1 ∧ notePath base key ≠ tmpPath base e.1)
      ∧ (tmpPath base key ≠ notePath base e.1 ∧ tmpPath base key ≠ tmpPath base e.1) := by
  obtain ⟨hnd, htn⟩ := h
  simp only [List.map_cons, List.nodup_cons] at hnd
  intro e he
  have hk : key ≠ e.1 := fun hk => hnd.1 (hk ▸ List.mem_map.2 ⟨e, he, rfl⟩)
  refine ⟨⟨fun h => hk (notePath_inj h), fun h => ?_⟩, ⟨fun h => ?_, fun h => hk (tmpPath_inj h)⟩⟩
  · exact htn e (List.mem_cons_of_mem _ he) (key, chunks) List.mem_cons_self h.symm
  · exact htn (key, chunks) List.mem_cons_self e (List.mem_cons_of_mem _ he) h

/-- a note of the tail neither is nor uses the head's note path / temp path -/
private theorem GoodStore.tail_frame {base k0 : String} {ch0 : List String}
    {rest : List (String × List String)} (h : GoodStore base ((k0, ch0) :: rest))
    {key : String} {chunks : List String} (hin : (key, chunks) ∈ rest) :
    (notePath base key ≠ notePath base k0 ∧ notePath base key ≠ tmpPath base k0)
      ∧ (tmpPath base key ≠ notePath base k0 ∧ tmpPath base key ≠ tmpPath base k0) := by
  obtain ⟨⟨h1, h2⟩, ⟨h3, h4⟩⟩ := h.head_frame (key, chunks) hin
  exact ⟨⟨fun e => h1 e.symm, fun e => h3 e.symm⟩, ⟨fun e => h2 e.symm, fun e => h4 e.symm⟩⟩

private theorem GoodStore.head_ne {base key : String} {chunks : List String}
    {rest : List (String × List String)} (h : GoodStore base ((key, chunks) :: rest)) :
    tmpPath base key ≠ notePath base key :=
  h.2 (key, chunks) List.mem_cons_self (key, chunks) List.mem_cons_self

/-- **crash safety (repaired code)**: whatever the number of steps executed before the process dies
— between any two system calls, in the middle of any note, in the middle of a write — every note
file holds either its complete old text or its complete new text -/
theorem crash_safe (base : String) (d : Disk) (store : List (String × List String)) (k : Nat)
    (hgood : GoodStore base store) (key : String) (chunks : List String) (hmem : (key, chunks) ∈ store) :
    get (crashAfter d (writeStore true base store) k) (notePath base key) = get d (notePath base key)
    ∨ get (crashAfter d (writeStore true base store) k) (notePath base key) = some (String.join chunks) := by
  unfold crashAfter
  induction store generalizing d k with
  | nil => cases hmem
  | cons e rest ih =>
    obtain ⟨k0, ch0⟩ := e
    simp only [writeStore, List.take_append, run_append]
    rcases List.mem_cons.1 hmem with heq | hin
    · obtain ⟨rfl, rfl⟩ := Prod.mk.inj heq
      rw [get_take_writeStore_frame true base rest _ _ _ (fun e he => (hgood.head_frame e he).1)]
      exact get_take_writeFile_note base key chunks d k hgood.head_ne
    · have hf := (hgood.tail_frame hin).1
      have h := ih (run d ((writeFile true base k0 ch0).take k))
        (k - (writeFile true base k0 ch0).length) hgood.tail hin
      rw [get_take_writeFile_frame true base k0 ch0 d k _ hf.1 hf.2] at h
      exact h

/-- after the complete run every note holds its new text -/
theorem complete_run_writes_all (base : String) (d : Disk) (store : List (String × List String))
    (hgood : GoodStore base store) (key : String) (chunks : List String) (hmem : (key, chunks) ∈ store) :
    get (run d (writeStore true base store)) (notePath base key) = some (String.join chunks) := by
  induction store generalizing d with
  | nil => cases hmem
  | cons e rest ih =>
    obtain ⟨k0, ch0⟩ := e
    simp only [writeStore, run_append]
    rcases List.mem_cons.1 hmem with heq | hin
    · obtain ⟨rfl, rfl⟩ := Prod.mk.inj heq
      rw [get_run_writeStore_frame true base rest _ _ (fun e he => (hgood.head_frame e he).1)]
      exact get_run_writeFile_note base key chunks d
    · exact ih _ hgood.tail hin

/-- **nothing else is touched**: a path that is neither a note of the export nor one of their temp
files has the same content (or absence) at every crash point and at the end -/
theorem touches_only_notes (base : String) (d : Disk) (store : List (String × List String)) (k : Nat)
    (atomic : Bool) (p : Path)
    (hp : ∀ e ∈ store, p ≠ notePath base e.1 ∧ p ≠ tmpPath base e.1) :
    get (crashAfter d (writeStore atomic base store) k) p = get d p :=
  get_take_writeStore_frame atomic base store d k p hp

/-- **no temp file is left behind by a complete run** (they were not there before) -/
theorem no_temp_left (base : String) (d : Disk) (store : List (String × List String))
    (hgood : GoodStore base store) (key : String) (chunks : List String) (hmem : (key, chunks) ∈ store)
    (hnone : get d (tmpPath base key) = none) :
    get (run d (writeStore true base store)) (tmpPath base key) = none := by
  induction store generalizing d with
  | nil => cases hmem
  | cons e rest ih =>
    obtain ⟨k0, ch0⟩ := e
    simp only [writeStore, run_append]
    rcases List.mem_cons.1 hmem with heq | hin
    · obtain ⟨rfl, rfl⟩ := Prod.mk.inj heq
      rw [get_run_writeStore_frame true base rest _ _ (fun e he => (hgood.head_frame e he).2)]
      exact get_run_writeFile_tmp base key chunks d hgood.head_ne
    · have hf := (hgood.tail_frame hin).2
      refine ih _ hgood.tail hin ?_
      rw [get_run_writeFile_frame true base k0 ch0 d _ hf.1 hf.2]
      exact hnone

/-- **the unrepaired code is not crash safe** (finding D7): `fs::write` truncates first; dying after
the first system call leaves an empty note -/
theorem exists_truncated :
    get (crashAfter [("lib/a.md", "old text")] (writeStore false "lib" [("a", ["new ", "text"])]) 1) "lib/a.md" = some ""
    ∧ get (crashAfter [("lib/a.md", "old text")] (writeStore false "lib" [("a", ["new ", "text"])]) 2) "lib/a.md" = some "new " := by
  decide

/-- **an error return is as safe as a crash**: when a system call of `write_file` fails (disk full, quota,
I/O error) the error branch runs; afterwards the note still holds its complete old text — the failing call
being the open of the temporary file, any of its writes, or the rename -/
theorem failed_write_keeps_note (base key : String) (chunks : List String) (d : Disk) (k : Nat)
    (hne : tmpPath base key ≠ notePath base key) (hk : k ≤ chunks.length + 1) :
    get (run d (writeFileFailing base key chunks k)) (notePath base key) = get d (notePath base key) := by
  unfold writeFileFailing
  by_cases hk' : k ≤ chunks.length
  · simp only [if_pos hk']
    rw [run_append, run_cons, run_nil]
    simp only [apply]
    rw [get_del, if_neg (fun e => hne e.symm)]
    exact get_take_writeFile_note_old base key chunks d k hne hk
  · simp only [if_neg hk']
    exact get_take_writeFile_note_old base key chunks d k hne hk

/-- … and a failed write leaves no temporary file behind (a failed rename does: `k = chunks.length + 1`) -/
theorem failed_write_removes_temp (base key : String) (chunks : List String) (d : Disk) (k : Nat)
    (hk : k ≤ chunks.length) :
    get (run d (writeFileFailing base key chunks k)) (tmpPath base key) = none := by
  unfold writeFileFailing
  simp only [if_pos hk]
  rw [run_append, run_cons, run_nil]
  simp only [apply]
  rw [get_del, if_pos rfl]

/-- the whole store with a failing note: every note is old or new, complete -/
theorem failed_store_old_or_new (base : String) (d : Disk) (store : List (String × List String)) (i k : Nat)
    (hgood : GoodStore base store) (key : String) (chunks : List String) (hmem : (key, chunks) ∈ store) :
    get (run d (writeStoreFailing base store i k)) (notePath base key) = get d (notePath base key)
    ∨ get (run d (writeStoreFailing base store i k)) (notePath base key) = some (String.join chunks) := by
  induction store generalizing d i with
  | nil => cases hmem
  | cons e rest ih =>
    obtain ⟨k0, ch0⟩ := e
    cases i with
    | zero =>
      simp only [writeStoreFailing]
      rcases List.mem_cons.1 hmem with heq | hin
      · obtain ⟨rfl, rfl⟩ := Prod.mk.inj heq
        by_cases hk : k ≤ chunks.length + 1
        · exact Or.inl (failed_write_keeps_note base key chunks d k hgood.head_ne hk)
        · right
          rw [writeFileFailing_of_length_lt base key chunks k (by omega)]
          exact get_run_writeFile_note base key chunks d
      · have hf := (hgood.tail_frame hin).1
        exact Or.inl (get_run_writeFileFailing_frame base k0 ch0 d k _ hf.1 hf.2)
    | succ i =>
      simp only [writeStoreFailing, run_append]
      rcases List.mem_cons.1 hmem with heq | hin
      · obtain ⟨rfl, rfl⟩ := Prod.mk.inj heq
        right
        have hfr : get (run (run d (writeFile true base key chunks)) (writeStoreFailing base rest i k))
            (notePath base key) = get (run d (writeFile true base key chunks)) (notePath base key) :=
          get_run_writeStoreFailing_frame base rest i k _ _ (fun e he => (hgood.head_frame e he).1)
        rw [hfr]
        exact get_run_writeFile_note base key chunks d
      · have hf := (hgood.tail_frame hin).1
        have h := ih (run d (writeFile true base k0 ch0)) i hgood.tail hin
        rw [get_run_writeFile_frame true base k0 ch0 d _ hf.1 hf.2] at h
        exact h

/-- what the error branch must *not* do (seeded change C19: fall back to writing the note in place when the
temporary file cannot be written): with the disk still full the in-place write truncates the note -/
theorem fallback_in_place_truncates :
    get (run [("lib/a.md", "old text")]
      ([Step.openTrunc "lib/a.md.tmp", Step.unlink "lib/a.md.tmp"] ++ [Step.openTrunc "lib/a.md"])) "lib/a.md" = some "" := by
  decide

/-- non-vacuity for the error branch: each of the 4 failure points of a two-chunk write keeps the old text,
the 5th (`k` past the end) is the complete write -/
example :
    (List.range 4).all (fun k =>
      get (run [("lib/a.md", "old text")] (writeFileFailing "lib" "a" ["new ", "text"] k)) "lib/a.md" == some "old text") = true
    ∧ get (run [("lib/a.md", "old text")] (writeFileFailing "lib" "a" ["new ", "text"] 4)) "lib/a.md" = some "new text" := by
  decide

/-- non-vacuity for the repaired code: at every one of the 5 crash points of a two-chunk write the
note is old or new -/
example :
    (List.range 6).all (fun k =>
      let r := get (crashAfter [("lib/a.md", "old text")] (writeStore true "lib" [("a", ["new ", "text"])]) k) "lib/a.md"
      r == some "old text" || r == some "new text") = true := by
  decide

end Iwe.C19
