/-
C11 — no edit notification is lost, whatever requests are in flight.
Invariant over *all* schedules of the router machine (`Model/Router.lean`), any number of
requests and notifications, any interleaving of the loop with the workers' pause points.
With the repair (`waitForWorkers = true`) nothing is ever dropped; for the unrepaired code a
three-action schedule that loses a notification is exhibited.
Helper lemmas live in `IweModel/Lemmas/Router.lean`.
-/
import IweModel.Lemmas.Router

namespace Iwe.C11
open Iwe Iwe.Router

def fixed : Config := ⟨true, true⟩
def original : Config := ⟨false, false⟩

/-- **no notification is ever dropped**, for every schedule -/
theorem no_notification_dropped (acts : List Act) (cp : Bool) :
    (run ⟨true, cp⟩ acts).dropped = [] := by
  obtain ⟨c, _, hi, _⟩ := reach_run ⟨true, cp⟩ acts
  exact hi.drop rfl

/-- **applied prefix = received prefix**: at every moment the server state is exactly the result of
applying, in order, the notifications the loop has consumed so far, and the unconsumed messages are
still queued in order: consumed ++ inbox = everything sent -/
theorem applied_prefix_invariant (acts : List Act) (cp : Bool) :
    ∃ consumed, consumed ++ (run ⟨true, cp⟩ acts).inbox = sent acts
      ∧ (run ⟨true, cp⟩ acts).texts = applyNotifs [] consumed := by
  obtain ⟨c, e, hi, _⟩ := reach_run ⟨true, cp⟩ acts
  exact ⟨c, e, hi.txt rfl⟩

/-- **once the server is idle, every note's state is the last text sent for it** -/
theorem idle_state_is_last_sent (acts : List Act) (cp : Bool)
    (hq : quiescent (run ⟨true, cp⟩ acts) = true) :
    (run ⟨true, cp⟩ acts).texts = applyNotifs [] (sent acts) := by
  obtain ⟨c, e, hi, _⟩ := reach_run ⟨true, cp⟩ acts
  have hin : (run ⟨true, cp⟩ acts).inbox = [] := by
    simp only [quiescent, Bool.and_eq_true, List.isEmpty_iff] at hq
    exact hq.1
  rw [hin, List.append_nil] at e
  rw [← e]
  exact hi.txt rfl

/-- **any request issued after a notification is answered from a state that includes it** — and
exactly the notifications sent before it: a successful reply to request `id` carries the version
its note has after the notifications sent before `id` (request ids distinct) -/
theorem answers_include_prior_notifications (acts : List Act) (cp : Bool) (id ver note : Nat) (oc : Outcome)
    (hids : (reqIds (sent acts)).Nodup)
    (hreq : Msg.req id note oc ∈ sent acts)
    (hrep : (id, Reply.result ver) ∈ (run ⟨true, cp⟩ acts).outbox) :
    ver = version (applyNotifs [] (before id (sent acts))) note := by
  obtain ⟨c, e, _, hn⟩ := reach_run ⟨true, cp⟩ acts
  obtain ⟨n, o, hm, hv⟩ := (hn hids).rep rfl id ver hrep
  have hm' : Msg.req id n o ∈ sent acts := e ▸ List.mem_append_left _ hm
  obtain ⟨e1, _⟩ := req_unique hids hm' hreq
  rw [← e, before_append_of_mem _ (mem_reqIds_of_mem hm), ← e1]
  exact hv

/-- **progress**: the wait for the workers cannot deadlock — whenever the machine is not idle some
worker can advance (the loop only ever waits for workers, and workers never wait) -/
theorem progress (acts : List Act) (cp : Bool) (hn : quiescent (run ⟨true, cp⟩ acts) = false) :
    (run ⟨true, cp⟩ acts).workers ≠ [] := by
  intro hw
  have hin := run_settled _ acts hw
  simp [quiescent, hw, hin] at hn

/-- …and every advance makes progress: the total number of remaining pause points strictly decreases.

Statement change: the hypothesis `hph : w.phase ≤ 2` was added.  Without it the statement is false
for an (unreachable) worker record with `phase ≥ 3`: it counts `3 - phase = 0` remaining pause
points, the advance only removes it, and the sum stays the same (counterexample below).  Every
worker of a reachable state has `phase ≤ 2` (`reachable_workers_wf`), so nothing is lost on
reachable states: `advance_decreases_reachable` is the original statement for them. -/
theorem advance_decreases (cfg : Config) (st : St) (w : Worker) (hw : w ∈ st.workers)
    (hids : (st.workers.map (·.id)).Nodup) (hph : w.phase ≤ 2) :
    ((advanceWorker cfg st w.id).workers.map fun x => 3 - x.phase).sum
      < (st.workers.map fun x => 3 - x.phase).sum := by
  have hu : ∀ x ∈ st.workers, x.id = w.id → x = w := fun x hx e => worker_unique hids hx hw e
  apply advanceWorker_elim (P := fun s =>
    (s.workers.map fun x => 3 - x.phase).sum < (st.workers.map fun x => 3 - x.phase).sum)
  · intro h; exact absurd rfl (h w hw)
  · intro w' hw' hid hp _ _
    have := sum_filter_add_le (fun x => 3 - x.phase) (fun x => !(x.id == w.id)) st.workers hw (by simp)
    have e := hu w' hw' hid
    subst e
    simp only [hp] at this ⊢
    omega
  · intro w' hw' hid hp _ _
    have := sum_filter_add_le (fun x => 3 - x.phase) (fun x => !(x.id == w.id)) st.workers hw (by simp)
    have e := hu w' hw' hid
    subst e
    simp only [hp] at this ⊢
    omega
  · intro w' hw' hid hp _
    have e := hu w' hw' hid
    subst e
    apply sum_map_upd_lt (fun x => 3 - x.phase) _ st.workers _ hw
    · simp [hp]
    · intro x hx
      by_cases hx' : x.id = w'.id
      · rw [hu x hx hx']; simp [hp]
      · simp [hx']
  · intro w' hw' hid hp
    have e := hu w' hw' hid
    subst e
    apply sum_map_upd_lt (fun x => 3 - x.phase) _ st.workers _ hw
    · simp [hp]
    · intro x hx
      by_cases hx' : x.id = w'.id
      · rw [hu x hx hx']; simp [hp]
      · simp [hx']
  · intro w' hw' hid hp
    have := sum_filter_add_le (fun x => 3 - x.phase) (fun x => !(x.id == w.id)) st.workers hw (by simp)
    have e := hu w' hw' hid
    subst e
    have : 3 - w'.phase = 1 := by omega
    simp only [] at *
    omega

/-- counterexample to `advance_decreases` without `hph`: a worker record in "phase 3" -/
example :
    let st : St := { workers := [⟨1, 0, .ok, 3, 0⟩] }
    let w : Worker := ⟨1, 0, .ok, 3, 0⟩
    w ∈ st.workers ∧ (st.workers.map (·.id)).Nodup ∧
      ¬ ((advanceWorker fixed st w.id).workers.map fun x => 3 - x.phase).sum
          < (st.workers.map fun x => 3 - x.phase).sum := by
  decide

/-- the hypotheses of `advance_decreases` hold in every reachable state: worker ids are distinct
(request ids distinct) and every worker is at one of the pause points 0, 1, 2 -/
theorem reachable_workers_wf (cfg : Config) (acts : List Act) (hids : (reqIds (sent acts)).Nodup) :
    ((run cfg acts).workers.map (·.id)).Nodup ∧ ∀ w ∈ (run cfg acts).workers, w.phase ≤ 2 := by
  obtain ⟨c, _, hi, hn⟩ := reach_run cfg acts
  exact ⟨(hn hids).wnd, hi.wphase⟩

/-- `advance_decreases` as originally stated, for the states the machine can reach -/
theorem advance_decreases_reachable (cfg : Config) (acts : List Act) (hids : (reqIds (sent acts)).Nodup)
    (w : Worker) (hw : w ∈ (run cfg acts).workers) :
    ((advanceWorker cfg (run cfg acts) w.id).workers.map fun x => 3 - x.phase).sum
      < ((run cfg acts).workers.map fun x => 3 - x.phase).sum :=
  have h := reachable_workers_wf cfg acts hids
  advance_decreases cfg _ w hw h.1 (h.2 w hw)

/-- **the unrepaired code loses notifications**: request 1 is still alive when the `didChange`
arrives; `Arc::get_mut` fails, the panic is caught, the notification is gone (finding D6) -/
theorem exists_lost_notification :
    (run original [.send (.req 1 0 .ok), .send (.notif 0 7), .advance 1, .advance 1, .advance 1]).dropped = [(0, 7)]
    ∧ version (run original [.send (.req 1 0 .ok), .send (.notif 0 7), .advance 1, .advance 1, .advance 1]).texts 0 = 0 := by
  decide

/-- non-vacuity for the repaired machine: same schedule, nothing dropped, final version 7, and a
request sent after the notification sees it -/
example :
    let s := run fixed [.send (.req 1 0 .ok), .send (.notif 0 7), .send (.req 2 0 .ok), .advance 1, .advance 1, .advance 1,
                        .advance 2, .advance 2, .advance 2]
    s.dropped = [] ∧ version s.texts 0 = 7 ∧ quiescent s = true
      ∧ s.outbox = [(1, .result 0), (2, .result 7)] := by
  decide

end Iwe.C11
