/-
C10 — list/section conversions keep content and undo each other (tree level).
The composition through text (section → list → text → parse → back) additionally needs the syntax
bridge and is checked on the implementation by the harness.
Helper lemmas live in `IweModel/Lemmas/TreeOps.lean`.
-/
import IweModel.Lemmas.TreeOps

namespace Iwe.C10
open Iwe

/-- **changing a list's type twice restores the note** -/
theorem changeListType_involutive (i : Nat) (t : Tree) :
    Tree.changeListType i (Tree.changeListType i t) = t :=
  Tree.changeListType_invol i t

set_option linter.unusedVariables false in
/-- **section → list → back**: unwrapping the list that `wrap_into_list` created restores the tree
(the new list node takes the id of the wrapped section; ids are otherwise unique; the target is not
the root; `huniq` turns out not to be needed, see `unwrap_wrap_any`) -/
theorem unwrap_wrap (i : Nat) (rid : Option Nat) (n : Node) (cs : List Tree)
    (hroot : rid ≠ some i) (huniq : Content.uniqueIds (.mk rid n cs)) :
    Tree.unwrapList i (Tree.wrapIntoList i (.mk rid n cs)) = .mk rid n cs :=
  Tree.unwrapList_wrapIntoList i (.mk rid n cs) hroot

/-- the same without the uniqueness hypothesis (it is not needed: the wrapper is un-wrapped at the
first parent on every path, the wrapped node itself is not entered) -/
theorem unwrap_wrap_any (i : Nat) (t : Tree) (hroot : t.id ≠ some i) :
    Tree.unwrapList i (Tree.wrapIntoList i t) = t :=
  Tree.unwrapList_wrapIntoList i t hroot

/-- the side condition `hroot` is needed: wrapping the root and un-wrapping loses the root node -/
theorem unwrap_wrap_root_counterexample :
    let t : Tree := .mk (some 1) (.sect [.str "A"]) [.mk (some 2) (.leaf [.str "p"]) []]
    ((Content.ofTree (Tree.unwrapList 1 (Tree.wrapIntoList 1 t))).length == (Content.ofTree t).length) = false := by
  decide

/-- **every word, link and nested block is kept, in order** by the three conversions.
`unwrap_list` drops the node it is given whatever its kind (its children take its place), so for
it the statement needs: the node found under id `i` is a list (what the scope selection
`topLevelList_contains_target` guarantees) and ids are unique; see
`unwrap_non_list_counterexample`. -/
theorem conversions_conserve_content (i : Nat) (t : Tree) :
    Content.ofTree (Tree.changeListType i t) = Content.ofTree t
    ∧ Content.ofTree (Tree.wrapIntoList i t) = Content.ofTree t
    ∧ (Content.uniqueIds t → (∀ lt, Tree.find i t = some lt → lt.node.isList = true) →
        Content.ofTree (Tree.unwrapList i t) = Content.ofTree t) := by
  refine ⟨Tree.ofTree_changeListType i t, Tree.ofTree_wrapIntoList i t, ?_⟩
  intro huniq hlist
  obtain ⟨id, n, cs⟩ := t
  apply Tree.ofTree_unwrapList
  have hn : (Tree.idsL cs).Nodup := by
    have h := huniq
    simp only [Content.uniqueIds, Tree.ids] at h
    exact (List.nodup_append.mp h).2.1
  by_cases hid : id = some i
  · have hnot : i ∉ Tree.idsL cs := by
      have h := huniq
      simp only [Content.uniqueIds, Tree.ids] at h
      intro hm
      exact (List.nodup_append.mp h).2.2 i (by simp [hid]) i hm rfl
    exact Tree.idIsListL_of_not_mem i cs hnot
  · apply Tree.idIsListL_of_find i cs hn
    intro lt h
    exact hlist lt (by simp [Tree.find, hid, h])

/-- the original third conjunct `Content.ofTree (unwrapList i t) = Content.ofTree t` without side
condition is false: un-wrapping a section loses its heading -/
theorem unwrap_non_list_counterexample :
    let t : Tree := .mk (some 0) (.document "k") [.mk (some 1) (.sect [.str "A"]) []]
    ((Content.ofTree (Tree.unwrapList 1 t)).length == (Content.ofTree t).length) = false := by
  decide

/-- **only the targeted section or list is rewritten**: a tree that does not contain the target
is returned unchanged -/
theorem only_target_rewritten (i : Nat) (t : Tree) (h : Tree.contains i t = false) :
    Tree.changeListType i t = t ∧ Tree.wrapIntoList i t = t ∧ Tree.unwrapList i t = t :=
  ⟨Tree.changeListType_frame i t h, Tree.wrapIntoList_frame i t h, Tree.unwrapList_frame i t h⟩

/-- the node count changes by exactly the one list node added / removed -/
theorem wrap_adds_one_node (i : Nat) (t : Tree) (huniq : Content.uniqueIds t) (h : Tree.contains i t = true) :
    Tree.size (Tree.wrapIntoList i t) = Tree.size t + 1 :=
  Tree.size_wrapIntoList i t huniq h

/-- `huniq` is needed in `wrap_adds_one_node`: with a duplicated id both nodes are wrapped -/
theorem wrap_adds_one_node_counterexample :
    let t : Tree := .mk (some 0) (.document "k") [.mk (some 1) (.sect [.str "A"]) [], .mk (some 1) (.sect [.str "B"]) []]
    (Tree.contains 1 t && Tree.size (Tree.wrapIntoList 1 t) == Tree.size t + 2) = true := by
  decide

/-- scope selection of "change list type": the returned node is a list and is the direct parent of
the target (ids unique: `find` returns the first node with the id, see the counterexample below) -/
theorem surroundingList_is_parent_list (i l : Nat) (t : Tree) (huniq : Content.uniqueIds t)
    (h : Tree.surroundingListId i t = some l) :
    ∃ lt, Tree.find l t = some lt ∧ lt.node.isList = true ∧ Tree.anyIdEq i lt.children = true :=
  Tree.surroundingListId_spec i l t huniq h

/-- without unique ids `find` may return another node than the list that was selected -/
theorem surroundingList_is_parent_list_counterexample :
    let t : Tree := .mk (some 0) (.document "k")
      [.mk (some 5) (.leaf [.str "p"]) [], .mk (some 5) .blist [.mk (some 1) (.leaf [.str "q"]) []]]
    (Tree.surroundingListId 1 t == some 5
      && (match Tree.find 5 t with | some lt => lt.node.isList | none => true) == false) = true := by
  decide

/-- scope selection of "list to sections": the returned node is a list that contains the target
(ids unique, as for `surroundingList_is_parent_list`) -/
theorem topLevelList_contains_target (i l : Nat) (t : Tree) (huniq : Content.uniqueIds t)
    (h : Tree.topLevelSurroundingListId i t = some l) :
    ∃ lt, Tree.find l t = some lt ∧ lt.node.isList = true ∧ Tree.contains i lt = true :=
  Tree.topLevelSurroundingListId_spec i l t huniq h

/-- without unique ids `find` may return another node than the list that was selected -/
theorem topLevelList_contains_target_counterexample :
    let t : Tree := .mk (some 0) (.document "k")
      [.mk (some 5) (.leaf [.str "p"]) [], .mk (some 5) .blist [.mk (some 1) (.leaf [.str "q"]) []]]
    (Tree.topLevelSurroundingListId 1 t == some 5
      && (match Tree.find 5 t with | some lt => lt.node.isList | none => true) == false) = true := by
  decide

/-- "list to sections" conserves content: the scope selection composed with `unwrap_list` -/
theorem list_to_sections_conserves_content (i l : Nat) (t : Tree) (huniq : Content.uniqueIds t)
    (h : Tree.topLevelSurroundingListId i t = some l) :
    Content.ofTree (Tree.unwrapList l t) = Content.ofTree t := by
  obtain ⟨lt, h1, h2, _⟩ := topLevelList_contains_target i l t huniq h
  refine (conversions_conserve_content l t).2.2 huniq ?_
  intro lt' h'
  rw [h1] at h'
  cases h'
  exact h2

/-- non-vacuity: a section with a paragraph inside a note, wrapped and unwrapped (kernel-evaluated) -/
example :
    let t : Tree := .mk (some 0) (.document "k") [.mk (some 1) (.sect [.str "A"]) [.mk (some 2) (.leaf [.str "p"]) []],
                                                   .mk (some 3) (.sect [.str "B"]) []]
    (Tree.ids (Tree.unwrapList 1 (Tree.wrapIntoList 1 t)) == Tree.ids t
      && Tree.size (Tree.wrapIntoList 1 t) == 5) = true := by
  decide

end Iwe.C10
