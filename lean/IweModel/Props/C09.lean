/-
C09 — extract and inline refactorings move content without losing or duplicating it (tree level).
Helper lemmas live in `IweModel/Lemmas/TreeOps.lean`.
-/
import IweModel.Lemmas.TreeOps

namespace Iwe.C09
open Iwe Actions

/-- **extract section conserves content**: the source after extraction together with the
extracted subtree holds exactly the source's content plus the one new reference (as multisets:
the reference is placed before the first sub-section of the parent, not where the section was) -/
theorem extract_conservation (t sub : Tree) (extractId parentId : Nat) (newKey : String)
    (huniq : Content.uniqueIds t)
    (hparent : ∃ pt, Tree.find parentId t = some pt ∧ Tree.findL extractId pt.children = some sub
                     ∧ Tree.anyIdEq extractId pt.children = true) :
    (Content.ofTree (extractRec extractId parentId newKey t) ++ Content.ofTree sub).Perm
      (Node.ref newKey (nodePlainText sub.node) .regular :: Content.ofTree t) := by
  obtain ⟨pt, hp, hs, ha⟩ := hparent
  have h := Tree.meas_extractRec Tree.contentF extractId parentId newKey pt sub t huniq hp hs ha
  rw [Tree.ofTree_eq_meas, Tree.ofTree_eq_meas, Tree.ofTree_eq_meas]
  simpa [Tree.contentF, Content.isContainerOnly] using h

/-- exactly one reference is left in the source, titled with the extracted section's heading text -/
theorem extract_leaves_one_reference (t sub : Tree) (extractId parentId : Nat) (newKey : String)
    (huniq : Content.uniqueIds t)
    (hparent : ∃ pt, Tree.find parentId t = some pt ∧ Tree.findL extractId pt.children = some sub
                     ∧ Tree.anyIdEq extractId pt.children = true)
    (hfresh : newKey ∉ Content.refKeys t) :
    (Content.refKeys (extractRec extractId parentId newKey t)).count newKey = 1 := by
  obtain ⟨pt, hp, hs, ha⟩ := hparent
  have h := Tree.meas_extractRec Tree.refKeysF extractId parentId newKey pt sub t huniq hp hs ha
  rw [← Tree.refKeys_eq_meas, ← Tree.refKeys_eq_meas, ← Tree.refKeys_eq_meas] at h
  have hsub : newKey ∉ Content.refKeys sub := by
    intro hm
    apply hfresh
    rw [Tree.refKeys_eq_meas] at hm ⊢
    apply Tree.meas_find_subset Tree.refKeysF parentId pt t hp
    obtain ⟨pid, pn, pcs⟩ := pt
    simp only [Tree.meas, List.mem_append]
    exact .inr (Tree.measL_findL_subset Tree.refKeysF extractId sub pcs hs newKey hm)
  have hc := h.count_eq newKey
  simp only [List.count_append, Tree.refKeysF, List.count_eq_zero_of_not_mem hsub,
    List.count_eq_zero_of_not_mem hfresh] at hc
  simpa using hc

/-- everything outside the parent section is untouched -/
theorem extract_frame (t : Tree) (extractId parentId : Nat) (newKey : String)
    (h : Tree.contains parentId t = false) :
    extractRec extractId parentId newKey t = t :=
  Tree.extractRec_frame extractId parentId newKey t h

/-- **headings of the new note are promoted to top level**: the extracted subtree is rendered as a
note of its own starting at level 1, whatever its depth was -/
theorem extract_promotes (dir : String) (id : Option Nat) (xs : Inlines) (cs : List Tree) :
    Project.project dir (.mk id (.sect xs) cs) = .header 1 xs :: Project.forest dir 1 cs := by
  simp [Project.project, Project.tree]

/-- **inline as section conserves content**: the reference is removed and exactly the referenced
note's content is put into the section that held it -/
theorem inline_section_conservation (t inlined : Tree) (target sectionId : Nat) (k text : String) (ty : LinkType)
    (huniq : Content.uniqueIds t)
    (hsec : ∃ st, Tree.find sectionId t = some st ∧ Tree.anyIdEq target st.children = true)
    (href : ∃ rt, Tree.find target t = some rt ∧ rt.node = .ref k text ty ∧ rt.children = []) :
    (Node.ref k text ty :: Content.ofTree (Tree.appendPreHeader sectionId inlined (Tree.removeNode target t))).Perm
      (Content.ofTree t ++ Content.ofTree inlined) := by
  obtain ⟨st, hst, hany⟩ := hsec
  obtain ⟨rt, hrt, hnode, hch⟩ := href
  have hrid : rt.id = some target := Tree.find_id target t rt hrt
  -- the target is not the root and is not the section
  have hroot : t.id ≠ some target := by
    intro he
    obtain ⟨id, n, cs⟩ := t
    have he' : id = some target := he
    have : Tree.mk id n cs = rt := by simpa [Tree.find, he'] using hrt
    subst this
    simp only [Tree.children_mk] at hch
    subst hch
    by_cases hs : id = some sectionId
    · have : Tree.mk id n [] = st := by simpa [Tree.find, hs] using hst
      subst this
      simp [Tree.anyIdEq] at hany
    · simp [Tree.find, hs, Tree.findL] at hst
  have hne : sectionId ≠ target := by
    intro he
    subst he
    rw [hst] at hrt
    cases hrt
    rw [hch] at hany
    simp [Tree.anyIdEq] at hany
  -- removing the reference
  have hR := Tree.meas_removeNode Tree.contentF target rt t huniq hroot hrt hch
  have hRid := Tree.meas_removeNode Tree.idsF target rt t huniq hroot hrt hch
  rw [← Tree.ids_eq_meas, ← Tree.ids_eq_meas] at hRid
  have hn' : (Tree.ids (Tree.removeNode target t)).Nodup := by
    have : (Tree.idsF rt.id rt.node ++ Tree.ids (Tree.removeNode target t)).Nodup :=
      hRid.nodup_iff.mpr huniq
    exact (List.nodup_append.mp this).2.1
  have hmem : sectionId ∈ Tree.ids (Tree.removeNode target t) := by
    have h1 : sectionId ∈ Tree.ids t := Tree.find_some_mem hst
    have h2 := hRid.symm.subset h1
    simp only [Tree.idsF, hrid, List.mem_append, List.mem_singleton] at h2
    rcases h2 with h2 | h2
    · exact absurd h2 hne
    · exact h2
  -- inserting the note
  have hP := Tree.meas_appendPreHeader Tree.contentF sectionId inlined (Tree.removeNode target t) hn'
    ((Tree.contains_iff _ _).mpr hmem)
  rw [Tree.ofTree_eq_meas, Tree.ofTree_eq_meas, Tree.ofTree_eq_meas]
  have hf : Tree.contentF rt.id rt.node = [Node.ref k text ty] := by
    simp [Tree.contentF, hnode, Content.isContainerOnly]
  rw [hf] at hR
  have hgoal : ([Node.ref k text ty] ++ Tree.meas Tree.contentF
      (Tree.appendPreHeader sectionId inlined (Tree.removeNode target t))).Perm
      (Tree.meas Tree.contentF t ++ Tree.meas Tree.contentF inlined) := by
    perm_count [hR, hP]
  simpa using hgoal

/-- **inline as quote conserves content**: the reference is replaced by a quote holding the note's blocks -/
theorem inline_quote_conservation (t inlined : Tree) (target : Nat) (k text : String) (ty : LinkType)
    (huniq : Content.uniqueIds t)
    (href : ∃ rt, Tree.find target t = some rt ∧ rt.node = .ref k text ty ∧ rt.children = []) :
    (Node.ref k text ty :: Content.ofTree (Tree.replace target (.mk none .quote inlined.children) t)).Perm
      (Node.quote :: (Content.ofTree t ++ Content.ofForest inlined.children)) := by
  obtain ⟨rt, hrt, hnode, hch⟩ := href
  have hR := Tree.meas_replace Tree.contentF target (.mk none .quote inlined.children) rt t huniq hrt hch
  have hf : Tree.contentF rt.id rt.node = [Node.ref k text ty] := by
    simp [Tree.contentF, hnode, Content.isContainerOnly]
  rw [hf] at hR
  rw [Tree.ofTree_eq_meas, Tree.ofTree_eq_meas, Tree.ofForest_eq_measL]
  have h2 : (Node.ref k text ty :: Tree.meas Tree.contentF
      (Tree.replace target (Tree.mk none Node.quote inlined.children) t)).Perm
      (Node.quote :: (Tree.measL Tree.contentF inlined.children ++ Tree.meas Tree.contentF t)) := by
    simpa [Tree.meas, Tree.contentF, Content.isContainerOnly] using hR
  exact h2.trans (List.Perm.cons _ List.perm_append_comm)

/-- **extracting the first sub-section and inlining it again restores the (formatted) original**:
with `pre` the blocks before the first sub-section `s`, the section after extract-then-inline holds
`pre ++ [document[s]] ++ rest`, which is projected exactly like `pre ++ [s] ++ rest` -/
theorem extract_inline_restores (dir key : String) (lvl : Nat) (pid did : Option Nat) (xs : Inlines)
    (pre rest : List Tree) (s : Tree) :
    Project.tree dir lvl (.mk pid (.sect xs) (pre ++ [.mk did (.document key) [s]] ++ rest))
      = Project.tree dir lvl (.mk pid (.sect xs) (pre ++ [s] ++ rest)) := by
  have happ : ∀ (l : Nat) (a b : List Tree),
      Project.forest dir l (a ++ b) = Project.forest dir l a ++ Project.forest dir l b := by
    intro l a b
    induction a with
    | nil => simp [Project.forest]
    | cons x xs ih => simp [Project.forest, ih]
  simp [Project.tree, happ, Project.forest]

set_option linter.unusedVariables false in
/-- the shape used by `extract_inline_restores` is what the two tree operations produce: removing
the reference that `extract_rec` put before the first sub-section and inserting the collected note
there again (this statement: the extract half; `inline_after_extract_shape`: the inline half).
`huniq` was added: the title of the reference is taken from the first node with id `e` in
pre-order, which may sit *inside* `pre` unless ids are unique
(`extract_then_inline_shape_counterexample`) -/
theorem extract_then_inline_shape (pid : Option Nat) (p : Nat) (xs : Inlines) (pre rest : List Tree) (s inl : Tree)
    (e : Nat) (newKey : String)
    (hp : pid = some p) (hs : s.id = some e) (hsec : s.isSection = true)
    (huniq : Content.uniqueIds (.mk pid (.sect xs) (pre ++ [s] ++ rest)))
    (hpre : ∀ c ∈ pre, c.isSection = false ∧ c.idEq e = false ∧ c.id ≠ none)
    (hrest : ∀ c ∈ rest, c.idEq e = false ∧ c.id ≠ none) :
    extractRec e p newKey (.mk pid (.sect xs) (pre ++ [s] ++ rest))
      = .mk pid (.sect xs) (pre ++ [.mk none (.ref newKey (nodePlainText s.node) .regular) []] ++ rest) := by
  subst hp
  have hse : s.idEq e = true := (Tree.idEq_iff s e).mpr hs
  -- the nodes before `s` do not contain `e` anywhere (ids are unique)
  have hn : (Tree.idsL pre ++ (Tree.ids s ++ Tree.idsL rest)).Nodup := by
    have h := huniq
    simp only [Content.uniqueIds, Tree.ids, Tree.idsL_append, Tree.idsL, List.append_nil,
      List.append_assoc] at h
    exact (List.nodup_append.mp h).2.1
  have hes : e ∈ Tree.ids s := Tree.find_some_mem (Tree.find_self_of_idEq hse)
  have hpre_not : e ∉ Tree.idsL pre := by
    intro hm
    exact (List.nodup_append.mp hn).2.2 e hm e (List.mem_append_left _ hes) rfl
  -- title
  have hfind : Tree.findL e (pre ++ [s] ++ rest) = some s := by
    have hgen : ∀ (a b : List Tree), e ∉ Tree.idsL a → Tree.findL e (a ++ b) = Tree.findL e b := by
      intro a b
      induction a with
      | nil => intro _; rfl
      | cons x xs ih =>
        intro h
        simp only [Tree.idsL, List.mem_append, not_or] at h
        simp [Tree.findL, Tree.find_none_of_not_mem h.1, ih h.2]
    rw [List.append_assoc, hgen _ _ hpre_not]
    simp [Tree.findL, Tree.find_self_of_idEq hse]
  -- the kept children
  have hkept : (pre ++ [s] ++ rest).filter (fun c => !c.idEq e) = pre ++ rest := by
    have h1 : pre.filter (fun c => !c.idEq e) = pre := by
      rw [List.filter_eq_self]; intro c hc; simp [(hpre c hc).2.1]
    have h2 : rest.filter (fun c => !c.idEq e) = rest := by
      rw [List.filter_eq_self]; intro c hc; simp [(hrest c hc).1]
    simp [List.filter_append, h1, h2, hse]
  -- the position
  have hpos : Tree.preSubHeaderPosition (pre ++ [s] ++ rest) = pre.length := by
    unfold Tree.preSubHeaderPosition
    rw [List.append_assoc, List.takeWhile_append_of_pos]
    · simp [hsec]
    · intro c hc; simp [(hpre c hc).1]
  simp only [extractRec, beq_self_eq_true, if_true, hfind, hkept, hpos, Tree.insertAt]
  simp

/-- the inline half of the shape used by `extract_inline_restores` (the statement above covers the
extract half): removing the reference `r` that sits before the first sub-section of section `p` and
inserting the collected note `inl` "pre-header" puts `inl` exactly where the reference was -/
theorem inline_after_extract_shape (p r : Nat) (xs : Inlines) (pre rest : List Tree) (inl : Tree)
    (k text : String) (ty : LinkType)
    (huniq : Content.uniqueIds (.mk (some p) (.sect xs) (pre ++ [.mk (some r) (.ref k text ty) []] ++ rest)))
    (hpre : ∀ c ∈ pre, c.isSection = false)
    (hrest : ∀ c, rest.head? = some c → c.isSection = true) :
    Tree.appendPreHeader p inl
        (Tree.removeNode r (.mk (some p) (.sect xs) (pre ++ [.mk (some r) (.ref k text ty) []] ++ rest)))
      = .mk (some p) (.sect xs) (pre ++ [inl] ++ rest) := by
  have h := huniq
  simp only [Content.uniqueIds, Tree.ids, Tree.idsL_append, Tree.idsL, List.append_nil,
    List.append_assoc, List.singleton_append] at h
  obtain ⟨hp_not, hn⟩ := List.nodup_cons.mp h
  have hdis := (List.nodup_append.mp hn).2.2
  have hn2 := List.nodup_cons.mp (List.nodup_append.mp hn).2.1
  have hr_pre : Tree.containsL r pre = false := by
    rw [Tree.containsL_false_iff]; intro hm; exact hdis r hm r (List.mem_cons_self) rfl
  have hr_rest : Tree.containsL r rest = false := by
    rw [Tree.containsL_false_iff]; exact hn2.1
  have hp_all : Tree.containsL p (pre ++ rest) = false := by
    rw [Tree.containsL_false_iff, Tree.idsL_append]
    intro hm
    apply hp_not
    rcases List.mem_append.mp hm with hm | hm
    · exact List.mem_append_left _ hm
    · exact List.mem_append_right _ (List.mem_cons_of_mem _ hm)
  have happ : ∀ (a b : List Tree), Tree.removeNodeL r (a ++ b) = Tree.removeNodeL r a ++ Tree.removeNodeL r b := by
    intro a b
    induction a with
    | nil => simp [Tree.removeNodeL]
    | cons x xs ih => simp only [List.cons_append, Tree.removeNodeL, ih]; split <;> simp
  have hrem : Tree.removeNodeL r (pre ++ [.mk (some r) (.ref k text ty) []] ++ rest) = pre ++ rest := by
    simp [happ, Tree.removeNodeL_frame r pre hr_pre, Tree.removeNodeL_frame r rest hr_rest, Tree.removeNodeL]
  have hpos : Tree.preSubHeaderPosition (pre ++ rest) = pre.length := by
    unfold Tree.preSubHeaderPosition
    rw [List.takeWhile_append_of_pos]
    · cases rest with
      | nil => simp
      | cons c cs => simp [List.takeWhile, hrest c rfl]
    · intro c hc; simp [hpre c hc]
  simp only [Tree.removeNode, hrem, Tree.appendPreHeader, beq_self_eq_true, if_true, Tree.insertAtMapped,
    Tree.appendPreHeaderL_frame p inl _ hp_all, hpos, Tree.insertAt]
  simp

/-- without a uniqueness hypothesis the original statement is false: a node *inside* `pre` with the
id of the extracted section gives the reference its title (`find` is a pre-order search) -/
theorem extract_then_inline_shape_counterexample :
    let pre : List Tree := [.mk (some 1) .blist [.mk (some 2) (.leaf [.str "X"]) []]]
    let s : Tree := .mk (some 2) (.sect [.str "S"]) []
    (match extractRec 2 0 "new" (.mk (some 0) (.sect [.str "A"]) (pre ++ [s] ++ [])) with
     | .mk _ _ [_, .mk _ (.ref _ title _) _] => title == "X"
     | _ => false) = true := by
  decide

/-- non-vacuity (kernel-evaluated): extract the first sub-section of `A` -/
example :
    let t : Tree := .mk (some 0) (.document "k") [.mk (some 1) (.sect [.str "A"])
      [.mk (some 2) (.leaf [.str "p"]) [], .mk (some 3) (.sect [.str "B"]) [.mk (some 4) (.leaf [.str "q"]) []]]]
    (Content.refKeys (extractRec 3 1 "new" t) == ["new"] && Tree.size (extractRec 3 1 "new" t) == 4) = true := by
  decide

end Iwe.C09
