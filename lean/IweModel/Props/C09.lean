/-
C09 — extract and inline refactorings move content without losing or duplicating it (tree level).
Helper lemmas live in `IweModel/Lemmas/TreeOps.lean`.
-/
import IweModel.Lemmas.TreeOps

namespace Iwe.C09
open Iwe Actions

/-- **extract section conserves content**: the source after extraction together with the
extracted subtree holds exactly the source's content plus the one new reference (as multisets:
the reference is placed before the first sub-section of the parent, not where the section was) -/
theorem extract_conservation (t sub : Tree) (extractId parentId : Nat) (newKey : String)
    (huniq : Content.uniqueIds t)
    (hparent : ∃ pt, Tree.find parentId t = some pt ∧ Tree.findL extractId pt.children = some sub
                     ∧ Tree.anyIdEq extractId pt.children = true) :
    (Content.ofTree (extractRec extractId parentId newKey t) ++ Content.ofTree sub).Perm
      (Node.ref newKey (nodePlainText sub.node) .regular :: Content.ofTree t) := by
  sorry

/-- exactly one reference is left in the source, titled with the extracted section's heading text -/
theorem extract_leaves_one_reference (t sub : Tree) (extractId parentId : Nat) (newKey : String)
    (huniq : Content.uniqueIds t)
    (hparent : ∃ pt, Tree.find parentId t = some pt ∧ Tree.findL extractId pt.children = some sub
                     ∧ Tree.anyIdEq extractId pt.children = true)
    (hfresh : newKey ∉ Content.refKeys t) :
    (Content.refKeys (extractRec extractId parentId newKey t)).count newKey = 1 := by
  sorry

/-- everything outside the parent section is untouched -/
theorem extract_frame (t : Tree) (extractId parentId : Nat) (newKey : String)
    (h : Tree.contains parentId t = false) :
    extractRec extractId parentId newKey t = t := by
  sorry

/-- **headings of the new note are promoted to top level**: the extracted subtree is rendered as a
note of its own starting at level 1, whatever its depth was -/
theorem extract_promotes (dir : String) (id : Option Nat) (xs : Inlines) (cs : List Tree) :
    Project.project dir (.mk id (.sect xs) cs) = .header 1 xs :: Project.forest dir 1 cs := by
  sorry

/-- **inline as section conserves content**: the reference is removed and exactly the referenced
note's content is put into the section that held it -/
theorem inline_section_conservation (t inlined : Tree) (target sectionId : Nat) (k text : String) (ty : LinkType)
    (huniq : Content.uniqueIds t)
    (hsec : ∃ st, Tree.find sectionId t = some st ∧ Tree.anyIdEq target st.children = true)
    (href : ∃ rt, Tree.find target t = some rt ∧ rt.node = .ref k text ty ∧ rt.children = []) :
    (Node.ref k text ty :: Content.ofTree (Tree.appendPreHeader sectionId inlined (Tree.removeNode target t))).Perm
      (Content.ofTree t ++ Content.ofTree inlined) := by
  sorry

/-- **inline as quote conserves content**: the reference is replaced by a quote holding the note's blocks -/
theorem inline_quote_conservation (t inlined : Tree) (target : Nat) (k text : String) (ty : LinkType)
    (huniq : Content.uniqueIds t)
    (href : ∃ rt, Tree.find target t = some rt ∧ rt.node = .ref k text ty ∧ rt.children = []) :
    (Node.ref k text ty :: Content.ofTree (Tree.replace target (.mk none .quote inlined.children) t)).Perm
      (Node.quote :: (Content.ofTree t ++ Content.ofForest inlined.children)) := by
  sorry

/-- **extracting the first sub-section and inlining it again restores the (formatted) original**:
with `pre` the blocks before the first sub-section `s`, the section after extract-then-inline holds
`pre ++ [document[s]] ++ rest`, which is projected exactly like `pre ++ [s] ++ rest` -/
theorem extract_inline_restores (dir key : String) (lvl : Nat) (pid did : Option Nat) (xs : Inlines)
    (pre rest : List Tree) (s : Tree) :
    Project.tree dir lvl (.mk pid (.sect xs) (pre ++ [.mk did (.document key) [s]] ++ rest))
      = Project.tree dir lvl (.mk pid (.sect xs) (pre ++ [s] ++ rest)) := by
  sorry

/-- the shape used by `extract_inline_restores` is what the two tree operations produce: removing
the reference that `extract_rec` put before the first sub-section and inserting the collected note
there again -/
theorem extract_then_inline_shape (pid : Option Nat) (p : Nat) (xs : Inlines) (pre rest : List Tree) (s inl : Tree)
    (e : Nat) (newKey : String)
    (hp : pid = some p) (hs : s.id = some e) (hsec : s.isSection = true)
    (hpre : ∀ c ∈ pre, c.isSection = false ∧ c.idEq e = false ∧ c.id ≠ none)
    (hrest : ∀ c ∈ rest, c.idEq e = false ∧ c.id ≠ none) :
    extractRec e p newKey (.mk pid (.sect xs) (pre ++ [s] ++ rest))
      = .mk pid (.sect xs) (pre ++ [.mk none (.ref newKey (nodePlainText s.node) .regular) []] ++ rest) := by
  sorry

/-- non-vacuity (kernel-evaluated): extract the first sub-section of `A` -/
example :
    let t : Tree := .mk (some 0) (.document "k") [.mk (some 1) (.sect [.str "A"])
      [.mk (some 2) (.leaf [.str "p"]) [], .mk (some 3) (.sect [.str "B"]) [.mk (some 4) (.leaf [.str "q"]) []]]]
    (Content.refKeys (extractRec 3 1 "new" t) == ["new"] && Tree.size (extractRec 3 1 "new" t) == 4) = true := by
  decide

end Iwe.C09
