/-
C15 — relative links written by iwe resolve back to the note they were written for.
Property theorems only; helper lemmas live in `IweModel/Lemmas/Path.lean`.
-/
import IweModel.Lemmas.Path
import IweModel.Model.Hints

namespace Iwe.Path

/-- a legal path component: non-empty, no separator, not `.` / `..` -/
def ValidName (s : Str) : Prop := s ≠ [] ∧ '/' ∉ s ∧ s ≠ ['.'] ∧ s ≠ ['.', '.']

instance (s : Str) : Decidable (ValidName s) := by unfold ValidName; infer_instance

/-- a normalised relative path given by its component names (a note key or a directory) -/
def NormalPath (cs : List Str) : Prop := ∀ s ∈ cs, ValidName s

instance (cs : List Str) : Decidable (NormalPath cs) := by unfold NormalPath; infer_instance

/-- the string of a path given by names: names joined with `/` -/
def renderNames (cs : List Str) : Str := render (cs.map Comp.normal)

/-- **C15, main statement.** For every note key `K` and every directory `D` (any depth, equal,
nested either way, siblings, disjoint), the link iwe writes for `K` from `D` resolves from `D`
back to exactly `K`.  `K` not ending in `.md` is the invariant of keys (every key goes through
`trim_end_matches(".md")`). -/
theorem resolve_relative (K D : List Str) (hK : NormalPath K) (hD : NormalPath D)
    (hmd : endsMd (renderNames K) = false) :
    fromRelLinkUrl (toRelLinkUrl (renderNames K) (renderNames D)) (renderNames D)
      = renderNames K := by
  exact resolve_relative_core K D hK hD hmd

/-- **completion items**: the link offered for note `K` to a note in directory `D` (`Key::to_completion`: the
title as text, `to_rel_link_url` as destination) resolves from `D` back to exactly `K`, for every key, every
directory and every library state — the offered link depends on the asking note only through its directory -/
theorem completion_link_resolves (g : Graph) (K D : List Str) (hK : NormalPath K) (hD : NormalPath D)
    (hmd : endsMd (renderNames K) = false) :
    (Completion.item g (String.ofList (renderNames D)) (String.ofList (renderNames K))).insertText
        = "[" ++ (g.title (String.ofList (renderNames K))).getD "" ++ "]("
            ++ keyToRel (String.ofList (renderNames K)) (String.ofList (renderNames D)) ++ ")"
    ∧ keyFromRel (keyToRel (String.ofList (renderNames K)) (String.ofList (renderNames D)))
        (String.ofList (renderNames D)) = String.ofList (renderNames K) := by
  refine ⟨rfl, ?_⟩
  simp only [keyFromRel, keyToRel, String.toList_ofList]
  rw [resolve_relative K D hK hD hmd]

/-- The configured extension does not matter: the link with `.md` appended resolves to the same key. -/
theorem resolve_relative_md (K D : List Str) (hK : NormalPath K) (hD : NormalPath D)
    (hmd : endsMd (renderNames K) = false) :
    fromRelLinkUrl (toRelLinkUrl (renderNames K) (renderNames D) ++ ['.', 'm', 'd']) (renderNames D)
      = renderNames K := by
  rw [fromRelLinkUrl, trimMd_append_md_core]
  exact resolve_relative_core K D hK hD hmd

/-- Resolving any link url (with `.`, `..`, repeated separators, `.md`) from a directory and
re-writing it from the same directory yields an equivalent link (one that resolves to the same
key), provided the url does not climb above the library root and resolves to a legal key. -/
theorem relative_resolve_equiv (u : Str) (D K : List Str) (hD : NormalPath D) (hK : NormalPath K)
    (hres : fromRelLinkUrl u (renderNames D) = renderNames K)
    (hmd : endsMd (renderNames K) = false) :
    fromRelLinkUrl (toRelLinkUrl (fromRelLinkUrl u (renderNames D)) (renderNames D)) (renderNames D)
      = fromRelLinkUrl u (renderNames D) := by
  rw [hres]
  exact resolve_relative_core K D hK hD hmd

/-- `..` past the root is the explicit failure case: the resolved "key" starts with `..`. -/
theorem climbs_above_root (D : List Str) (hD : NormalPath D) :
    fromRelLinkUrl (renderNames (List.replicate (D.length + 1) ['.', '.'] ) ) (renderNames D)
      = ['.', '.'] := by
  exact climbs_core D hD

/-- Keys never end in `.md`: whatever url is resolved, `from_file_name` strips every trailing `.md`. -/
theorem fromFileName_not_endsMd (s : Str) : endsMd (fromFileName s) = false := by
  exact trimMd_not_endsMd s

/-- `trim_md (u ++ ext) = trim_md u` for the configured extension. -/
theorem trimMd_append_md (u : Str) : trimMd (u ++ ['.', 'm', 'd']) = trimMd u := by
  exact trimMd_append_md_core u

/-- The written url is never empty (repair D34): an empty url is not a link when the note is read
again (`[[|text]]`), so the reference would be lost. -/
theorem written_url_nonempty (K D : List Str) (hK : NormalPath K) (hD : NormalPath D) (hne : K ≠ []) :
    toRelLinkUrl (renderNames K) (renderNames D) ≠ [] := by
  have _ := hD -- not needed: the url is non-empty for any linking directory
  exact toRelLinkUrl_ne_nil K D hK hne

/-- The pre-repair writer (defect D34) does *not* satisfy it: a note `d` linked from a note in
directory `d` got the empty url. -/
theorem bare_writer_counterexample : toRelLinkUrlBare ['d'] ['d'] = [] := by
  decide

/-- non-vacuity for `written_url_nonempty`, and the repaired value at the pre-repair counterexample -/
example : NormalPath [['d']] ∧ toRelLinkUrl ['d'] ['d'] = ['.', '.', '/', 'd']
    ∧ fromRelLinkUrl ['.', '.', '/', 'd'] ['d'] = ['d'] := by
  decide

/-- The pre-repair resolver (`join` without normalisation, defect D1) does *not* satisfy the
statement: the link written from `d/` to `c` is `../c`, which it resolves to `d/../c`. -/
theorem join_resolver_counterexample :
    fromRelLinkUrlJoin (toRelLinkUrl ['c'] ['d']) ['d'] ≠ ['c'] := by
  decide

/-- …and what can be proved about it: only targets below the linking directory round-trip. -/
theorem resolve_relative_join_partial (K D : List Str) (hK : NormalPath K) (hD : NormalPath D)
    (hmd : endsMd (renderNames (D ++ K)) = false) (hne : K ≠ []) :
    fromRelLinkUrlJoin (toRelLinkUrl (renderNames (D ++ K)) (renderNames D)) (renderNames D)
      = renderNames (D ++ K) := by
  exact join_partial_core K D hK hD hmd hne

/-- non-vacuity: concrete inputs meeting the hypotheses, evaluated by the kernel
(`a/b` seen from `d/e/f` is `../../../a/b`, which resolves back to `a/b`). -/
example : NormalPath [['a'], ['b']] ∧ NormalPath [['d'], ['e'], ['f']]
    ∧ endsMd (renderNames [['a'], ['b']]) = false
    ∧ toRelLinkUrl ['a', '/', 'b'] ['d', '/', 'e', '/', 'f']
        = ['.', '.', '/', '.', '.', '/', '.', '.', '/', 'a', '/', 'b']
    ∧ fromRelLinkUrl ['.', '.', '/', '.', '.', '/', '.', '.', '/', 'a', '/', 'b']
        ['d', '/', 'e', '/', 'f'] = ['a', '/', 'b'] := by
  decide

end Iwe.Path
