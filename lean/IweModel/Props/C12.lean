/-
C12 — every request gets exactly one response and the server keeps serving.
Over all schedules of the router machine.  With the D5 repair (`catchPanics = true`) every handler
outcome — result, error, panic — yields exactly one response; without it the statement holds only
for handlers that do not panic (`_partial`), and a panicking request is never answered.
Which (method, parameter class) panics in the real handlers is found by the harness and recorded
as known findings.  Helper lemmas live in `IweModel/Lemmas/Router.lean`.
-/
import IweModel.Lemmas.Router

namespace Iwe.C12
open Iwe Iwe.Router

/-- never two responses for one request (any configuration, any schedule, distinct request ids) -/
theorem at_most_one_response (cfg : Config) (acts : List Act) (hids : (reqIds (sent acts)).Nodup) :
    ((run cfg acts).outbox.map (·.1)).Nodup := by
  obtain ⟨c, _, _, hn⟩ := reach_run cfg acts
  exact (hn hids).ond

/-- responses only for requests that were sent -/
theorem responses_are_for_requests (cfg : Config) (acts : List Act) :
    ∀ r ∈ (run cfg acts).outbox, r.1 ∈ reqIds (sent acts) := by
  obtain ⟨c, e, hi, _⟩ := reach_run cfg acts
  intro r hr
  rw [← e, reqIds_append]
  exact List.mem_append_left _ (hi.osub r hr)

/-- once idle, if no worker died silently, the answered ids are exactly the requested ids -/
private theorem perm_of_quiescent (cfg : Config) (acts : List Act) (hids : (reqIds (sent acts)).Nodup)
    (hq : quiescent (run cfg acts) = true)
    (hdead : ∀ c, c ++ (run cfg acts).inbox = sent acts → Inv cfg c (run cfg acts) →
      ∀ id ∈ (run cfg acts).dead, False) :
    ((run cfg acts).outbox.map (·.1)).Perm (reqIds (sent acts)) := by
  obtain ⟨c, e, hi, hn⟩ := reach_run cfg acts
  have hdead := hdead c e hi
  simp only [quiescent, Bool.and_eq_true, List.isEmpty_iff] at hq
  rw [hq.1, List.append_nil] at e
  subst e
  apply (List.perm_ext_iff_of_nodup (hn hids).ond hids).2
  intro a
  constructor
  · intro ha
    obtain ⟨r, hr, rfl⟩ := List.mem_map.1 ha
    exact hi.osub r hr
  · intro ha
    rcases hi.cover a ha with h | h | h
    · exact h
    · simp [hq.2] at h
    · exact (hdead a h).elim

/-- **exactly one response per request, whatever the handler does**: once idle, the answered ids are
exactly the requested ids (repaired code) -/
theorem one_response_per_request (acts : List Act) (wf : Bool) (hids : (reqIds (sent acts)).Nodup)
    (hq : quiescent (run ⟨wf, true⟩ acts) = true) :
    ((run ⟨wf, true⟩ acts).outbox.map (·.1)).Perm (reqIds (sent acts)) := by
  apply perm_of_quiescent _ acts hids hq
  intro c _ hi id hd
  have := (hi.deadp id hd).1
  simp at this

/-- the `_partial` form for the unrepaired worker: if no handler panics -/
theorem one_response_per_request_partial (acts : List Act) (wf : Bool) (hids : (reqIds (sent acts)).Nodup)
    (hnp : ∀ id note oc, Msg.req id note oc ∈ sent acts → oc ≠ .panic)
    (hq : quiescent (run ⟨wf, false⟩ acts) = true) :
    ((run ⟨wf, false⟩ acts).outbox.map (·.1)).Perm (reqIds (sent acts)) := by
  apply perm_of_quiescent _ acts hids hq
  intro c e hi id hd
  obtain ⟨_, n, hm⟩ := hi.deadp id hd
  exact hnp id n .panic (e ▸ List.mem_append_left _ hm) rfl

/-- **the server keeps serving**: whether or not handler panics are caught, the server state, the
dropped notifications and every *other* request's worker evolve identically; a panic never
disturbs anything but its own reply -/
theorem server_survives (acts : List Act) (wf : Bool) :
    (run ⟨wf, true⟩ acts).texts = (run ⟨wf, false⟩ acts).texts
    ∧ (run ⟨wf, true⟩ acts).dropped = (run ⟨wf, false⟩ acts).dropped := by
  have h := run_sim wf acts
  exact ⟨h.2.1, h.2.2.2⟩

/-- **finding D5 in the model**: without the repair a request whose handler panics is never
answered, although the server goes idle -/
theorem unanswered_request_without_catch :
    let s := run ⟨true, false⟩ [.send (.req 1 0 .panic), .advance 1]
    quiescent s = true ∧ s.outbox = [] ∧ s.dead = [1] := by
  decide

/-- with the repair the same request is answered with an error -/
example :
    let s := run ⟨true, true⟩ [.send (.req 1 0 .panic), .advance 1, .send (.req 2 0 .ok), .advance 2, .advance 2, .advance 2]
    quiescent s = true ∧ s.outbox = [(1, .error), (2, .result 0)] := by
  decide

end Iwe.C12
