/-
The abstract specification used by the refinement theorems (C04, C05, C06): a library is just the
latest document of every note; every answer the graph gives is defined *directly from the
documents*, with no arena, no index, no caches, no history.
-/
import IweModel.Lemmas.Arena

namespace Iwe

/-- latest document per note key (at most one binding per key) -/
abbrev Library := List (String × Document)

namespace Spec

/-- the forest of a note, straight from its document -/
def forestOf (lib : Library) (k : String) : Option (List BTree) :=
  match assocGet lib k with
  | some d =>
    match Sections.forest (keyParent k) d.blocks with
    | .ok f => some f
    | .error _ => none
  | none => none

/-- the title of a note: plain text of its first block if that is a heading -/
def titleOf (lib : Library) (k : String) : Option String := (forestOf lib k).bind Graph.titleOf

def metaOf (lib : Library) (k : String) : Option String := (assocGet lib k).bind (·.metadata)

/-- node payloads with link texts / reference titles refreshed from the library's titles -/
def normNode (lib : Library) : Node → Node :=
  fun n => match n with
    | .sect xs => .sect (Inline.normalizeL (titleOf lib) xs)
    | .leaf xs => .leaf (Inline.normalizeL (titleOf lib) xs)
    | .ref key text t =>
      .ref key (match t with
        | .regular => (titleOf lib key).getD text
        | .wiki => ""
        | .wikiPiped => text) t
    | .table h a rows =>
      .table (h.map (Inline.normalizeL (titleOf lib))) a (rows.map fun r => r.map (Inline.normalizeL (titleOf lib)))
    | other => other

/-- the formatted text of a note, from the library alone -/
def markdown (ext : String) (lib : Library) (k : String) : Except Site String :=
  match assocGet lib k with
  | none => .error .noKey
  | some _ =>
    match forestOf lib k with
    | none => .error .noNode
    | some f =>
      match Render.blocksSparse ext (Project.forest (keyParent k) 0 (forestWithIds (normNode lib) 0 f)) with
      | .error e => .error e
      | .ok body => .ok (Render.withMeta (metaOf lib k) body)

/-- block-level backlinks of `K`: (linking note, position of the reference block in that note in
document order), by scanning every note's forest -/
def blockBacklinks (lib : Library) (K : String) : List (String × Nat) :=
  lib.flatMap fun p =>
    match forestOf lib p.1 with
    | some f => ((Graph.indexForest 1 f).1.filter fun e => e.1 == K).map fun e => (p.1, e.2)
    | none => []

/-- inline backlinks of `K`: (linking note, position of the paragraph / heading / item holding the link) -/
def inlineBacklinks (lib : Library) (K : String) : List (String × Nat) :=
  lib.flatMap fun p =>
    match forestOf lib p.1 with
    | some f => ((Graph.indexForest 1 f).2.filter fun e => e.1 == K).map fun e => (p.1, e.2)
    | none => []

end Spec

namespace Graph

/-- where a node is: (its note, its position in that note in document order; 0 = the note itself) -/
def place (g : Graph) (id : Nat) : Option (String × Nat) :=
  match g.nodeKey id with
  | some k => (assocGet g.keys k).map fun b => (k, id - b)
  | none => none

end Graph
end Iwe
