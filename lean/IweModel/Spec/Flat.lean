/-
Flat text content (C01, reader half): the characters of all text-carrying leaves, in document order.
Defined on the parser's event stream (`Flat.events`) and on the reader's blocks (`Flat.blocks`), so that
"the reader neither drops, duplicates nor reorders a piece of text" is an equation between the two.
Markup (emphasis, link destinations, list markers, heading levels, line ranges) does not appear; the text
of code blocks, code spans, math and inline HTML does.
-/
import IweModel.Spec.Events

namespace Iwe
namespace Flat
open Reader

mutual
def inl : Inline → String
  | .str s => s
  | .code s => s
  | .math s => s
  | .emph xs => inls xs
  | .strong xs => inls xs
  | .strikeout xs => inls xs
  | .link _ _ _ xs => inls xs
  | .image _ _ xs => inls xs
def inls : List Inline → String
  | [] => ""
  | x :: xs => inl x ++ inls xs
end

/-- the cells of one table row -/
def cells : List Inlines → String
  | [] => ""
  | c :: cs => inls c ++ cells cs

def rows : List (List Inlines) → String
  | [] => ""
  | r :: rs => cells r ++ rows rs

mutual
def block : DBlock → String
  | .para _ xs => inls xs
  | .header _ _ xs => inls xs
  | .code _ _ t => t
  | .quote _ bs => blocks bs
  | .blist its => items its
  | .olist its => items its
  | .rule _ => ""
  | .table _ h _ rs => cells h ++ rows rs
def blocks : List DBlock → String
  | [] => ""
  | b :: bs => block b ++ blocks bs
def items : List (List DBlock) → String
  | [] => ""
  | it :: its => blocks it ++ items its
end

/-- the text an event carries; the text of the front-matter block (`inMeta`) is not note content -/
def evText (inMeta : Bool) : Ev → String
  | .text _ _ t => if inMeta then "" else t
  | .code _ _ t => t
  | .math _ _ t => t
  | .inlineHtml _ _ t => t
  | _ => ""

/-- text content of an event stream, `inMeta` = inside the front-matter block -/
def events : Bool → List Ev → String
  | _, [] => ""
  | _, .startMeta :: evs => events true evs
  | _, .endMeta :: evs => events false evs
  | m, ev :: evs => evText m ev ++ events m evs

/-- the front matter the parser reports: the text of the last `Text` event inside a metadata block (pulldown-cmark
reports a front-matter block as one `Text`; when it reports several — a `---` block inside a quote or list, finding
D24 — the reader keeps the last) -/
def metaText : Bool → Option String → List Ev → Option String
  | _, acc, [] => acc
  | _, acc, .startMeta :: evs => metaText true acc evs
  | _, acc, .endMeta :: evs => metaText false acc evs
  | true, _, .text _ _ t :: evs => metaText true (some t) evs
  | m, acc, _ :: evs => metaText m acc evs

/-- no `Text` event inside an HTML block (pulldown-cmark reports HTML blocks as `Html` events; the one known
exception is finding D21's indented HTML block, whose text the reader appends to whatever block came last) -/
def htmlTextFree : List Events.Frame → List Ev → Bool
  | _, [] => true
  | fs, ev :: evs =>
    (match ev, fs with
     | .text _ _ _, .html :: _ => false
     | _, _ => true) &&
    (match Events.step fs ev with
     | some fs' => htmlTextFree fs' evs
     | none => true)

end Flat

namespace Outline

/-- the level of a heading that starts at the top level (nothing open) -/
def topHeading : Reader.Ev → List Events.Frame → List Nat
  | .startHeading _ _ l, [] => [l]
  | _, _ => []

/-- heading levels the parser reports at the top level of a note (not inside quotes or list items), in order -/
def levelsEv : List Events.Frame → List Reader.Ev → List Nat
  | _, [] => []
  | fs, ev :: evs =>
    topHeading ev fs ++
    (match Events.step fs ev with
     | some fs' => levelsEv fs' evs
     | none => [])

end Outline
end Iwe
