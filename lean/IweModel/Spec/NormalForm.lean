/-
C02: rendered blocks seen as reader output again (`asDoc`) — the structural view of "format the
formatted text".  Line ranges are irrelevant to rendering and set to 0..0.
-/
import IweModel.Lemmas.Arena

namespace Iwe
namespace NormalForm

def lr0 : LineRange := ⟨0, 0⟩

mutual
/-- what the reader delivers for the text of a rendered block (structure only; that the *text* of
`b` is parsed back to this structure is the syntax bridge, DESIGN.md §5) -/
def asDoc : GBlock → DBlock
  | .plain xs => .para lr0 xs
  | .para xs => .para lr0 xs
  | .code l t => .code lr0 l t
  | .quote bs => .quote lr0 (asDocs bs)
  | .olist its => .olist (asDocItems its)
  | .blist its => .blist (asDocItems its)
  | .header l xs => .header lr0 l xs
  | .rule => .rule lr0
  | .table h a r => .table lr0 h a r
def asDocs : List GBlock → List DBlock
  | [] => []
  | b :: bs => asDoc b :: asDocs bs
def asDocItems : List (List GBlock) → List (List DBlock)
  | [] => []
  | it :: its => asDocs it :: asDocItems its
end

/-- the rendered blocks of a note: reader blocks → forest → (arena ids) → projector -/
def blocksOf (dir : String) (f : List BTree) : List GBlock :=
  Project.forest dir 0 (forestWithIds id 1 f)

mutual
/-- every block reference of the forest points to a key that survives being written as a relative
link from `dir` and resolved again (true of every normalised key: C15 `resolve_relative`) -/
def refsRoundTrip (dir : String) : BTree → Bool
  | .mk n _ cs =>
    (match n with
     | .ref k _ _ => keyFromRel (keyToRel k dir) dir == k && isRefUrl (keyToRel k dir)
     | _ => true) && refsRoundTripL dir cs
def refsRoundTripL (dir : String) : List BTree → Bool
  | [] => true
  | t :: ts => refsRoundTrip dir t && refsRoundTripL dir ts
end

end NormalForm
end Iwe
