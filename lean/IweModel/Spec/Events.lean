/-
The grammar of pulldown-cmark event streams as far as `markdown/reader.rs` depends on it: which event may
follow which.  It is an *assumption about the Markdown parser* (a dependency, not iwe code), written as a
decidable checker so that the correspondence run can test it on every event stream the real parser
produces (`reader.read` reports `wellFormed` next to the model's result).

`Frame` = what is open.  The reader keeps lists, quotes, paragraphs, headings, code blocks and tables on its
block stack and inline containers on its inline stack; items, HTML blocks and the front-matter block are
open in the stream but not on a stack.
-/
import IweModel.Model.Reader

namespace Iwe
namespace Events
open Reader

inductive Frame where
  | para | heading | quote | code
  /-- `cell` = a cell of the current row has been opened (inline content goes into it) -/
  | table (cell : Bool)
  | list (hasItem : Bool)
  | item | html | metadata | inline
  deriving DecidableEq, Repr, Inhabited

/-- a block may start at top level, directly inside a quote and inside a list item -/
def blockAllowed : List Frame → Bool
  | [] => true
  | .quote :: _ => true
  | .item :: _ => true
  | _ => false

/-- inline content: in a paragraph, heading, table cell (after `startCell`), inside another inline, and directly in a (tight) item -/
def inlineAllowed : List Frame → Bool
  | .para :: _ => true
  | .heading :: _ => true
  | .table true :: _ => true
  | .inline :: _ => true
  | .item :: _ => true
  | _ => false

/-- `Text` is also what code blocks and the front matter consist of; inside an HTML block it reaches the
reader's `top_block()`, which needs an enclosing quote or item (at top level: finding D9) -/
def textAllowed : List Frame → Bool
  | .code :: _ => true
  | .metadata :: _ => true
  | .html :: .quote :: _ => true
  | .html :: .item :: _ => true
  | fs => inlineAllowed fs

/-- one event; `none` = the stream is not one the parser produces -/
def step (fs : List Frame) : Ev → Option (List Frame)
  | .startPara _ _ => if blockAllowed fs then some (.para :: fs) else none
  | .startHeading _ _ _ => if blockAllowed fs then some (.heading :: fs) else none
  | .startQuote _ _ => if blockAllowed fs then some (.quote :: fs) else none
  | .startCode _ _ _ => if blockAllowed fs then some (.code :: fs) else none
  | .startTable _ _ _ => if blockAllowed fs then some (.table false :: fs) else none
  | .startList _ => if blockAllowed fs then some (.list false :: fs) else none
  | .startHtml => if blockAllowed fs then some (.html :: fs) else none
  | .rule _ _ => if blockAllowed fs then some fs else none
  | .startMeta => if blockAllowed fs then some (.metadata :: fs) else none   -- also inside quotes and items (finding D24)
  | .endPara => match fs with | .para :: r => some r | _ => none
  | .endHeading => match fs with | .heading :: r => some r | _ => none
  | .endQuote => match fs with | .quote :: r => some r | _ => none
  | .endCode => match fs with | .code :: r => some r | _ => none
  | .endTable => match fs with | .table _ :: r => some r | _ => none
  | .endList => match fs with | .list true :: r => some r | _ => none     -- a list has at least one item
  | .endHtml => match fs with | .html :: r => some r | _ => none
  | .endMeta => match fs with | .metadata :: r => some r | _ => none
  | .startItem => match fs with | .list _ :: r => some (.item :: .list true :: r) | _ => none
  | .endItem => match fs with | .item :: r => some r | _ => none
  | .startRow => match fs with | .table _ :: r => some (.table false :: r) | _ => none
  | .startCell => match fs with | .table _ :: r => some (.table true :: r) | _ => none
  | .startInline _ _ _ => if inlineAllowed fs then some (.inline :: fs) else none
  | .endInline => match fs with | .inline :: r => some r | _ => none
  | .text _ _ _ => if textAllowed fs then some fs else none
  | .code _ _ _ => if inlineAllowed fs then some fs else none
  | .math _ _ _ => if inlineAllowed fs then some fs else none
  | .inlineHtml _ _ _ => if inlineAllowed fs then some fs else none
  | .ignored => some fs

def run : List Frame → List Ev → Option (List Frame)
  | fs, [] => some fs
  | fs, ev :: evs =>
    match step fs ev with
    | none => none
    | some fs' => run fs' evs

/-- a complete, well-bracketed event stream -/
def wellFormed (evs : List Ev) : Bool := run [] evs == some []

/-- a prefix of a well-bracketed stream (what the reader has seen at any moment) -/
def wellFormedPrefix (evs : List Ev) : Bool := (run [] evs).isSome

end Events
end Iwe
