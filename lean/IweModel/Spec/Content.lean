/-
Content of a tree (C08, C09, C10): the pre-order sequence of node payloads, list nodes and inner
`document` nodes left out (they are containers: wrapping / unwrapping / inlining adds or removes
exactly those).  What refactorings must conserve.
-/
import IweModel.Model.Actions

namespace Iwe
namespace Content

def isContainerOnly : Node → Bool
  | .blist => true
  | .olist => true
  | .document _ => true
  | _ => false

mutual
/-- payloads in document order, without list / document container nodes -/
def ofTree : Tree → List Node
  | .mk _ n cs => (if isContainerOnly n then [] else [n]) ++ ofForest cs
def ofForest : List Tree → List Node
  | [] => []
  | t :: ts => ofTree t ++ ofForest ts
end

mutual
/-- reference targets of block references, in document order -/
def refKeys : Tree → List String
  | .mk _ n cs => (match n with | .ref k _ _ => [k] | _ => []) ++ refKeysL cs
def refKeysL : List Tree → List String
  | [] => []
  | t :: ts => refKeys t ++ refKeysL ts
end

mutual
/-- keys of inline links (as indexed), in document order -/
def inlineKeys : Tree → List String
  | .mk _ n cs =>
    (match n with
     | .sect xs => Inline.refKeysL xs
     | .leaf xs => Inline.refKeysL xs
     | _ => []) ++ inlineKeysL cs
def inlineKeysL : List Tree → List String
  | [] => []
  | t :: ts => inlineKeys t ++ inlineKeysL ts
end

/-- no id occurs twice (true of every tree collected from a well-formed arena) -/
def uniqueIds (t : Tree) : Prop := (Tree.ids t).Nodup

end Content
end Iwe
