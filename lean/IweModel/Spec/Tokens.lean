/-
Content tokens (C01, C07): a document seen as the sequence of its content units with container
brackets — what must survive formatting.  Defined uniformly on reader blocks (`DBlock`), on the
built forest (`BTree`) and on rendered blocks (`GBlock`).  Heading *levels*, list markers, line
ranges and node ids are presentation and do not appear.
-/
import IweModel.Model.Graph

namespace Iwe

inductive Tok where
  | openQuote
  | openBullet
  | openOrdered
  | openItem
  | close
  | heading (xs : Inlines)
  | text (xs : Inlines)
  | code (lang : Option String) (text : String)
  | rule
  | ref (key : String) (text : String) (t : LinkType)
  | table (header : List Inlines) (align : List Align) (rows : List (List Inlines))
  deriving Repr, Inhabited

namespace Tok

/-- the first block of a list item counts as the item's text (a paragraph, or a heading) -/
def itemHead : DBlock → List Tok
  | .para _ xs => [.text xs]
  | .header _ _ xs => [.text xs]
  | _ => []

mutual
/-- tokens of reader blocks; `dir` = directory of the note (block references are resolved from it) -/
def ofD (dir : String) : DBlock → List Tok
  | .para _ xs =>
    match Sections.paraRef xs with
    | some (url, txt, t) => [.ref (keyFromRel url dir) txt t]
    | none => [.text xs]
  | .header _ _ xs => [.heading xs]
  | .code _ l t => [.code l t]
  | .quote _ bs => .openQuote :: ofDs dir bs ++ [.close]
  | .blist its => .openBullet :: ofItems dir its ++ [.close]
  | .olist its => .openOrdered :: ofItems dir its ++ [.close]
  | .rule _ => [.rule]
  | .table _ h a r => [.table h a r]
def ofDs (dir : String) : List DBlock → List Tok
  | [] => []
  | b :: bs => ofD dir b ++ ofDs dir bs
/-- the items of a list; an empty item carries nothing -/
def ofItems (dir : String) : List (List DBlock) → List Tok
  | [] => []
  | [] :: its => ofItems dir its
  | (b :: rest) :: its => .openItem :: (itemHead b ++ ofDs dir rest ++ [.close]) ++ ofItems dir its
end

mutual
/-- every non-empty list item starts with a paragraph or a heading (the class in which the
section builder neither panics — finding D9 — nor merges a leading list into its parent) -/
def itemsOk : DBlock → Bool
  | .quote _ bs => itemsOkL bs
  | .blist its => itemsOkI its
  | .olist its => itemsOkI its
  | _ => true
def itemsOkL : List DBlock → Bool
  | [] => true
  | b :: bs => itemsOk b && itemsOkL bs
def itemsOkI : List (List DBlock) → Bool
  | [] => true
  | [] :: its => itemsOkI its
  | (b :: rest) :: its =>
    (match b with
     | .para .. => true
     | .header .. => true
     | _ => false) && itemsOkL rest && itemsOkI its
end

mutual
/-- …and every list has at least one non-empty item (otherwise the real builder leaves its insert
flag on and the following blocks become children of the list node: outside the forest model) -/
def listsNonEmpty : DBlock → Bool
  | .quote _ bs => listsNonEmptyL bs
  | .blist its => its.any (fun it => !it.isEmpty) && listsNonEmptyI its
  | .olist its => its.any (fun it => !it.isEmpty) && listsNonEmptyI its
  | _ => true
def listsNonEmptyL : List DBlock → Bool
  | [] => true
  | b :: bs => listsNonEmpty b && listsNonEmptyL bs
def listsNonEmptyI : List (List DBlock) → Bool
  | [] => true
  | it :: its => listsNonEmptyL it && listsNonEmptyI its
end

/-- how a built reference node is shown: as itself, or as the paragraph the projector renders -/
abbrev RefTok := String → String → LinkType → Tok

def refAsPara (dir : String) : RefTok := fun key txt t =>
  .text [.link (keyToRel key dir) "" t
    (match t with
     | .regular => [.str txt]
     | .wiki => []
     | .wikiPiped => [.str txt])]

mutual
/-- tokens of a built forest -/
def ofB (rt : RefTok) : BTree → List Tok
  | .mk n _ cs =>
    match n with
    | .document _ => ofBs rt cs
    | .sect xs => .heading xs :: ofBs rt cs
    | .quote => .openQuote :: ofBs rt cs ++ [.close]
    | .blist => .openBullet :: ofBItems rt cs ++ [.close]
    | .olist => .openOrdered :: ofBItems rt cs ++ [.close]
    | .leaf xs => [.text xs]
    | .raw l c => [.code l c]
    | .rule => [.rule]
    | .ref k t ty => [rt k t ty]
    | .table h a r => [.table h a r]
def ofBs (rt : RefTok) : List BTree → List Tok
  | [] => []
  | t :: ts => ofB rt t ++ ofBs rt ts
/-- the children of a list node are its items -/
def ofBItems (rt : RefTok) : List BTree → List Tok
  | [] => []
  | .mk n _ cs :: ts => .openItem :: (.text (Project.nodeInlines n) :: ofBs rt cs ++ [.close]) ++ ofBItems rt ts
end

mutual
/-- tokens of rendered blocks -/
def ofG : GBlock → List Tok
  | .plain xs => [.text xs]
  | .para xs => [.text xs]
  | .code l t => [.code l t]
  | .quote bs => .openQuote :: ofGs bs ++ [.close]
  | .olist its => .openOrdered :: ofGItems its ++ [.close]
  | .blist its => .openBullet :: ofGItems its ++ [.close]
  | .header _ xs => [.heading xs]
  | .rule => [.rule]
  | .table h a r => [.table h a r]
def ofGs : List GBlock → List Tok
  | [] => []
  | b :: bs => ofG b ++ ofGs bs
def ofGItems : List (List GBlock) → List Tok
  | [] => []
  | it :: its => .openItem :: (ofGs it ++ [.close]) ++ ofGItems its
end

end Tok

/-! ### outline levels (C07) -/
namespace Outline

/-- heading levels of a block list, in order, not looking inside quotes and list items
(levels restart there) -/
def levelsD : List DBlock → List Nat
  | [] => []
  | .header _ l _ :: bs => l :: levelsD bs
  | _ :: bs => levelsD bs

def levelsG : List GBlock → List Nat
  | [] => []
  | .header l _ :: bs => l :: levelsG bs
  | _ :: bs => levelsG bs

/-- well-nested after a heading of level `prev` (`prev = 0`: at the start): every level is ≥ 1 and
at most one deeper than the heading before it -/
def wellNested : Nat → List Nat → Bool
  | _, [] => true
  | prev, l :: ls => decide (1 ≤ l) && decide (l ≤ prev + 1) && wellNested l ls

end Outline
end Iwe
