import IweModel.Props.C05
#print axioms Iwe.C05.block_backlinks_exact
#print axioms Iwe.C05.inline_backlinks_exact
#print axioms Iwe.C05.backlink_counts
#print axioms Iwe.C05.number_substr_shape
#print axioms Iwe.C05.inline_counter_hint
#print axioms Iwe.C05.block_reference_hints_spec
#print axioms Iwe.C05.inlay_hints_order
#print axioms Iwe.C05.inlay_hints_unknown_note
#print axioms Iwe.C05.block_target_resolved_from_directory
#print axioms Iwe.C05.external_link_is_not_a_reference
#print axioms Iwe.C05.isRefUrl_iff
#print axioms Iwe.C05.isRefUrl_examples
#print axioms Iwe.C05.inline_key_is_root_relative
#print axioms Iwe.C05.inline_link_in_subdirectory_counterexample
#print axioms Iwe.C05.inline_key_resolved_partial
#print axioms Iwe.C05.table_cells_not_indexed
