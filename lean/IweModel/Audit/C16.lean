import IweModel.Props.C16
#print axioms Iwe.C16.import_order_irrelevant
#print axioms Iwe.C16.insert_order_irrelevant
#print axioms Iwe.C16.paths_listing_canonical
#print axioms Iwe.C16.cli_listing_canonical
#print axioms Iwe.C16.cli_paths_same_lines
#print axioms Iwe.C16.export_is_pointwise
#print axioms Iwe.C16.equal_rank_order_depends_on_history
