import IweModel.Props.C13
#print axioms Iwe.C13.inline_range_exact_partial
#print axioms Iwe.C13.to_inline_range_exact_partial
#print axioms Iwe.C13.line_exact_partial
#print axioms Iwe.C13.block_start_line_exact_partial
#print axioms Iwe.C13.link_hit_iff
#print axioms Iwe.C13.line_range_covers_block
#print axioms Iwe.C13.key_range_is_destination_partial
#print axioms Iwe.C13.key_range_multiline_counterexample
#print axioms Iwe.C13.crlf_counterexample
#print axioms Iwe.C13.multibyte_counterexample
