import IweModel.Props.C20
#print axioms Iwe.C20.wf_empty
#print axioms Iwe.C20.wf_addDocument
#print axioms Iwe.C20.deleteBranch_blanks_segment
#print axioms Iwe.C20.wf_updateKey
#print axioms Iwe.C20.wf_reachable
#print axioms Iwe.C20.wf_import
#print axioms Iwe.C20.collect_segment
#print axioms Iwe.C20.toDocument_segment
#print axioms Iwe.C20.walk_stays_in_segment
#print axioms Iwe.C20.notes_independent
#print axioms Iwe.C20.wfCheck_of_WF
