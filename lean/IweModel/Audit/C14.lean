import IweModel.Props.C14
#print axioms Iwe.C14.url_key_roundtrip_partial
#print axioms Iwe.C14.safe_key_has_no_base_prefix
#print axioms Iwe.C14.disk_key_path_roundtrip_partial
#print axioms Iwe.C14.edit_updates_same_note
#print axioms Iwe.C14.definition_resolution_agrees
#print axioms Iwe.C14.written_link_opens_the_note
#print axioms Iwe.C14.definition_above_root_counterexample
#print axioms Iwe.C14.md_md_counterexample
