import IweModel.Props.C12
#print axioms Iwe.C12.at_most_one_response
#print axioms Iwe.C12.responses_are_for_requests
#print axioms Iwe.C12.one_response_per_request
#print axioms Iwe.C12.one_response_per_request_partial
#print axioms Iwe.C12.server_survives
#print axioms Iwe.C12.unanswered_request_without_catch
