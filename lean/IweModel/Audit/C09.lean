import IweModel.Props.C09
#print axioms Iwe.C09.extract_conservation
#print axioms Iwe.C09.extract_leaves_one_reference
#print axioms Iwe.C09.extract_frame
#print axioms Iwe.C09.extract_promotes
#print axioms Iwe.C09.inline_section_conservation
#print axioms Iwe.C09.inline_quote_conservation
#print axioms Iwe.C09.extract_inline_restores
#print axioms Iwe.C09.extract_then_inline_shape
#print axioms Iwe.C09.inline_after_extract_shape
#print axioms Iwe.C09.extract_then_inline_shape_counterexample
