import IweModel.Props.C15
#print axioms Iwe.Path.resolve_relative
#print axioms Iwe.Path.completion_link_resolves
#print axioms Iwe.Path.resolve_relative_md
#print axioms Iwe.Path.relative_resolve_equiv
#print axioms Iwe.Path.climbs_above_root
#print axioms Iwe.Path.fromFileName_not_endsMd
#print axioms Iwe.Path.trimMd_append_md
#print axioms Iwe.Path.written_url_nonempty
#print axioms Iwe.Path.bare_writer_counterexample
#print axioms Iwe.Path.join_resolver_counterexample
#print axioms Iwe.Path.resolve_relative_join_partial
