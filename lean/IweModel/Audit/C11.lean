import IweModel.Props.C11
#print axioms Iwe.C11.no_notification_dropped
#print axioms Iwe.C11.applied_prefix_invariant
#print axioms Iwe.C11.idle_state_is_last_sent
#print axioms Iwe.C11.answers_include_prior_notifications
#print axioms Iwe.C11.progress
#print axioms Iwe.C11.advance_decreases
#print axioms Iwe.C11.reachable_workers_wf
#print axioms Iwe.C11.advance_decreases_reachable
#print axioms Iwe.C11.exists_lost_notification
