import IweModel.Props.C10
#print axioms Iwe.C10.changeListType_involutive
#print axioms Iwe.C10.unwrap_wrap
#print axioms Iwe.C10.unwrap_wrap_any
#print axioms Iwe.C10.unwrap_wrap_root_counterexample
#print axioms Iwe.C10.conversions_conserve_content
#print axioms Iwe.C10.unwrap_non_list_counterexample
#print axioms Iwe.C10.only_target_rewritten
#print axioms Iwe.C10.wrap_adds_one_node
#print axioms Iwe.C10.wrap_adds_one_node_counterexample
#print axioms Iwe.C10.surroundingList_is_parent_list
#print axioms Iwe.C10.surroundingList_is_parent_list_counterexample
#print axioms Iwe.C10.topLevelList_contains_target
#print axioms Iwe.C10.topLevelList_contains_target_counterexample
#print axioms Iwe.C10.list_to_sections_conserves_content
