import IweModel.Props.C18
#print axioms Iwe.C18.pathsForNode_inv
#print axioms Iwe.C18.pathsForNode_sound
#print axioms Iwe.C18.paths_sound
#print axioms Iwe.C18.paths_sorted_nodup
#print axioms Iwe.C18.sortDedup_perm_invariant
#print axioms Iwe.C18.top_headings_listed
#print axioms Iwe.C18.search_at_most_100
#print axioms Iwe.C18.empty_query_most_referenced_first
#print axioms Iwe.C18.search_order_nonempty
#print axioms Iwe.C18.search_results_are_paths
#print axioms Iwe.C18.names_are_heading_texts
#print axioms Iwe.C18.stepDraftB_of_StepDraft
#print axioms Iwe.C18.Step_of_StepDraft
