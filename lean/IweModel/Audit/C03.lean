import IweModel.Props.C03
#print axioms Iwe.C03.build_total
#print axioms Iwe.C03.build_panic_site
#print axioms Iwe.C03.collect_total
#print axioms Iwe.C03.nodeIdAt_total
#print axioms Iwe.C03.squash_total
#print axioms Iwe.C03.walk_total
#print axioms Iwe.C03.reader_total
#print axioms Iwe.C03.reader_delivers
#print axioms Iwe.C03.reader_panic_site
