import IweModel.Props.C06
#print axioms Iwe.C06.ref_title_refreshed
#print axioms Iwe.C06.ref_wiki_kept
#print axioms Iwe.C06.ref_title_is_current_heading
#print axioms Iwe.C06.ref_to_missing_note_kept
#print axioms Iwe.C06.inline_link_table
#print axioms Iwe.C06.other_inlines_kept
#print axioms Iwe.C06.dests_of_hasNoLink
#print axioms Iwe.C06.destsL_of_hasNoLinkL
#print axioms Iwe.C06.image_in_refreshed_link_text_is_lost
#print axioms Iwe.C06.normalize_keeps_dests
#print axioms Iwe.C06.normalizeL_keeps_dests
#print axioms Iwe.C06.normalize_keeps_destinations
#print axioms Iwe.C06.block_reference_destination_kept
#print axioms Iwe.C06.reference_link_extension_once
#print axioms Iwe.C06.external_link_rendering
#print axioms Iwe.C06.inline_title_is_root_relative_counterexample
