import IweModel.Props.C04
#print axioms Iwe.C20.wf_empty
