import IweModel.Props.C04
#print axioms Iwe.C04.inv_import
#print axioms Iwe.C04.inv_updateKey
#print axioms Iwe.C04.inv_reachable
#print axioms Iwe.C04.inv_congr
#print axioms Iwe.C04.toMarkdown_spec
#print axioms Iwe.C04.title_spec
#print axioms Iwe.C04.blockBacklinks_spec
#print axioms Iwe.C04.inlineBacklinks_spec
#print axioms Iwe.C04.nodeIdAt_spec
#print axioms Iwe.C04.incremental_eq_fresh
