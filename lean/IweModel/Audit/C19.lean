import IweModel.Props.C19
#print axioms Iwe.C19.crash_safe
#print axioms Iwe.C19.complete_run_writes_all
#print axioms Iwe.C19.touches_only_notes
#print axioms Iwe.C19.no_temp_left
#print axioms Iwe.C19.exists_truncated
#print axioms Iwe.C19.failed_write_keeps_note
#print axioms Iwe.C19.failed_write_removes_temp
#print axioms Iwe.C19.failed_store_old_or_new
#print axioms Iwe.C19.fallback_in_place_truncates
