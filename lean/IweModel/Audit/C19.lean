import IweModel.Props.C19
#print axioms Iwe.C19.crash_safe
#print axioms Iwe.C19.complete_run_writes_all
#print axioms Iwe.C19.touches_only_notes
#print axioms Iwe.C19.no_temp_left
#print axioms Iwe.C19.exists_truncated
