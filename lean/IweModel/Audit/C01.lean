import IweModel.Props.C01
#print axioms Iwe.C01.forest_tokens
#print axioms Iwe.C01.blocks_tokens
#print axioms Iwe.C01.forest_total_partial
#print axioms Iwe.C01.forest_panics_on_code_first_item
#print axioms Iwe.C01.project_tokens
#print axioms Iwe.C01.pipeline_tokens
#print axioms Iwe.C01.reader_content
#print axioms Iwe.C01.reader_frontmatter
#print axioms Iwe.C01.reader_content_html_text_counterexample
#print axioms Iwe.C01.frontmatter_verbatim
