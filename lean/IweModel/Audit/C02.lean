import IweModel.Props.C02
#print axioms Iwe.C02.structural_fixpoint
#print axioms Iwe.C02.sparse_stable
#print axioms Iwe.C02.normalize_idem
#print axioms Iwe.C02.ordered_indent
#print axioms Iwe.C02.numPrefix_shape
#print axioms Iwe.C02.numbered_consecutive
#print axioms Iwe.C02.frontmatter_fixpoint
