import IweModel.Props.C17
#print axioms Iwe.C17.squash_node
#print axioms Iwe.C17.squash_ref_expands
#print axioms Iwe.C17.squash_ref_depth0
#print axioms Iwe.C17.squash_ref_missing
#print axioms Iwe.C17.squash_zero_keeps_links
#print axioms Iwe.C17.nonref_content_once_depth0
#print axioms Iwe.C17.nonref_content_kept
#print axioms Iwe.C17.squash_root
#print axioms Iwe.C17.size_bound
#print axioms Iwe.C17.self_loop_copies
