import IweModel.Props.C07
#print axioms Iwe.C07.out_wellNested
#print axioms Iwe.C07.note_wellNested
#print axioms Iwe.C07.nest_identity
#print axioms Iwe.C07.note_nest_identity
#print axioms Iwe.C07.heading_count_kept
#print axioms Iwe.C07.reader_outline
#print axioms Iwe.C07.events_to_rendered_outline
#print axioms Iwe.C07.levels_restart_in_containers
