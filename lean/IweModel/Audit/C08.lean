import IweModel.Props.C08
#print axioms Iwe.C08.changeKey_block_refs
#print axioms Iwe.C08.changeKey_inline_links_exact
#print axioms Iwe.C08.changeKey_inline_links
#print axioms Iwe.C08.changeKey_inline_links_complete
#print axioms Iwe.C08.changeKey_skips_external_link
#print axioms Iwe.C08.changeKey_skips_image_alt
#print axioms Iwe.C08.changeKey_keeps_shape
#print axioms Iwe.C08.changeKey_frame
#print axioms Iwe.C08.rename_refused_if_taken
#print axioms Iwe.C08.rename_without_link
#print axioms Iwe.C08.rename_edit_shape
#print axioms Iwe.C08.rename_from_subdirectory_panics
#print axioms Iwe.C08.rename_blanks_inline_link_text
