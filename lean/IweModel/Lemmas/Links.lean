/- helper definitions / lemmas for C05 and C06 -/
import IweModel.Props.C04
import IweModel.Props.C15
import IweModel.Spec.Tokens

namespace Iwe
namespace Links

mutual
/-- no link **and no image** occurs inside the text of a link (CommonMark forbids nested links; the
reader never produces one.  Images inside a link text are legal CommonMark, `[![alt](i.png)](a)`,
but title refresh replaces the whole text of a regular reference link, image included, so they
are excluded here — see `C06.normalize_keeps_destinations` and the counterexample next to it). -/
def noLinkInsideLinkText1 : Inline → Bool
  | .link _ _ _ xs => hasNoLinkL xs
  | .image _ _ xs => noLinkInsideLinkText xs
  | .emph xs => noLinkInsideLinkText xs
  | .strong xs => noLinkInsideLinkText xs
  | .strikeout xs => noLinkInsideLinkText xs
  | _ => true
def noLinkInsideLinkText : List Inline → Bool
  | [] => true
  | x :: xs => noLinkInsideLinkText1 x && noLinkInsideLinkText xs
/-- neither a link nor an image, at any depth of emphasis -/
def hasNoLink : Inline → Bool
  | .link .. => false
  | .image .. => false
  | .emph xs => hasNoLinkL xs
  | .strong xs => hasNoLinkL xs
  | .strikeout xs => hasNoLinkL xs
  | _ => true
def hasNoLinkL : List Inline → Bool
  | [] => true
  | x :: xs => hasNoLink x && hasNoLinkL xs
end

/-! ### `String` ↔ `List Char` -/

theorem md_toList : ".md".toList = ['.', 'm', 'd'] := by decide

theorem empty_toList : "".toList = [] := by decide

theorem toList_append_md (url : String) : (url ++ ".md").toList = url.toList ++ ['.', 'm', 'd'] := by
  rw [String.toList_append, md_toList]

/-- `from_file_name` ignores one more `.md` -/
theorem keyFromFileName_append_md (url : String) :
    keyFromFileName (url ++ ".md") = keyFromFileName url := by
  unfold keyFromFileName Path.fromFileName
  rw [toList_append_md, Path.trimMd_append_md]

/-- `from_rel_link_url` ignores one more `.md` -/
theorem keyFromRel_append_md (url dir : String) :
    keyFromRel (url ++ ".md") dir = keyFromRel url dir := by
  unfold keyFromRel Path.fromRelLinkUrl
  rw [toList_append_md, Path.trimMd_append_md]

/-! ### keys of clean urls from the library root -/

theorem comps_nil : Path.comps [] = [] := by
  simp [Path.comps, Path.pieces]

theorem joinNormalized_nil_normals (names : List Path.Str) :
    Path.joinNormalized [] (names.map .normal) = names.map .normal := by
  unfold Path.joinNormalized
  have h0 : Path.trav [] ([] : List Path.Comp) = [] := rfl
  rw [h0, Path.trav_normals]
  simp

/-- resolving a clean path (no `.`, `..`, `//`, no trailing `.md`) from the root is the identity -/
theorem fromRelLinkUrl_root (cs : List Path.Str) (hcs : Path.NormalPath cs)
    (hmd : Path.endsMd (Path.renderNames cs) = false) :
    Path.fromRelLinkUrl (Path.renderNames cs) [] = Path.renderNames cs := by
  unfold Path.fromRelLinkUrl
  rw [Path.trimMd_of_not_endsMd _ hmd, comps_nil]
  unfold Path.renderNames
  rw [Path.comps_render _ (Path.clean_normals cs hcs), joinNormalized_nil_normals]

theorem keyFromFileName_eq_keyFromRel_root (cs : List Path.Str) (hcs : Path.NormalPath cs)
    (hmd : Path.endsMd (Path.renderNames cs) = false) :
    keyFromFileName (String.ofList (Path.renderNames cs))
      = keyFromRel (String.ofList (Path.renderNames cs)) "" := by
  unfold keyFromFileName keyFromRel Path.fromFileName
  rw [String.toList_ofList, empty_toList, fromRelLinkUrl_root cs hcs hmd,
    Path.trimMd_of_not_endsMd _ hmd]

/-! ### titles of missing notes -/

theorem titleOf_missing (lib : Library) (key : String) (hmiss : assocGet lib key = none) :
    Spec.titleOf lib key = none := by
  simp [Spec.titleOf, Spec.forestOf, hmiss]

end Links
end Iwe
