/- helper lemmas for C18 -/
import IweModel.Model.Paths
import IweModel.Lemmas.ArenaWalk

namespace Iwe

/-- consecutive elements are related by `r` -/
def ChainRel (r : Nat → Nat → Prop) : List Nat → Prop
  | [] => True
  | [_] => True
  | a :: b :: rest => r a b ∧ ChainRel r (b :: rest)

theorem ChainRel.singleton (r : Nat → Nat → Prop) (a : Nat) : ChainRel r [a] := trivial

/-- appending one element to a chain whose last element is related to it -/
theorem ChainRel.snoc {r : Nat → Nat → Prop} : ∀ {p : List Nat} {l x : Nat},
    ChainRel r p → p.getLast? = some l → r l x → ChainRel r (p ++ [x])
  | [], _, _, _, hl, _ => by simp at hl
  | [a], l, x, _, hl, hr => by
    simp at hl; subst hl
    exact ⟨hr, trivial⟩
  | a :: b :: rest, l, x, hc, hl, hr => by
    refine ⟨hc.1, ?_⟩
    have : (b :: rest).getLast? = some l := by
      simpa [List.getLast?_cons_cons] using hl
    exact ChainRel.snoc (p := b :: rest) hc.2 this hr

namespace Paths

/-! ## `pathLt` is a strict total order -/

theorem pathLt_irrefl : ∀ a : List Nat, pathLt a a = false
  | [] => rfl
  | x :: xs => by simp [pathLt, pathLt_irrefl xs]

theorem pathLt_trans : ∀ {a b c : List Nat}, pathLt a b = true → pathLt b c = true → pathLt a c = true
  | [], [], _, h, _ => by simp [pathLt] at h
  | [], _ :: _, [], _, h => by simp [pathLt] at h
  | [], _ :: _, _ :: _, _, _ => rfl
  | _ :: _, [], _, h, _ => by simp [pathLt] at h
  | _ :: _, _ :: _, [], _, h => by simp [pathLt] at h
  | x :: xs, y :: ys, z :: zs, h1, h2 => by
    simp only [pathLt, Bool.or_eq_true, Bool.and_eq_true, decide_eq_true_eq, beq_iff_eq] at h1 h2 ⊢
    rcases h1 with h1 | ⟨rfl, h1⟩
    · rcases h2 with h2 | ⟨rfl, _⟩
      · exact Or.inl (by omega)
      · exact Or.inl h1
    · rcases h2 with h2 | ⟨rfl, h2⟩
      · exact Or.inl h2
      · exact Or.inr ⟨rfl, pathLt_trans h1 h2⟩

theorem pathLt_total : ∀ (a b : List Nat), a ≠ b → pathLt a b = false → pathLt b a = true
  | [], [], h, _ => absurd rfl h
  | [], _ :: _, _, h => by simp [pathLt] at h
  | _ :: _, [], _, _ => rfl
  | x :: xs, y :: ys, hne, h => by
    simp only [pathLt, Bool.or_eq_false_iff, Bool.and_eq_false_iff, decide_eq_false_iff_not,
      beq_eq_false_iff_ne] at h
    simp only [pathLt, Bool.or_eq_true, Bool.and_eq_true, decide_eq_true_eq, beq_iff_eq]
    obtain ⟨h1, h2⟩ := h
    by_cases hxy : x = y
    · subst hxy
      refine Or.inr ⟨rfl, ?_⟩
      rcases h2 with h2 | h2
      · exact absurd rfl h2
      · exact pathLt_total xs ys (by intro h; exact hne (by rw [h])) h2
    · exact Or.inl (by omega)

theorem pathLt_asymm {a b : List Nat} (h1 : pathLt a b = true) (h2 : pathLt b a = true) : False := by
  have := pathLt_trans h1 h2
  rw [pathLt_irrefl] at this
  exact Bool.noConfusion this

/-! ## `insertSorted` / `sortDedup` -/

theorem mem_insertSorted {p x : List Nat} : ∀ {qs : List (List Nat)},
    x ∈ insertSorted p qs ↔ x = p ∨ x ∈ qs
  | [] => by simp [insertSorted]
  | q :: qs => by
    simp only [insertSorted]
    split
    · rename_i h
      have : p = q := by simpa using h
      subst this
      simp
    · split
      · simp
      · simp only [List.mem_cons, mem_insertSorted (qs := qs)]
        constructor
        · rintro (h | h | h) <;> simp [h]
        · rintro (h | h | h) <;> simp [h]

theorem mem_sortDedup {p : List Nat} : ∀ {ps : List (List Nat)}, p ∈ sortDedup ps ↔ p ∈ ps
  | [] => by simp [sortDedup]
  | q :: qs => by
    have ih := mem_sortDedup (p := p) (ps := qs)
    simp only [sortDedup, List.foldr_cons] at ih ⊢
    rw [mem_insertSorted, ih, List.mem_cons]

/-- strictly sorted -/
abbrev Sorted (l : List (List Nat)) : Prop := l.Pairwise (fun a b => pathLt a b = true)

theorem insertSorted_sorted (p : List Nat) : ∀ {qs : List (List Nat)}, Sorted qs → Sorted (insertSorted p qs)
  | [], _ => by simp [insertSorted, Sorted]
  | q :: qs, h => by
    simp only [insertSorted]
    have hq := List.pairwise_cons.1 h
    split
    · exact h
    · rename_i hne
      have hne' : p ≠ q := by simpa using hne
      split
      · rename_i hlt
        refine List.pairwise_cons.2 ⟨?_, h⟩
        intro x hx
        rcases List.mem_cons.1 hx with rfl | hx
        · exact hlt
        · exact pathLt_trans hlt (hq.1 x hx)
      · rename_i hlt
        have hqp : pathLt q p = true := pathLt_total p q hne' (by simpa using hlt)
        refine List.pairwise_cons.2 ⟨?_, insertSorted_sorted p hq.2⟩
        intro x hx
        rcases mem_insertSorted.1 hx with rfl | hx
        · exact hqp
        · exact hq.1 x hx

theorem sortDedup_sorted : ∀ (ps : List (List Nat)), Sorted (sortDedup ps)
  | [] => by simp [sortDedup, Sorted]
  | q :: qs => by
    have ih := sortDedup_sorted qs
    simp only [sortDedup, List.foldr_cons] at ih ⊢
    exact insertSorted_sorted q ih

theorem Sorted.nodup {l : List (List Nat)} (h : Sorted l) : l.Nodup := by
  refine List.Pairwise.imp ?_ h
  intro a b hab heq
  subst heq
  rw [pathLt_irrefl] at hab
  exact Bool.noConfusion hab

/-- a strictly sorted list is determined by its members -/
theorem Sorted.ext : ∀ {l1 l2 : List (List Nat)}, Sorted l1 → Sorted l2 → (∀ p, p ∈ l1 ↔ p ∈ l2) → l1 = l2
  | [], [], _, _, _ => rfl
  | [], b :: l2, _, _, h => by have := (h b).2 (by simp); simp at this
  | a :: l1, [], _, _, h => by have := (h a).1 (by simp); simp at this
  | a :: l1, b :: l2, h1, h2, h => by
    have h1' := List.pairwise_cons.1 h1
    have h2' := List.pairwise_cons.1 h2
    have hab : a = b := by
      rcases List.mem_cons.1 ((h a).1 (by simp)) with hab | ha
      · exact hab
      · rcases List.mem_cons.1 ((h b).2 (by simp)) with hba | hb
        · exact hba.symm
        · exact (pathLt_asymm (h1'.1 b hb) (h2'.1 a ha)).elim
    subst hab
    congr 1
    refine Sorted.ext h1'.2 h2'.2 ?_
    intro p
    constructor
    · intro hp
      rcases List.mem_cons.1 ((h p).1 (List.mem_cons_of_mem _ hp)) with rfl | hp'
      · have := h1'.1 p hp
        rw [pathLt_irrefl] at this
        exact Bool.noConfusion this
      · exact hp'
    · intro hp
      rcases List.mem_cons.1 ((h p).2 (List.mem_cons_of_mem _ hp)) with rfl | hp'
      · have := h2'.1 p hp
        rw [pathLt_irrefl] at this
        exact Bool.noConfusion this
      · exact hp'

/-! ## stable insertion sort -/

section Stable
variable {α : Type} (before : α → α → Bool)

theorem insertStable_perm (x : α) : ∀ l : List α, (insertStable before x l).Perm (x :: l)
  | [] => by simp [insertStable]
  | y :: ys => by
    simp only [insertStable]
    split
    · exact ((insertStable_perm x ys).cons y).trans (List.Perm.swap x y ys)
    · exact List.Perm.refl _

theorem foldl_insertStable_perm : ∀ (xs acc : List α),
    (xs.foldl (fun acc x => insertStable before x acc) acc).Perm (xs ++ acc)
  | [], acc => by simp
  | x :: xs, acc => by
    simp only [List.foldl_cons]
    refine (foldl_insertStable_perm xs _).trans ?_
    refine ((insertStable_perm before x acc).append_left xs).trans ?_
    simp only [List.cons_append]
    exact List.perm_middle

theorem sortStable_perm (xs : List α) : (sortStable before xs).Perm xs := by
  simpa [sortStable] using foldl_insertStable_perm before xs []

/-- sortedness of the result of a stable sort: no later element comes strictly before an earlier one -/
abbrev StSorted (l : List α) : Prop := l.Pairwise (fun a b => before b a = false)

variable {before}

theorem insertStable_sorted (hasym : ∀ a b, before a b = true → before b a = false)
    (htrans : ∀ a b c, before a b = true → before b c = true → before a c = true) (x : α) :
    ∀ {l : List α}, StSorted before l → StSorted before (insertStable before x l)
  | [], _ => by simp [insertStable, StSorted]
  | y :: ys, h => by
    simp only [insertStable]
    have hy := List.pairwise_cons.1 h
    split
    · rename_i hc
      refine List.pairwise_cons.2 ⟨?_, insertStable_sorted hasym htrans x hy.2⟩
      intro z hz
      rcases List.mem_cons.1 ((insertStable_perm before x ys).mem_iff.1 hz) with rfl | hz
      · simp only [Bool.or_eq_true, Bool.not_eq_true'] at hc
        rcases hc with hc | hc
        · exact hasym _ _ hc
        · exact hc
      · exact hy.1 z hz
    · rename_i hc
      simp only [Bool.or_eq_true, Bool.not_eq_true', not_or, Bool.not_eq_true, Bool.not_eq_false] at hc
      refine List.pairwise_cons.2 ⟨?_, h⟩
      intro z hz
      rcases List.mem_cons.1 hz with rfl | hz
      · exact hc.1
      · cases hzx : before z x with
        | false => rfl
        | true =>
          have := htrans _ _ _ hzx hc.2
          rw [hy.1 z hz] at this
          exact Bool.noConfusion this

theorem foldl_insertStable_sorted (hasym : ∀ a b, before a b = true → before b a = false)
    (htrans : ∀ a b c, before a b = true → before b c = true → before a c = true) :
    ∀ (xs acc : List α), StSorted before acc →
      StSorted before (xs.foldl (fun acc x => insertStable before x acc) acc)
  | [], _, h => h
  | x :: xs, acc, h => by
    simp only [List.foldl_cons]
    exact foldl_insertStable_sorted hasym htrans xs _ (insertStable_sorted hasym htrans x h)

theorem sortStable_sorted (hasym : ∀ a b, before a b = true → before b a = false)
    (htrans : ∀ a b c, before a b = true → before b c = true → before a c = true) (xs : List α) :
    StSorted before (sortStable before xs) :=
  foldl_insertStable_sorted hasym htrans xs [] List.Pairwise.nil

end Stable

end Paths
/-! ## `to_parent` on the closed-form layout -/

namespace Arena

/-- the list `L` sits in the arena `a` at offset `b` -/
def Emb (a : List GNode) (b : Nat) (L : List GNode) : Prop :=
  ∀ k, k < L.length → get a (b + k) = get L k

theorem emb_of_split {pre mid post : List GNode} {b : Nat} (hb : pre.length = b) :
    Emb (pre ++ mid ++ post) b mid := fun _ hk => get_embed hb hk

theorem Emb.head {a : List GNode} {b : Nat} {x : GNode} {X : List GNode} (h : Emb a b (x :: X)) :
    get a b = x := by
  have := h 0 (by simp)
  simpa [get] using this

theorem Emb.tail {a : List GNode} {b : Nat} {x : GNode} {X : List GNode} (h : Emb a b (x :: X)) :
    Emb a (b + 1) X := by
  intro k hk
  have := h (k + 1) (by simp; omega)
  rw [show b + 1 + k = b + (k + 1) by omega, this]
  simp [get]

theorem Emb.right {a : List GNode} {b : Nat} {X Y : List GNode} (h : Emb a b (X ++ Y)) :
    Emb a (b + X.length) Y := by
  intro k hk
  have := h (X.length + k) (by simp; omega)
  rw [Nat.add_assoc, this]
  simp only [get, List.getD_eq_getElem?_getD]
  rw [List.getElem?_append_right (by omega)]
  simp

theorem sizes_append : ∀ (xs ys : List BTree), sizes (xs ++ ys) = sizes xs + sizes ys
  | [], ys => by simp [sizes]
  | x :: xs, ys => by simp [sizes, sizes_append xs ys]; omega

theorem length_le_sizes : ∀ (xs : List BTree), xs.length ≤ sizes xs
  | [] => by simp
  | x :: xs => by have := size_pos x; have := length_le_sizes xs; simp [sizes]; omega

/-- the tail forest after the first tree is embedded too -/
theorem Emb.forest_tail {a : List GNode} {b p : Nat} {n : Node} {lr : Option LineRange}
    {cs ts : List BTree} (h : Emb a b (layoutForest b p (BTree.mk n lr cs :: ts))) :
    Emb a (b + (1 + sizes cs)) (layoutForest (b + (1 + sizes cs)) b ts) := by
  rw [layoutForest_cons] at h
  have := h.tail.right
  rw [length_layoutForest] at this
  rw [show b + 1 + sizes cs = b + (1 + sizes cs) by omega] at this
  exact this

theorem Emb.forest_head {a : List GNode} {b p : Nat} {n : Node} {lr : Option LineRange}
    {cs ts : List BTree} (h : Emb a b (layoutForest b p (BTree.mk n lr cs :: ts))) :
    get a b = GNode.node b p (firstPtr (b + (1 + sizes cs)) ts) (firstPtr (b + 1) cs) n := by
  rw [layoutForest_cons] at h
  exact h.head

/-- the root of the tree after `pre` in an embedded forest -/
theorem get_forest_root : ∀ (pre : List BTree) (b p : Nat) (n : Node) (lr : Option LineRange)
    (cs rest : List BTree) (a : List GNode),
    Emb a b (layoutForest b p (pre ++ BTree.mk n lr cs :: rest)) →
    ∃ pr nx ch, get a (b + sizes pre) = GNode.node (b + sizes pre) pr nx ch n
  | [], b, p, n, lr, cs, rest, a, h => by
    simp only [List.nil_append] at h
    exact ⟨_, _, _, by simpa [sizes] using h.forest_head⟩
  | BTree.mk n0 lr0 cs0 :: pre, b, p, n, lr, cs, rest, a, h => by
    simp only [List.cons_append] at h
    obtain ⟨pr, nx, ch, hg⟩ := get_forest_root pre _ _ n lr cs rest a h.forest_tail
    refine ⟨pr, nx, ch, ?_⟩
    simp only [sizes, size]
    rw [show b + (1 + sizes cs0 + sizes pre) = b + (1 + sizes cs0) + sizes pre by omega]
    exact hg

/-- `to_parent` from the root after `pre` walks back over the `pre.length` previous siblings -/
theorem toParent_forest_walk : ∀ (pre : List BTree) (b p : Nat) (t : BTree) (rest : List BTree)
    (a : List GNode) (fuel : Nat),
    Emb a b (layoutForest b p (pre ++ t :: rest)) →
    toParent a (fuel + pre.length) (b + sizes pre) = toParent a fuel b
  | [], b, p, t, rest, a, fuel, _ => by simp [sizes]
  | BTree.mk n0 lr0 cs0 :: pre, b, p, t, rest, a, fuel, h => by
    simp only [List.cons_append] at h
    have ih := toParent_forest_walk pre _ _ t rest a (fuel + 1) h.forest_tail
    simp only [sizes, size, List.length_cons]
    rw [show fuel + (pre.length + 1) = fuel + 1 + pre.length by omega,
      show b + (1 + sizes cs0 + sizes pre) = b + (1 + sizes cs0) + sizes pre by omega, ih]
    -- one step from the first root of the tail forest back to `b`
    have hb := h.forest_head
    have ht := h.forest_tail
    cases hts : pre ++ t :: rest with
    | nil => simp at hts
    | cons t1 ts1 =>
      cases t1 with
      | mk n1 lr1 cs1 =>
        rw [hts] at ht
        have h1 := ht.forest_head
        rw [toParent, h1]
        simp only [GNode.prev?, hb, GNode.child?]
        have hne : firstPtr (b + 1) cs0 ≠ some (b + (1 + sizes cs0)) := by
          cases cs0 with
          | nil => simp [firstPtr]
          | cons c cs0' =>
            have := size_pos c
            simp [firstPtr, sizes]; omega
        rw [if_neg hne]

theorem toParent_forest_first {a : List GNode} {b p : Nat} {t : BTree} {ts : List BTree} (fuel : Nat)
    (h : Emb a b (layoutForest b p (t :: ts))) (hp : (get a p).child? = some b) :
    toParent a (fuel + 1) b = some p := by
  cases t with
  | mk n lr cs =>
    rw [toParent, h.forest_head]
    simp [GNode.prev?, hp]

end Arena

/-- a top-level block of a note: its node and its parent -/
theorem Seg.top_block {a pre0 post : List GNode} {s : Seg} (ha : a = pre0 ++ s.nodes ++ post)
    (hb : pre0.length = s.base) {pre rest cs : List BTree} {n : Node} {lr : Option LineRange}
    (hf : s.forest = pre ++ BTree.mk n lr cs :: rest) :
    (∃ pr nx ch, Arena.get a (s.base + 1 + Arena.sizes pre) = GNode.node (s.base + 1 + Arena.sizes pre) pr nx ch n)
    ∧ (∃ ch, Arena.get a s.base = GNode.document s.base ch s.key)
    ∧ ∀ fuel, pre.length + 1 ≤ fuel → Arena.toParent a fuel (s.base + 1 + Arena.sizes pre) = some s.base := by
  have hE : Arena.Emb a s.base s.nodes := by rw [ha]; exact Arena.emb_of_split hb
  simp only [Seg.nodes, Arena.layoutDoc_eq, hf] at hE
  have hdoc := hE.head
  have hF := hE.tail
  refine ⟨Arena.get_forest_root pre _ _ n lr cs rest a hF, ⟨_, hdoc⟩, ?_⟩
  intro fuel hfuel
  obtain ⟨f, rfl⟩ : ∃ f, fuel = f + 1 + pre.length := ⟨fuel - 1 - pre.length, by omega⟩
  rw [Arena.toParent_forest_walk pre _ _ _ rest a (f + 1) hF]
  cases hpre : pre ++ BTree.mk n lr cs :: rest with
  | nil => simp at hpre
  | cons t1 ts1 =>
    rw [hpre] at hF hdoc
    exact Arena.toParent_forest_first f hF (by simp [hdoc, GNode.child?, Arena.firstPtr])
end Iwe
