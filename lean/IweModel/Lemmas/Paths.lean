/- helper lemmas for C18 -/
import IweModel.Model.Paths
import IweModel.Lemmas.ArenaWalk

namespace Iwe

/-- consecutive elements are related by `r` -/
def ChainRel (r : Nat → Nat → Prop) : List Nat → Prop
  | [] => True
  | [_] => True
  | a :: b :: rest => r a b ∧ ChainRel r (b :: rest)

theorem ChainRel.singleton (r : Nat → Nat → Prop) (a : Nat) : ChainRel r [a] := trivial

/-- appending one element to a chain whose last element is related to it -/
theorem ChainRel.snoc {r : Nat → Nat → Prop} : ∀ {p : List Nat} {l x : Nat},
    ChainRel r p → p.getLast? = some l → r l x → ChainRel r (p ++ [x])
  | [], _, _, _, hl, _ => by simp at hl
  | [a], l, x, _, hl, hr => by
    simp at hl; subst hl
    exact ⟨hr, trivial⟩
  | a :: b :: rest, l, x, hc, hl, hr => by
    refine ⟨hc.1, ?_⟩
    have : (b :: rest).getLast? = some l := by
      simpa [List.getLast?_cons_cons] using hl
    exact ChainRel.snoc (p := b :: rest) hc.2 this hr

namespace Paths

/-! ## `pathLt` is a strict total order -/

theorem pathLt_irrefl : ∀ a : List Nat, pathLt a a = false
  | [] => rfl
  | x :: xs => by simp [pathLt, pathLt_irrefl xs]

theorem pathLt_trans : ∀ {a b c : List Nat}, pathLt a b = true → pathLt b c = true → pathLt a c = true
  | [], [], _, h, _ => by simp [pathLt] at h
  | [], _ :: _, [], _, h => by simp [pathLt] at h
  | [], _ :: _, _ :: _, _, _ => rfl
  | _ :: _, [], _, h, _ => by simp [pathLt] at h
  | _ :: _, _ :: _, [], _, h => by simp [pathLt] at h
  | x :: xs, y :: ys, z :: zs, h1, h2 => by
    simp only [pathLt, Bool.or_eq_true, Bool.and_eq_true, decide_eq_true_eq, beq_iff_eq] at h1 h2 ⊢
    rcases h1 with h1 | ⟨rfl, h1⟩
    · rcases h2 with h2 | ⟨rfl, _⟩
      · exact Or.inl (by omega)
      · exact Or.inl h1
    · rcases h2 with h2 | ⟨rfl, h2⟩
      · exact Or.inl h2
      · exact Or.inr ⟨rfl, pathLt_trans h1 h2⟩

theorem pathLt_total : ∀ (a b : List Nat), a ≠ b → pathLt a b = false → pathLt b a = true
  | [], [], h, _ => absurd rfl h
  | [], _ :: _, _, h => by simp [pathLt] at h
  | _ :: _, [], _, _ => rfl
  | x :: xs, y :: ys, hne, h => by
    simp only [pathLt, Bool.or_eq_false_iff, Bool.and_eq_false_iff, decide_eq_false_iff_not,
      beq_eq_false_iff_ne] at h
    simp only [pathLt, Bool.or_eq_true, Bool.and_eq_true, decide_eq_true_eq, beq_iff_eq]
    obtain ⟨h1, h2⟩ := h
    by_cases hxy : x = y
    · subst hxy
      refine Or.inr ⟨rfl, ?_⟩
      rcases h2 with h2 | h2
      · exact absurd rfl h2
      · exact pathLt_total xs ys (by intro h; exact hne (by rw [h])) h2
    · exact Or.inl (by omega)

theorem pathLt_asymm {a b : List Nat} (h1 : pathLt a b = true) (h2 : pathLt b a = true) : False := by
  have := pathLt_trans h1 h2
  rw [pathLt_irrefl] at this
  exact Bool.noConfusion this

/-! ## `insertSorted` / `sortDedup` -/

theorem mem_insertSorted {p x : List Nat} : ∀ {qs : List (List Nat)},
    x ∈ insertSorted p qs ↔ x = p ∨ x ∈ qs
  | [] => by simp [insertSorted]
  | q :: qs => by
    simp only [insertSorted]
    split
    · rename_i h
      have : p = q := by simpa using h
      subst this
      simp
    · split
      · simp
      · simp only [List.mem_cons, mem_insertSorted (qs := qs)]
        constructor
        · rintro (h | h | h) <;> simp [h]
        · rintro (h | h | h) <;> simp [h]

theorem mem_sortDedup {p : List Nat} : ∀ {ps : List (List Nat)}, p ∈ sortDedup ps ↔ p ∈ ps
  | [] => by simp [sortDedup]
  | q :: qs => by
    have ih := mem_sortDedup (p := p) (ps := qs)
    simp only [sortDedup, List.foldr_cons] at ih ⊢
    rw [mem_insertSorted, ih, List.mem_cons]

/-- strictly sorted -/
abbrev Sorted (l : List (List Nat)) : Prop := l.Pairwise (fun a b => pathLt a b = true)

theorem insertSorted_sorted (p : List Nat) : ∀ {qs : List (List Nat)}, Sorted qs → Sorted (insertSorted p qs)
  | [], _ => by simp [insertSorted, Sorted]
  | q :: qs, h => by
    simp only [insertSorted]
    have hq := List.pairwise_cons.1 h
    split
    · exact h
    · rename_i hne
      have hne' : p ≠ q := by simpa using hne
      split
      · rename_i hlt
        refine List.pairwise_cons.2 ⟨?_, h⟩
        intro x hx
        rcases List.mem_cons.1 hx with rfl | hx
        · exact hlt
        · exact pathLt_trans hlt (hq.1 x hx)
      · rename_i hlt
        have hqp : pathLt q p = true := pathLt_total p q hne' (by simpa using hlt)
        refine List.pairwise_cons.2 ⟨?_, insertSorted_sorted p hq.2⟩
        intro x hx
        rcases mem_insertSorted.1 hx with rfl | hx
        · exact hqp
        · exact hq.1 x hx

theorem sortDedup_sorted : ∀ (ps : List (List Nat)), Sorted (sortDedup ps)
  | [] => by simp [sortDedup, Sorted]
  | q :: qs => by
    have ih := sortDedup_sorted qs
    simp only [sortDedup, List.foldr_cons] at ih ⊢
    exact insertSorted_sorted q ih

theorem Sorted.nodup {l : List (List Nat)} (h : Sorted l) : l.Nodup := by
  refine List.Pairwise.imp ?_ h
  intro a b hab heq
  subst heq
  rw [pathLt_irrefl] at hab
  exact Bool.noConfusion hab

/-- a strictly sorted list is determined by its members -/
theorem Sorted.ext : ∀ {l1 l2 : List (List Nat)}, Sorted l1 → Sorted l2 → (∀ p, p ∈ l1 ↔ p ∈ l2) → l1 = l2
  | [], [], _, _, _ => rfl
  | [], b :: l2, _, _, h => by have := (h b).2 (by simp); simp at this
  | a :: l1, [], _, _, h => by have := (h a).1 (by simp); simp at this
  | a :: l1, b :: l2, h1, h2, h => by
    have h1' := List.pairwise_cons.1 h1
    have h2' := List.pairwise_cons.1 h2
    have hab : a = b := by
      rcases List.mem_cons.1 ((h a).1 (by simp)) with hab | ha
      · exact hab
      · rcases List.mem_cons.1 ((h b).2 (by simp)) with hba | hb
        · exact hba.symm
        · exact (pathLt_asymm (h1'.1 b hb) (h2'.1 a ha)).elim
    subst hab
    congr 1
    refine Sorted.ext h1'.2 h2'.2 ?_
    intro p
    constructor
    · intro hp
      rcases List.mem_cons.1 ((h p).1 (List.mem_cons_of_mem _ hp)) with rfl | hp'
      · have := h1'.1 p hp
        rw [pathLt_irrefl] at this
        exact Bool.noConfusion this
      · exact hp'
    · intro hp
      rcases List.mem_cons.1 ((h p).2 (List.mem_cons_of_mem _ hp)) with rfl | hp'
      · have := h2'.1 p hp
        rw [pathLt_irrefl] at this
        exact Bool.noConfusion this
      · exact hp'

/-! ## stable insertion sort -/

section Stable
variable {α : Type} (before : α → α → Bool)

theorem insertStable_perm (x : α) : ∀ l : List α, (insertStable before x l).Perm (x :: l)
  | [] => by simp [insertStable]
  | y :: ys => by
    simp only [insertStable]
    split
    · exact ((insertStable_perm x ys).cons y).trans (List.Perm.swap x y ys)
    · exact List.Perm.refl _

theorem foldl_insertStable_perm : ∀ (xs acc : List α),
    (xs.foldl (fun acc x => insertStable before x acc) acc).Perm (xs ++ acc)
  | [], acc => by simp
  | x :: xs, acc => by
    simp only [List.foldl_cons]
    refine (foldl_insertStable_perm xs _).trans ?_
    refine ((insertStable_perm before x acc).append_left xs).trans ?_
    simp only [List.cons_append]
    exact List.perm_middle

theorem sortStable_perm (xs : List α) : (sortStable before xs).Perm xs := by
  simpa [sortStable] using foldl_insertStable_perm before xs []

/-- sortedness of the result of a stable sort: no later element comes strictly before an earlier one -/
abbrev StSorted (l : List α) : Prop := l.Pairwise (fun a b => before b a = false)

variable {before}

theorem insertStable_sorted (hasym : ∀ a b, before a b = true → before b a = false)
    (htrans : ∀ a b c, before a b = true → before b c = true → before a c = true) (x : α) :
    ∀ {l : List α}, StSorted before l → StSorted before (insertStable before x l)
  | [], _ => by simp [insertStable, StSorted]
  | y :: ys, h => by
    simp only [insertStable]
    have hy := List.pairwise_cons.1 h
    split
    · rename_i hc
      refine List.pairwise_cons.2 ⟨?_, insertStable_sorted hasym htrans x hy.2⟩
      intro z hz
      rcases List.mem_cons.1 ((insertStable_perm before x ys).mem_iff.1 hz) with rfl | hz
      · simp only [Bool.or_eq_true, Bool.not_eq_true'] at hc
        rcases hc with hc | hc
        · exact hasym _ _ hc
        · exact hc
      · exact hy.1 z hz
    · rename_i hc
      simp only [Bool.or_eq_true, Bool.not_eq_true', not_or, Bool.not_eq_true, Bool.not_eq_false] at hc
      refine List.pairwise_cons.2 ⟨?_, h⟩
      intro z hz
      rcases List.mem_cons.1 hz with rfl | hz
      · exact hc.1
      · cases hzx : before z x with
        | false => rfl
        | true =>
          have := htrans _ _ _ hzx hc.2
          rw [hy.1 z hz] at this
          exact Bool.noConfusion this

theorem foldl_insertStable_sorted (hasym : ∀ a b, before a b = true → before b a = false)
    (htrans : ∀ a b c, before a b = true → before b c = true → before a c = true) :
    ∀ (xs acc : List α), StSorted before acc →
      StSorted before (xs.foldl (fun acc x => insertStable before x acc) acc)
  | [], _, h => h
  | x :: xs, acc, h => by
    simp only [List.foldl_cons]
    exact foldl_insertStable_sorted hasym htrans xs _ (insertStable_sorted hasym htrans x h)

theorem sortStable_sorted (hasym : ∀ a b, before a b = true → before b a = false)
    (htrans : ∀ a b c, before a b = true → before b c = true → before a c = true) (xs : List α) :
    StSorted before (sortStable before xs) :=
  foldl_insertStable_sorted hasym htrans xs [] List.Pairwise.nil

end Stable

end Paths
end Iwe
