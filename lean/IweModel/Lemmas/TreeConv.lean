/- helper lemmas for C10: list / section conversions -/
import IweModel.Lemmas.TreeBasic

namespace Iwe
namespace Tree

/-! ### `changeListType` -/

theorem flipList_flipList (n : Node) : flipList (flipList n) = n := by
  cases n <;> rfl

theorem isContainerOnly_flipList (n : Node) :
    Content.isContainerOnly (flipList n) = Content.isContainerOnly n := by
  cases n <;> rfl

theorem flipList_of_not_container (n : Node) (h : Content.isContainerOnly n = false) : flipList n = n := by
  cases n <;> first | rfl | cases h

mutual
theorem changeListType_invol (i : Nat) : (t : Tree) → changeListType i (changeListType i t) = t
  | .mk id n cs => by
    by_cases h : id = some i
    · simp [changeListType, h, flipList_flipList]
    · simp [changeListType, h, changeListTypeL_invol i cs]
theorem changeListTypeL_invol (i : Nat) : (cs : List Tree) → changeListTypeL i (changeListTypeL i cs) = cs
  | [] => by simp [changeListTypeL]
  | t :: ts => by simp [changeListTypeL, changeListType_invol i t, changeListTypeL_invol i ts]
end

mutual
theorem ofTree_changeListType (i : Nat) : (t : Tree) → Content.ofTree (changeListType i t) = Content.ofTree t
  | .mk id n cs => by
    by_cases h : id = some i
    · simp only [changeListType, h, beq_self_eq_true, if_true, Content.ofTree, isContainerOnly_flipList]
      cases hc : Content.isContainerOnly n
      · simp [flipList_of_not_container n hc]
      · simp
    · simp [changeListType, h, Content.ofTree, ofForest_changeListTypeL i cs]
theorem ofForest_changeListTypeL (i : Nat) : (cs : List Tree) →
    Content.ofForest (changeListTypeL i cs) = Content.ofForest cs
  | [] => by simp [changeListTypeL]
  | t :: ts => by
    simp [changeListTypeL, Content.ofForest, ofTree_changeListType i t, ofForest_changeListTypeL i ts]
end

mutual
theorem changeListType_frame (i : Nat) : (t : Tree) → contains i t = false → changeListType i t = t
  | .mk id n cs, h => by
    simp only [contains, Bool.or_eq_false_iff] at h
    simp [changeListType, h.1, changeListTypeL_frame i cs h.2]
theorem changeListTypeL_frame (i : Nat) : (cs : List Tree) → containsL i cs = false → changeListTypeL i cs = cs
  | [], _ => by simp [changeListTypeL]
  | t :: ts, h => by
    simp only [containsL, Bool.or_eq_false_iff] at h
    simp [changeListTypeL, changeListType_frame i t h.1, changeListTypeL_frame i ts h.2]
end

/-! ### `wrapIntoList` -/

mutual
theorem ofTree_wrapIntoList (i : Nat) : (t : Tree) → Content.ofTree (wrapIntoList i t) = Content.ofTree t
  | .mk id n cs => by
    by_cases h : id = some i
    · simp [wrapIntoList, h, Content.ofTree, Content.ofForest, Content.isContainerOnly]
    · simp [wrapIntoList, h, Content.ofTree, ofForest_wrapIntoListL i cs]
theorem ofForest_wrapIntoListL (i : Nat) : (cs : List Tree) →
    Content.ofForest (wrapIntoListL i cs) = Content.ofForest cs
  | [] => by simp [wrapIntoListL]
  | t :: ts => by
    simp [wrapIntoListL, Content.ofForest, ofTree_wrapIntoList i t, ofForest_wrapIntoListL i ts]
end

mutual
theorem wrapIntoList_frame (i : Nat) : (t : Tree) → contains i t = false → wrapIntoList i t = t
  | .mk id n cs, h => by
    simp only [contains, Bool.or_eq_false_iff] at h
    simp [wrapIntoList, h.1, wrapIntoListL_frame i cs h.2]
theorem wrapIntoListL_frame (i : Nat) : (cs : List Tree) → containsL i cs = false → wrapIntoListL i cs = cs
  | [], _ => by simp [wrapIntoListL]
  | t :: ts, h => by
    simp only [containsL, Bool.or_eq_false_iff] at h
    simp [wrapIntoListL, wrapIntoList_frame i t h.1, wrapIntoListL_frame i ts h.2]
end

mutual
theorem size_wrapIntoList (i : Nat) : (t : Tree) → (ids t).Nodup → contains i t = true →
    size (wrapIntoList i t) = size t + 1
  | .mk id n cs, hn, hc => by
    by_cases h : id = some i
    · simp [wrapIntoList, h, size, sizeL]; omega
    · have hn' : (idsL cs).Nodup := by
        simp only [ids] at hn; exact (List.nodup_append.mp hn).2.1
      have hc' : containsL i cs = true := by simpa [contains, h] using hc
      simp [wrapIntoList, h, size, sizeL_wrapIntoListL i cs hn' hc']; omega
theorem sizeL_wrapIntoListL (i : Nat) : (cs : List Tree) → (idsL cs).Nodup → containsL i cs = true →
    sizeL (wrapIntoListL i cs) = sizeL cs + 1
  | [], _, hc => by simp [containsL] at hc
  | t :: ts, hn, hc => by
    simp only [idsL] at hn
    obtain ⟨hn1, hn2, hdis⟩ := List.nodup_append.mp hn
    simp only [wrapIntoListL, sizeL]
    cases ht : contains i t with
    | true =>
      have hmem : i ∈ ids t := (contains_iff i t).mp ht
      have hnot : containsL i ts = false := by
        rw [containsL_false_iff]; intro hm; exact hdis i hmem i hm rfl
      rw [size_wrapIntoList i t hn1 ht, wrapIntoListL_frame i ts hnot]; omega
    | false =>
      have hc' : containsL i ts = true := by simpa [containsL, ht] using hc
      rw [wrapIntoList_frame i t ht, sizeL_wrapIntoListL i ts hn2 hc']; omega
end

/-! ### `unwrapList` -/

theorem spliceL_eq_unwrapListL (i : Nat) : (cs : List Tree) → anyIdEq i cs = false →
    spliceL i cs = unwrapListL i cs
  | [], _ => by simp [spliceL, unwrapListL]
  | t :: ts, h => by
    simp only [anyIdEq, Bool.or_eq_false_iff] at h
    simp [spliceL, unwrapListL, h.1, spliceL_eq_unwrapListL i ts h.2]

/-- the children of `unwrapList i (mk id n cs)` are always `spliceL i cs` -/
theorem unwrapList_mk (i : Nat) (id : Option Nat) (n : Node) (cs : List Tree) :
    unwrapList i (.mk id n cs) = .mk id n (spliceL i cs) := by
  simp only [unwrapList]
  cases h : anyIdEq i cs with
  | true => simp
  | false => simp [spliceL_eq_unwrapListL i cs h]

mutual
theorem unwrapList_frame (i : Nat) : (t : Tree) → contains i t = false → unwrapList i t = t
  | .mk id n cs, h => by
    simp only [contains, Bool.or_eq_false_iff] at h
    rw [unwrapList_mk, spliceL_frame i cs h.2]
theorem spliceL_frame (i : Nat) : (cs : List Tree) → containsL i cs = false → spliceL i cs = cs
  | [], _ => by simp [spliceL]
  | .mk id n cs :: ts, h => by
    simp only [containsL, Bool.or_eq_false_iff] at h
    have h1 := h.1
    simp only [contains, Bool.or_eq_false_iff] at h1
    simp [spliceL, h1.1, unwrapList_frame i (.mk id n cs) h.1, spliceL_frame i ts h.2]
end

mutual
/-- un-wrapping what `wrapIntoList` wrapped gives the tree back (no uniqueness of ids needed) -/
theorem unwrapList_wrapIntoList (i : Nat) : (t : Tree) → t.id ≠ some i →
    unwrapList i (wrapIntoList i t) = t
  | .mk id n cs, h => by
    have h' : id ≠ some i := h
    simp only [wrapIntoList, beq_iff_eq, h', if_false]
    rw [unwrapList_mk, spliceL_wrapIntoListL i cs]
theorem spliceL_wrapIntoListL (i : Nat) : (cs : List Tree) → spliceL i (wrapIntoListL i cs) = cs
  | [] => by simp [wrapIntoListL, spliceL]
  | .mk id n cs :: ts => by
    simp only [wrapIntoListL, spliceL, spliceL_wrapIntoListL i ts]
    by_cases h : id = some i
    · simp [wrapIntoList, h]
    · have := unwrapList_wrapIntoList i (.mk id n cs) h
      simp only [wrapIntoList, beq_iff_eq, h, if_false] at this ⊢
      simp [this, h]
end

mutual
/-- every node with id `i` is a list node (the root is not looked at: `unwrapList` never removes it) -/
def idIsListL (i : Nat) : List Tree → Bool
  | [] => true
  | t :: ts => idIsListT i t && idIsListL i ts
def idIsListT (i : Nat) : Tree → Bool
  | .mk id n cs => (!(id == some i) || n.isList) && idIsListL i cs
end

theorem isContainerOnly_of_isList {n : Node} (h : n.isList = true) : Content.isContainerOnly n = true := by
  cases n <;> first | rfl | cases h

theorem ofForest_append (a b : List Tree) :
    Content.ofForest (a ++ b) = Content.ofForest a ++ Content.ofForest b := by
  induction a with
  | nil => simp [Content.ofForest]
  | cons x xs ih => simp [Content.ofForest, ih]

mutual
theorem ofTree_unwrapList (i : Nat) : (t : Tree) → idIsListL i t.children = true →
    Content.ofTree (unwrapList i t) = Content.ofTree t
  | .mk id n cs, h => by
    rw [unwrapList_mk]
    simp only [Content.ofTree, ofForest_spliceL i cs h]
theorem ofForest_spliceL (i : Nat) : (cs : List Tree) → idIsListL i cs = true →
    Content.ofForest (spliceL i cs) = Content.ofForest cs
  | [], _ => by simp [spliceL]
  | .mk id n cs :: ts, h => by
    simp only [idIsListL, idIsListT, Bool.and_eq_true, Bool.or_eq_true, Bool.not_eq_true'] at h
    obtain ⟨⟨h1, h2⟩, h3⟩ := h
    simp only [spliceL, ofForest_append, ofForest_spliceL i ts h3, Content.ofForest]
    by_cases hid : id = some i
    · have hl : n.isList = true := by
        rcases h1 with h1 | h1
        · simp [hid] at h1
        · exact h1
      simp [hid, Content.ofTree, isContainerOnly_of_isList hl]
    · have := ofTree_unwrapList i (.mk id n cs) h2
      simp [hid, Content.ofForest, this]
end

mutual
theorem idIsListT_of_not_mem (i : Nat) : (t : Tree) → i ∉ ids t → idIsListT i t = true
  | .mk id n cs, h => by
    simp only [ids, List.mem_append, not_or] at h
    have h1 : id ≠ some i := by
      intro he; subst he; simp at h
    simp [idIsListT, h1, idIsListL_of_not_mem i cs h.2]
theorem idIsListL_of_not_mem (i : Nat) : (cs : List Tree) → i ∉ idsL cs → idIsListL i cs = true
  | [], _ => by simp [idIsListL]
  | t :: ts, h => by
    simp only [idsL, List.mem_append, not_or] at h
    simp [idIsListL, idIsListT_of_not_mem i t h.1, idIsListL_of_not_mem i ts h.2]
end

mutual
/-- with unique ids, "the node found under id `i` is a list" says that every node with id `i` is -/
theorem idIsListT_of_find (i : Nat) : (t : Tree) → (ids t).Nodup →
    (∀ lt, find i t = some lt → lt.node.isList = true) → idIsListT i t = true
  | .mk id n cs, hn, hf => by
    simp only [ids] at hn
    obtain ⟨_, hn2, hdis⟩ := List.nodup_append.mp hn
    by_cases hid : id = some i
    · have hl : n.isList = true := by
        have := hf (.mk id n cs) (by simp [find, hid])
        simpa using this
      have hnot : i ∉ idsL cs := by
        intro hm; exact hdis i (by simp [hid]) i hm rfl
      simp [idIsListT, hl, idIsListL_of_not_mem i cs hnot]
    · have hf' : ∀ lt, findL i cs = some lt → lt.node.isList = true := by
        intro lt h; exact hf lt (by simp [find, hid, h])
      simp [idIsListT, hid, idIsListL_of_find i cs hn2 hf']
theorem idIsListL_of_find (i : Nat) : (cs : List Tree) → (idsL cs).Nodup →
    (∀ lt, findL i cs = some lt → lt.node.isList = true) → idIsListL i cs = true
  | [], _, _ => by simp [idIsListL]
  | t :: ts, hn, hf => by
    simp only [idsL] at hn
    obtain ⟨hn1, hn2, hdis⟩ := List.nodup_append.mp hn
    simp only [idIsListL, Bool.and_eq_true]
    cases hft : find i t with
    | some r =>
      have hmem : i ∈ ids t := find_some_mem hft
      have hnot : i ∉ idsL ts := fun hm => hdis i hmem i hm rfl
      refine ⟨idIsListT_of_find i t hn1 ?_, idIsListL_of_not_mem i ts hnot⟩
      intro lt h; exact hf lt (by simp [findL, h])
    | none =>
      have hnot : i ∉ ids t := by
        rw [← contains_false_iff, ← find_eq_none_iff]; exact hft
      refine ⟨idIsListT_of_not_mem i t hnot, idIsListL_of_find i ts hn2 ?_⟩
      intro lt h; exact hf lt (by simp [findL, hft, h])
end

/-! ### scope selection: `surroundingListId`, `topLevelSurroundingListId` -/

mutual
theorem surroundingListId_spec (i l : Nat) : (t : Tree) → (ids t).Nodup → surroundingListId i t = some l →
    ∃ lt, find l t = some lt ∧ lt.node.isList = true ∧ anyIdEq i lt.children = true
  | .mk id n cs, hn, h => by
    simp only [ids] at hn
    obtain ⟨_, hn2, hdis⟩ := List.nodup_append.mp hn
    simp only [surroundingListId] at h
    split at h
    · rename_i hc
      simp only [Bool.and_eq_true] at hc
      exact ⟨.mk id n cs, by simp [find, h], hc.1, hc.2⟩
    · obtain ⟨lt, h1, h2, h3⟩ := surroundingListIdL_spec i l cs hn2 h
      have hmem : l ∈ idsL cs := findL_some_mem h1
      have hid : id ≠ some l := by
        intro he; exact hdis l (by simp [he]) l hmem rfl
      exact ⟨lt, by simp [find, hid, h1], h2, h3⟩
theorem surroundingListIdL_spec (i l : Nat) : (cs : List Tree) → (idsL cs).Nodup →
    surroundingListIdL i cs = some l →
    ∃ lt, findL l cs = some lt ∧ lt.node.isList = true ∧ anyIdEq i lt.children = true
  | [], _, h => by simp [surroundingListIdL] at h
  | t :: ts, hn, h => by
    simp only [idsL] at hn
    obtain ⟨hn1, hn2, hdis⟩ := List.nodup_append.mp hn
    simp only [surroundingListIdL] at h
    split at h
    · obtain ⟨lt, h1, h2, h3⟩ := surroundingListId_spec i l t hn1 h
      exact ⟨lt, by simp [findL, h1], h2, h3⟩
    · obtain ⟨lt, h1, h2, h3⟩ := surroundingListIdL_spec i l ts hn2 h
      have hmem : l ∈ idsL ts := findL_some_mem h1
      have hnot : l ∉ ids t := fun hm => hdis l hm l hmem rfl
      exact ⟨lt, by simp [findL, find_none_of_not_mem hnot, h1], h2, h3⟩
end

mutual
theorem topLevelSurroundingListId_spec (i l : Nat) : (t : Tree) → (ids t).Nodup →
    topLevelSurroundingListId i t = some l →
    ∃ lt, find l t = some lt ∧ lt.node.isList = true ∧ contains i lt = true
  | .mk id n cs, hn, h => by
    simp only [ids] at hn
    obtain ⟨_, hn2, hdis⟩ := List.nodup_append.mp hn
    simp only [topLevelSurroundingListId] at h
    split at h
    · rename_i hc
      simp only [Bool.and_eq_true] at hc
      exact ⟨.mk id n cs, by simp [find, h], hc.2, by simpa [contains] using hc.1⟩
    · obtain ⟨lt, h1, h2, h3⟩ := topLevelSurroundingListIdL_spec i l cs hn2 h
      have hmem : l ∈ idsL cs := findL_some_mem h1
      have hid : id ≠ some l := by
        intro he; exact hdis l (by simp [he]) l hmem rfl
      exact ⟨lt, by simp [find, hid, h1], h2, h3⟩
theorem topLevelSurroundingListIdL_spec (i l : Nat) : (cs : List Tree) → (idsL cs).Nodup →
    topLevelSurroundingListIdL i cs = some l →
    ∃ lt, findL l cs = some lt ∧ lt.node.isList = true ∧ contains i lt = true
  | [], _, h => by simp [topLevelSurroundingListIdL] at h
  | t :: ts, hn, h => by
    simp only [idsL] at hn
    obtain ⟨hn1, hn2, hdis⟩ := List.nodup_append.mp hn
    simp only [topLevelSurroundingListIdL] at h
    split at h
    · obtain ⟨lt, h1, h2, h3⟩ := topLevelSurroundingListId_spec i l t hn1 h
      exact ⟨lt, by simp [findL, h1], h2, h3⟩
    · obtain ⟨lt, h1, h2, h3⟩ := topLevelSurroundingListIdL_spec i l ts hn2 h
      have hmem : l ∈ idsL ts := findL_some_mem h1
      have hnot : l ∉ ids t := fun hm => hdis l hm l hmem rfl
      exact ⟨lt, by simp [findL, find_none_of_not_mem hnot, h1], h2, h3⟩
end

end Tree
end Iwe
