/-
Helper lemmas for C02 (normalisation is a fixpoint).

Plan of the structural part:
* `pT/pF/pI`: the projector written directly on built trees (`project_pF`: ids play no role);
* `GoodL dir gs` / `NestD d (asDocs gs)`: a class of rendered block lists which, read again and
  built at fuel `fuel`, are reproduced by the projector at depth `d` (`fixSpec`, induction on the
  builder's fuel in the style of `Outline.nestSpec`);
* `NFL f`: what the builder guarantees about its forest (`nfSpec`);
* `good_pF`: the rendering of an `NFL` forest whose references round-trip is `GoodL`;
* `ok_L`: `GoodL` blocks are in the class on which the builder is total (`Sections.totSpec`).
-/
import IweModel.Spec.NormalForm
import IweModel.Lemmas.Tokens
import IweModel.Lemmas.Outline

namespace Iwe
namespace Fixpoint
open NormalForm Outline

/-! ## the projector on built trees (ids play no role) -/

def firstIsLeafB : List BTree → Bool
  | BTree.mk n _ _ :: _ => n.isLeaf
  | [] => false

mutual
def pT (dir : String) (lvl : Nat) : BTree → List GBlock
  | .mk n _ cs =>
    match n with
    | .document _ => pF dir lvl cs
    | .sect xs => .header (lvl + 1) xs :: pF dir (lvl + 1) cs
    | .quote => [.quote (pF dir 0 cs)]
    | .blist => [.blist (pI dir cs)]
    | .olist => [.olist (pI dir cs)]
    | .leaf xs => [.para xs]
    | .raw l c => [.code l c]
    | .rule => [.rule]
    | .ref key text t => [Project.refPara dir key text t]
    | .table h a r => [.table h a r]
def pF (dir : String) (lvl : Nat) : List BTree → List GBlock
  | [] => []
  | t :: ts => pT dir lvl t ++ pF dir lvl ts
def pI (dir : String) : List BTree → List (List GBlock)
  | [] => []
  | .mk n _ cs :: ts =>
    ((if firstIsLeafB cs then GBlock.para (Project.nodeInlines n) else GBlock.plain (Project.nodeInlines n))
      :: pF dir 0 cs) :: pI dir ts
end

theorem firstIsLeaf_withIds (b : Nat) (cs : List BTree) :
    Project.firstIsLeaf (forestWithIds id b cs) = firstIsLeafB cs := by
  cases cs with
  | nil => simp [forestWithIds, Project.firstIsLeaf, firstIsLeafB]
  | cons t ts => cases t; simp [forestWithIds, treeWithIds, Project.firstIsLeaf, firstIsLeafB]

mutual
theorem project_pT (dir : String) : ∀ (t : BTree) (lvl b : Nat),
    Project.tree dir lvl (treeWithIds id b t) = pT dir lvl t
  | .mk n lr cs, lvl, b => by
    cases n <;> simp [treeWithIds, Project.tree, pT, project_pF dir cs, project_pI dir cs]
theorem project_pF (dir : String) : ∀ (ts : List BTree) (lvl b : Nat),
    Project.forest dir lvl (forestWithIds id b ts) = pF dir lvl ts
  | [], lvl, b => by simp [forestWithIds, Project.forest, pF]
  | t :: ts, lvl, b => by
    simp [forestWithIds, Project.forest, pF, project_pT dir t, project_pF dir ts]
theorem project_pI (dir : String) : ∀ (ts : List BTree) (b : Nat),
    Project.items dir (forestWithIds id b ts) = pI dir ts
  | [], b => by simp [forestWithIds, Project.items, pI]
  | .mk n lr cs :: ts, b => by
    simp only [forestWithIds, treeWithIds, Project.items, pI, id]
    rw [project_pI dir ts, project_pF dir cs, firstIsLeaf_withIds]
end

theorem blocksOf_eq (dir : String) (f : List BTree) : blocksOf dir f = pF dir 0 f :=
  project_pF dir f 0 1

/-- heading levels of `pF` are deeper than `lvl` and well-nested after anything `≥ lvl` -/
def Nest (d : Nat) (gs : List GBlock) : Prop :=
  wellNested d (levelsG gs) = true ∧ ∀ l ∈ levelsG gs, d + 1 ≤ l

theorem nest_pF (dir : String) (d : Nat) (f : List BTree) : Nest d (pF dir d f) := by
  rw [← project_pF dir f d 0]
  obtain ⟨h1, h2⟩ := levels_forest dir (forestWithIds id 0 f) d
  exact ⟨h2 d (Nat.le_refl _), h1⟩

/-! ## rendered blocks that are reproduced -/

/-- the item's first child would be built as a leaf -/
def leafHead : List GBlock → Bool
  | .para xs :: _ => (Sections.paraRef xs).isNone
  | _ => false

/-- a paragraph that is a block reference is rendered back as itself -/
def paraOk (dir : String) (xs : Inlines) : Prop :=
  match Sections.paraRef xs with
  | none => True
  | some (url, text, t) => Project.refPara dir (keyFromRel url dir) text t = .para xs

mutual
def GoodB (dir : String) : GBlock → Prop
  | .plain _ => False
  | .para xs => paraOk dir xs
  | .quote bs => GoodL dir bs ∧ Nest 0 bs
  | .blist its => its ≠ [] ∧ GoodI dir its
  | .olist its => its ≠ [] ∧ GoodI dir its
  | _ => True
def GoodL (dir : String) : List GBlock → Prop
  | [] => True
  | b :: bs => GoodB dir b ∧ GoodL dir bs
def GoodI (dir : String) : List (List GBlock) → Prop
  | [] => True
  | [] :: _ => False
  | (hd :: rest) :: its =>
    (match hd with
     | .para _ => leafHead rest = true
     | .plain _ => leafHead rest = false
     | _ => False) ∧ GoodL dir rest ∧ Nest 0 rest ∧ GoodI dir its
end

/-! ## `asDocs` and list operations -/

theorem asDocs_append : ∀ (a b : List GBlock), asDocs (a ++ b) = asDocs a ++ asDocs b
  | [], b => by simp [asDocs]
  | x :: a, b => by simp [asDocs, asDocs_append a b]

theorem asDocs_takeWhile (p : DBlock → Bool) : ∀ gs : List GBlock,
    (asDocs gs).takeWhile p = asDocs (gs.takeWhile fun g => p (asDoc g))
  | [] => by simp [asDocs]
  | g :: gs => by
    simp only [asDocs, List.takeWhile_cons]
    split <;> simp [asDocs, asDocs_takeWhile p gs]

theorem asDocs_dropWhile (p : DBlock → Bool) : ∀ gs : List GBlock,
    (asDocs gs).dropWhile p = asDocs (gs.dropWhile fun g => p (asDoc g))
  | [] => by simp [asDocs]
  | g :: gs => by
    simp only [asDocs, List.dropWhile_cons]
    split <;> simp [asDocs, asDocs_dropWhile p gs]

theorem levelsD_asDocs : ∀ gs : List GBlock, levelsD (asDocs gs) = levelsG gs
  | [] => by simp [asDocs, levelsD, levelsG]
  | g :: gs => by cases g <;> simp [asDocs, asDoc, levelsD, levelsG, levelsD_asDocs gs]

theorem goodL_append (dir : String) : ∀ (a b : List GBlock), GoodL dir (a ++ b) ↔ GoodL dir a ∧ GoodL dir b
  | [], b => by simp [GoodL]
  | x :: a, b => by simp [GoodL, goodL_append dir a b, and_assoc]

theorem goodL_split (dir : String) (p : GBlock → Bool) (gs : List GBlock) (h : GoodL dir gs) :
    GoodL dir (gs.takeWhile p) ∧ GoodL dir (gs.dropWhile p) := by
  rw [← goodL_append, List.takeWhile_append_dropWhile]; exact h

theorem pF_append (dir : String) (d : Nat) : ∀ (a b : List BTree), pF dir d (a ++ b) = pF dir d a ++ pF dir d b
  | [], b => by simp [pF]
  | x :: a, b => by simp [pF, pF_append dir d a b]

theorem pI_append (dir : String) : ∀ (a b : List BTree), pI dir (a ++ b) = pI dir a ++ pI dir b
  | [], b => by simp [pI]
  | .mk n lr cs :: a, b => by simp [pI, pI_append dir a b]

/-! ## nesting of reader blocks -/

def NestD (d : Nat) (bs : List DBlock) : Prop :=
  wellNested d (levelsD bs) = true ∧ ∀ l ∈ levelsD bs, d + 1 ≤ l

theorem nest_iff (d : Nat) (gs : List GBlock) : Nest d gs ↔ NestD d (asDocs gs) := by
  simp [Nest, NestD, levelsD_asDocs]

theorem nestD_cons_not_header {d : Nat} {b : DBlock} {bs : List DBlock} (hb : Sections.isHeader b = false)
    (h : NestD d (b :: bs)) : NestD d bs := by
  unfold NestD at h ⊢
  rwa [levelsD_cons_not_header hb] at h

theorem nestD_header_level {d : Nat} {lr : LineRange} {l' : Nat} {xs : Inlines} {bs : List DBlock}
    (h : NestD d (DBlock.header lr l' xs :: bs)) : l' = d + 1 := by
  obtain ⟨hw, hall⟩ := h
  simp only [levelsD, wellNested_cons] at hw
  have := hall l' (by simp [levelsD])
  omega

theorem nestD_split {d l : Nat} {lr : LineRange} {l' : Nat} {xs : Inlines} {rest : List DBlock}
    (hl : l = d + 1) (h : NestD d (DBlock.header lr l' xs :: rest)) :
    NestD (d + 1) (rest.takeWhile fun x => !Sections.closes l x)
    ∧ NestD d (rest.dropWhile fun x => !Sections.closes l x) := by
  have hl' := nestD_header_level h
  obtain ⟨hw, hall⟩ := h
  subst hl'
  simp only [levelsD, wellNested_cons] at hw
  have hsplit := levelsD_split (fun x => !Sections.closes l x) rest
  have hw2 := hw.2.2
  rw [← hsplit] at hw2
  refine ⟨⟨wellNested_prefix _ _ _ hw2, ?_⟩, ⟨?_, ?_⟩⟩
  · intro x hx; have := levelsD_takeWhile_gt l rest x hx; omega
  · rcases dropWhile_closes_cases l rest with h | ⟨lr2, l2, xs2, t, h, hle⟩
    · simp [h, levelsD, wellNested]
    · rw [h, levelsD] at hw2 ⊢
      obtain ⟨h1, h2⟩ := wellNested_suffix _ _ _ _ hw2
      rw [wellNested_cons]
      exact ⟨h1, by omega, h2⟩
  · intro x hx
    exact hall x (by rw [levelsD, ← hsplit]; simp [hx])

/-! ## re-reading rendered blocks reproduces them -/

theorem firstIsLeaf_blocks (fuel : Nat) (dir : String) (w : Bool) (gs : List GBlock) (cs : List BTree)
    (hok : Sections.blocks fuel dir w (asDocs gs) = .ok cs) (hg : GoodL dir gs) :
    firstIsLeafB cs = leafHead gs := by
  cases fuel with
  | zero => simp [Sections.blocks] at hok
  | succ fuel =>
    cases gs with
    | nil => simp [asDocs, Sections.blocks] at hok; subst hok; simp [firstIsLeafB, leafHead]
    | cons g rest =>
      simp only [asDocs, Sections.blocks] at hok
      split at hok
      · next hh =>
        cases g <;> simp [asDoc, Sections.isHeader] at hh
        cases fuel with
        | zero => simp [Sections.sects] at hok
        | succ fuel =>
          simp only [asDoc, Sections.sects] at hok
          split at hok
          · simp at hok
          · split at hok
            · simp at hok
            · simp at hok; subst hok; simp [firstIsLeafB, leafHead, Node.isLeaf]
      · cases hb : Sections.block fuel dir w (asDoc g) with
        | error e => simp [hb] at hok
        | ok t =>
          cases hr : Sections.blocks fuel dir w (asDocs rest) with
          | error e => simp [hb, hr] at hok
          | ok ts =>
            simp [hb, hr] at hok
            subst hok
            cases fuel with
            | zero => simp [Sections.block] at hb
            | succ fuel =>
              cases g with
              | plain xs => simp [GoodL, GoodB] at hg
              | para xs =>
                simp only [asDoc, Sections.block] at hb
                cases hp : Sections.paraRef xs with
                | none => simp [hp] at hb; subst hb; simp [firstIsLeafB, leafHead, Node.isLeaf, hp]
                | some v =>
                  obtain ⟨url, text, ty⟩ := v
                  simp [hp] at hb; subst hb; simp [firstIsLeafB, leafHead, Node.isLeaf, hp]
              | header l xs => simp [asDoc, Sections.block] at hb
              | code l c => simp [asDoc, Sections.block] at hb; subst hb; simp [firstIsLeafB, leafHead, Node.isLeaf]
              | rule => simp [asDoc, Sections.block] at hb; subst hb; simp [firstIsLeafB, leafHead, Node.isLeaf]
              | table h a r => simp [asDoc, Sections.block] at hb; subst hb; simp [firstIsLeafB, leafHead, Node.isLeaf]
              | quote bs =>
                simp only [asDoc, Sections.block] at hb
                split at hb <;> simp at hb
                subst hb; simp [firstIsLeafB, leafHead, Node.isLeaf]
              | blist its =>
                simp only [asDoc, Sections.block] at hb
                split at hb <;> simp at hb
                subst hb; simp [firstIsLeafB, leafHead, Node.isLeaf]
              | olist its =>
                simp only [asDoc, Sections.block] at hb
                split at hb <;> simp at hb
                subst hb; simp [firstIsLeafB, leafHead, Node.isLeaf]

def FixSpec (fuel : Nat) : Prop :=
  (∀ dir w gs r d, Sections.blocks fuel dir w (asDocs gs) = .ok r → GoodL dir gs → NestD d (asDocs gs) →
      pF dir d r = gs)
  ∧ (∀ dir w l gs r d, Sections.sects fuel dir w l (asDocs gs) = .ok r → l = d + 1 → GoodL dir gs →
      NestD d (asDocs gs) → pF dir d r = gs)
  ∧ (∀ dir w g t d, Sections.block fuel dir w (asDoc g) = .ok t → GoodB dir g → pT dir d t = [g])
  ∧ (∀ dir w it r, Sections.item fuel dir w (asDocs it) = .ok r → GoodI dir [it] → pI dir r = [it])
  ∧ (∀ dir w its r, Sections.items fuel dir w (asDocItems its) = .ok r → GoodI dir its → pI dir r = its)

theorem fixSpec_zero : FixSpec 0 := by
  refine ⟨?_, ?_, ?_, ?_, ?_⟩ <;> intros <;>
    simp_all [Sections.blocks, Sections.sects, Sections.block, Sections.item, Sections.items]

theorem fix_blocks {fuel : Nat} (ih : FixSpec fuel) (dir : String) (w : Bool) (gs : List GBlock) (r : List BTree)
    (d : Nat) (hok : Sections.blocks (fuel + 1) dir w (asDocs gs) = .ok r) (hg : GoodL dir gs)
    (hn : NestD d (asDocs gs)) : pF dir d r = gs := by
  obtain ⟨ihB, ihS, ihb, _, _⟩ := ih
  cases gs with
  | nil => simp [asDocs, Sections.blocks] at hok; subst hok; simp [pF]
  | cons g rest =>
    simp only [asDocs, Sections.blocks] at hok
    split at hok
    · next hh =>
      refine ihS dir w _ (g :: rest) r d (by simpa only [asDocs] using hok) ?_ hg hn
      cases g <;> simp [asDoc, Sections.isHeader] at hh
      simp only [asDocs, asDoc] at hn
      simpa [asDoc, Sections.headerLevel] using nestD_header_level hn
    · next hh =>
      have hh' : Sections.isHeader (asDoc g) = false := by simpa using hh
      simp only [asDocs] at hn
      have hn' := nestD_cons_not_header hh' hn
      cases hb : Sections.block fuel dir w (asDoc g) with
      | error e => simp [hb] at hok
      | ok t =>
        cases hr : Sections.blocks fuel dir w (asDocs rest) with
        | error e => simp [hb, hr] at hok
        | ok ts =>
          simp [hb, hr] at hok
          subst hok
          simp only [GoodL] at hg
          simp [pF, ihb _ _ _ _ d hb hg.1, ihB _ _ _ _ d hr hg.2 hn']

theorem fix_sects {fuel : Nat} (ih : FixSpec fuel) (dir : String) (w : Bool) (l : Nat) (gs : List GBlock)
    (r : List BTree) (d : Nat) (hok : Sections.sects (fuel + 1) dir w l (asDocs gs) = .ok r) (hl : l = d + 1)
    (hg : GoodL dir gs) (hn : NestD d (asDocs gs)) : pF dir d r = gs := by
  obtain ⟨ihB, ihS, _, _, _⟩ := ih
  cases gs with
  | nil => simp [asDocs, Sections.sects] at hok; subst hok; simp [pF]
  | cons g rest =>
    cases g with
    | header l' xs =>
      simp only [asDocs, asDoc] at hok hn
      have hl' := nestD_header_level hn
      obtain ⟨n1, n2⟩ := nestD_split hl hn
      simp only [Sections.sects] at hok
      rw [asDocs_takeWhile] at hok n1
      rw [asDocs_dropWhile] at hok n2
      simp only [GoodL] at hg
      obtain ⟨g1, g2⟩ := goodL_split dir (fun g => !Sections.closes l (asDoc g)) rest hg.2
      cases hb : Sections.blocks fuel dir w (asDocs (rest.takeWhile fun g => !Sections.closes l (asDoc g))) with
      | error e => simp [hb] at hok
      | ok cs =>
        cases hr : Sections.sects fuel dir w l (asDocs (rest.dropWhile fun g => !Sections.closes l (asDoc g))) with
        | error e => simp [hb, hr] at hok
        | ok ts =>
          simp [hb, hr] at hok
          subst hok
          simp only [pF, pT, ihB _ _ _ _ (d + 1) hb g1 n1, ihS _ _ _ _ _ d hr hl g2 n2, hl']
          simp [List.takeWhile_append_dropWhile]
    | _ => simp [asDocs, asDoc, Sections.sects] at hok

theorem fix_block {fuel : Nat} (ih : FixSpec fuel) (dir : String) (w : Bool) (g : GBlock) (t : BTree) (d : Nat)
    (hok : Sections.block (fuel + 1) dir w (asDoc g) = .ok t) (hg : GoodB dir g) : pT dir d t = [g] := by
  obtain ⟨ihB, _, _, _, ihI⟩ := ih
  cases g with
  | plain xs => simp [GoodB] at hg
  | para xs =>
    simp only [asDoc, Sections.block] at hok
    simp only [GoodB, paraOk] at hg
    cases hp : Sections.paraRef xs with
    | none => simp [hp] at hok; subst hok; simp [pT]
    | some v =>
      obtain ⟨url, text, ty⟩ := v
      simp [hp] at hok hg; subst hok; simp [pT, hg]
  | code l c => simp [asDoc, Sections.block] at hok; subst hok; simp [pT]
  | rule => simp [asDoc, Sections.block] at hok; subst hok; simp [pT]
  | table h a rows => simp [asDoc, Sections.block] at hok; subst hok; simp [pT]
  | header l xs => simp [asDoc, Sections.block] at hok
  | quote bs =>
    simp only [asDoc, Sections.block] at hok
    simp only [GoodB] at hg
    cases hr : Sections.blocks fuel dir false (asDocs bs) with
    | error e => simp [hr] at hok
    | ok cs =>
      simp [hr] at hok; subst hok
      simp [pT, ihB _ _ _ _ 0 hr hg.1 ((nest_iff 0 bs).1 hg.2)]
  | blist its =>
    simp only [asDoc, Sections.block] at hok
    simp only [GoodB] at hg
    cases hr : Sections.items fuel dir w (asDocItems its) with
    | error e => simp [hr] at hok
    | ok cs =>
      cases cs with
      | nil => simp [hr] at hok
      | cons c cs =>
        simp [hr] at hok; subst hok
        simp [pT, ihI _ _ _ _ hr hg.2]
  | olist its =>
    simp only [asDoc, Sections.block] at hok
    simp only [GoodB] at hg
    cases hr : Sections.items fuel dir w (asDocItems its) with
    | error e => simp [hr] at hok
    | ok cs =>
      cases cs with
      | nil => simp [hr] at hok
      | cons c cs =>
        simp [hr] at hok; subst hok
        simp [pT, ihI _ _ _ _ hr hg.2]

theorem fix_item {fuel : Nat} (ih : FixSpec fuel) (dir : String) (w : Bool) (it : List GBlock) (r : List BTree)
    (hok : Sections.item (fuel + 1) dir w (asDocs it) = .ok r) (hg : GoodI dir [it]) : pI dir r = [it] := by
  obtain ⟨ihB, _, _, _, _⟩ := ih
  cases it with
  | nil => simp [GoodI] at hg
  | cons hd rest =>
    simp only [GoodI] at hg
    obtain ⟨h1, h2, h3, _⟩ := hg
    cases hd with
    | para xs =>
      simp only [asDocs, asDoc, Sections.item] at hok
      cases hr : Sections.blocks fuel dir w (asDocs rest) with
      | error e => simp [hr] at hok
      | ok cs =>
        simp [hr] at hok; subst hok
        simp at h1
        simp [pI, Project.nodeInlines, ihB _ _ _ _ 0 hr h2 ((nest_iff 0 rest).1 h3),
          firstIsLeaf_blocks _ _ _ _ _ hr h2, h1]
    | plain xs =>
      simp only [asDocs, asDoc, Sections.item] at hok
      cases hr : Sections.blocks fuel dir w (asDocs rest) with
      | error e => simp [hr] at hok
      | ok cs =>
        simp [hr] at hok; subst hok
        simp at h1
        simp [pI, Project.nodeInlines, ihB _ _ _ _ 0 hr h2 ((nest_iff 0 rest).1 h3),
          firstIsLeaf_blocks _ _ _ _ _ hr h2, h1]
    | _ => simp at h1

theorem goodI_cons (dir : String) (it : List GBlock) (its : List (List GBlock)) :
    GoodI dir (it :: its) ↔ GoodI dir [it] ∧ GoodI dir its := by
  cases it with
  | nil => simp [GoodI]
  | cons hd rest => simp [GoodI, and_assoc]

theorem fix_items {fuel : Nat} (ih : FixSpec fuel) (dir : String) (w : Bool) (its : List (List GBlock))
    (r : List BTree) (hok : Sections.items (fuel + 1) dir w (asDocItems its) = .ok r) (hg : GoodI dir its) :
    pI dir r = its := by
  obtain ⟨_, _, _, ihi, ihI⟩ := ih
  cases its with
  | nil => simp [asDocItems, Sections.items] at hok; subst hok; simp [pI]
  | cons it its =>
    simp only [asDocItems, Sections.items] at hok
    rw [goodI_cons] at hg
    cases hr : Sections.item fuel dir w (asDocs it) with
    | error e => simp [hr] at hok
    | ok ts =>
      cases hs : Sections.items fuel dir w (asDocItems its) with
      | error e => simp [hr, hs] at hok
      | ok us =>
        simp [hr, hs] at hok; subst hok
        rw [pI_append, ihi _ _ _ _ hr hg.1, ihI _ _ _ _ hs hg.2]; rfl

theorem fixSpec : ∀ fuel, FixSpec fuel
  | 0 => fixSpec_zero
  | fuel + 1 =>
    have ih := fixSpec fuel
    ⟨fix_blocks ih, fix_sects ih, fix_block ih, fix_item ih, fix_items ih⟩

/-! ## the normal form of built forests -/

mutual
/-- what the section builder guarantees about its forest: a leaf is never a lone reference link,
a list node has at least one child, there is no inner document node -/
def NF : BTree → Prop
  | .mk n _ cs =>
    (match n with
     | .document _ => False
     | .leaf xs => Sections.paraRef xs = none
     | .blist => cs ≠ []
     | .olist => cs ≠ []
     | _ => True) ∧ NFL cs
def NFL : List BTree → Prop
  | [] => True
  | t :: ts => NF t ∧ NFL ts
end

theorem nfl_append : ∀ (a b : List BTree), NFL (a ++ b) ↔ NFL a ∧ NFL b
  | [], b => by simp [NFL]
  | x :: a, b => by simp [NFL, nfl_append a b, and_assoc]

def NFSpec (fuel : Nat) : Prop :=
  (∀ dir w bs r, Sections.blocks fuel dir w bs = .ok r → Tok.itemsOkL bs = true → NFL r)
  ∧ (∀ dir w l bs r, Sections.sects fuel dir w l bs = .ok r → Tok.itemsOkL bs = true → NFL r)
  ∧ (∀ dir w b t, Sections.block fuel dir w b = .ok t → Tok.itemsOk b = true → NF t)
  ∧ (∀ dir w it r, Sections.item fuel dir w it = .ok r → Tok.itemsOkI [it] = true → NFL r)
  ∧ (∀ dir w its r, Sections.items fuel dir w its = .ok r → Tok.itemsOkI its = true → NFL r)

theorem nfSpec_zero : NFSpec 0 := by
  refine ⟨?_, ?_, ?_, ?_, ?_⟩ <;> intros <;>
    simp_all [Sections.blocks, Sections.sects, Sections.block, Sections.item, Sections.items]

open Tok in
theorem nf_blocks {fuel : Nat} (ih : NFSpec fuel) (dir : String) (w : Bool) (bs : List DBlock) (r : List BTree)
    (hok : Sections.blocks (fuel + 1) dir w bs = .ok r) (hi : itemsOkL bs = true) : NFL r := by
  obtain ⟨ihB, ihS, ihb, _, _⟩ := ih
  cases bs with
  | nil => simp [Sections.blocks] at hok; subst hok; simp [NFL]
  | cons b rest =>
    simp only [Sections.blocks] at hok
    split at hok
    · exact ihS _ _ _ _ _ hok hi
    · simp only [itemsOkL, Bool.and_eq_true] at hi
      cases hb : Sections.block fuel dir w b with
      | error e => simp [hb] at hok
      | ok t =>
        cases hr : Sections.blocks fuel dir w rest with
        | error e => simp [hb, hr] at hok
        | ok ts =>
          simp [hb, hr] at hok
          subst hok
          exact ⟨ihb _ _ _ _ hb hi.1, ihB _ _ _ _ hr hi.2⟩

open Tok in
theorem nf_sects {fuel : Nat} (ih : NFSpec fuel) (dir : String) (w : Bool) (l : Nat) (bs : List DBlock)
    (r : List BTree) (hok : Sections.sects (fuel + 1) dir w l bs = .ok r) (hi : itemsOkL bs = true) : NFL r := by
  obtain ⟨ihB, ihS, _, _, _⟩ := ih
  cases bs with
  | nil => simp [Sections.sects] at hok; subst hok; simp [NFL]
  | cons b rest =>
    simp only [itemsOkL, Bool.and_eq_true] at hi
    obtain ⟨h1, h2⟩ := itemsOkL_split (fun x => !Sections.closes l x) rest hi.2
    cases b with
    | header lr l' xs =>
      simp only [Sections.sects] at hok
      cases hb : Sections.blocks fuel dir w (rest.takeWhile fun x => !Sections.closes l x) with
      | error e => simp [hb] at hok
      | ok cs =>
        cases hr : Sections.sects fuel dir w l (rest.dropWhile fun x => !Sections.closes l x) with
        | error e => simp [hb, hr] at hok
        | ok ts =>
          simp [hb, hr] at hok
          subst hok
          exact ⟨⟨trivial, ihB _ _ _ _ hb h1⟩, ihS _ _ _ _ _ hr h2⟩
    | _ => simp [Sections.sects] at hok

open Tok in
theorem nf_block {fuel : Nat} (ih : NFSpec fuel) (dir : String) (w : Bool) (b : DBlock) (t : BTree)
    (hok : Sections.block (fuel + 1) dir w b = .ok t) (hi : itemsOk b = true) : NF t := by
  obtain ⟨ihB, _, _, _, ihI⟩ := ih
  cases b with
  | code lr lang text => simp [Sections.block] at hok; subst hok; simp [NF, NFL]
  | para lr xs =>
    simp only [Sections.block] at hok
    cases hp : Sections.paraRef xs with
    | none => simp [hp] at hok; subst hok; simp [NF, NFL, hp]
    | some v =>
      obtain ⟨url, text, ty⟩ := v
      simp [hp] at hok; subst hok; simp [NF, NFL]
  | blist its =>
    simp only [Sections.block] at hok
    simp only [itemsOk] at hi
    cases hr : Sections.items fuel dir w its with
    | error e => simp [hr] at hok
    | ok cs =>
      cases cs with
      | nil => simp [hr] at hok
      | cons c cs =>
        simp [hr] at hok; subst hok
        exact ⟨by simp, ihI _ _ _ _ hr hi⟩
  | olist its =>
    simp only [Sections.block] at hok
    simp only [itemsOk] at hi
    cases hr : Sections.items fuel dir w its with
    | error e => simp [hr] at hok
    | ok cs =>
      cases cs with
      | nil => simp [hr] at hok
      | cons c cs =>
        simp [hr] at hok; subst hok
        exact ⟨by simp, ihI _ _ _ _ hr hi⟩
  | quote lr bs =>
    simp only [Sections.block] at hok
    simp only [itemsOk] at hi
    cases hr : Sections.blocks fuel dir false bs with
    | error e => simp [hr] at hok
    | ok cs =>
      simp [hr] at hok; subst hok
      exact ⟨trivial, ihB _ _ _ _ hr hi⟩
  | rule lr => simp [Sections.block] at hok; subst hok; simp [NF, NFL]
  | header lr l xs => simp [Sections.block] at hok
  | table lr h al rows => simp [Sections.block] at hok; subst hok; simp [NF, NFL]

open Tok in
theorem nf_item {fuel : Nat} (ih : NFSpec fuel) (dir : String) (w : Bool) (it : List DBlock) (r : List BTree)
    (hok : Sections.item (fuel + 1) dir w it = .ok r) (hi : itemsOkI [it] = true) : NFL r := by
  obtain ⟨ihB, _, _, _, _⟩ := ih
  cases it with
  | nil => simp [Sections.item] at hok; subst hok; simp [NFL]
  | cons b rest =>
    cases b with
    | para lr xs =>
      simp only [Sections.item] at hok
      simp [itemsOkI] at hi
      cases hr : Sections.blocks fuel dir w rest with
      | error e => simp [hr] at hok
      | ok cs =>
        simp [hr] at hok; subst hok
        exact ⟨⟨trivial, ihB _ _ _ _ hr hi⟩, trivial⟩
    | header lr l xs =>
      simp only [Sections.item] at hok
      simp [itemsOkI] at hi
      cases hr : Sections.blocks fuel dir w rest with
      | error e => simp [hr] at hok
      | ok cs =>
        simp [hr] at hok; subst hok
        exact ⟨⟨trivial, ihB _ _ _ _ hr hi⟩, trivial⟩
    | _ => simp [itemsOkI] at hi

open Tok in
theorem nf_items {fuel : Nat} (ih : NFSpec fuel) (dir : String) (w : Bool) (its : List (List DBlock))
    (r : List BTree) (hok : Sections.items (fuel + 1) dir w its = .ok r) (hi : itemsOkI its = true) : NFL r := by
  obtain ⟨_, _, _, ihi, ihI⟩ := ih
  cases its with
  | nil => simp [Sections.items] at hok; subst hok; simp [NFL]
  | cons it its =>
    simp only [Sections.items] at hok
    rw [itemsOkI_cons, Bool.and_eq_true] at hi
    cases hr : Sections.item fuel dir w it with
    | error e => simp [hr] at hok
    | ok ts =>
      cases hs : Sections.items fuel dir w its with
      | error e => simp [hr, hs] at hok
      | ok us =>
        simp [hr, hs] at hok; subst hok
        exact (nfl_append _ _).2 ⟨ihi _ _ _ _ hr hi.1, ihI _ _ _ _ hs hi.2⟩

theorem nfSpec : ∀ fuel, NFSpec fuel
  | 0 => nfSpec_zero
  | fuel + 1 =>
    have ih := nfSpec fuel
    ⟨nf_blocks ih, nf_sects ih, nf_block ih, nf_item ih, nf_items ih⟩

/-! ## the rendering of a normal-form forest is `Good` -/

theorem paraOk_refPara (dir k text : String) (t : LinkType)
    (h1 : keyFromRel (keyToRel k dir) dir = k) (h2 : isRefUrl (keyToRel k dir) = true) :
    ∃ xs, Project.refPara dir k text t = .para xs ∧ paraOk dir xs ∧ (Sections.paraRef xs).isNone = false := by
  cases t <;> simp [Project.refPara, paraOk, Sections.paraRef, h1, h2, Inline.plainTexts, Inline.plainText]

theorem leafHead_pF (dir : String) (d : Nat) (cs : List BTree) (hn : NFL cs) (hr : refsRoundTripL dir cs = true) :
    leafHead (pF dir d cs) = firstIsLeafB cs := by
  cases cs with
  | nil => simp [pF, leafHead, firstIsLeafB]
  | cons t ts =>
    obtain ⟨n, lr, cs⟩ := t
    simp only [NFL, NF] at hn
    simp only [refsRoundTripL, refsRoundTrip, Bool.and_eq_true] at hr
    cases n with
    | document k => exact hn.1.1.elim
    | leaf xs => simp [pF, pT, leafHead, firstIsLeafB, Node.isLeaf, hn.1.1]
    | ref k text t =>
      simp only [Bool.and_eq_true, beq_iff_eq] at hr
      obtain ⟨xs, e, _, h⟩ := paraOk_refPara dir k text t hr.1.1.1 hr.1.1.2
      simp [pF, pT, e, leafHead, firstIsLeafB, Node.isLeaf, h]
    | _ => simp [pF, pT, leafHead, firstIsLeafB, Node.isLeaf]

mutual
theorem good_pT (dir : String) : ∀ (t : BTree) (d : Nat), NF t → refsRoundTrip dir t = true →
    GoodL dir (pT dir d t)
  | .mk n lr cs, d, hn, hr => by
    simp only [NF] at hn
    simp only [refsRoundTrip, Bool.and_eq_true] at hr
    cases n with
    | document k => exact hn.1.elim
    | sect xs => exact ⟨trivial, good_pF dir cs (d + 1) hn.2 hr.2⟩
    | quote =>
      exact ⟨⟨good_pF dir cs 0 hn.2 hr.2, nest_pF dir 0 cs⟩, trivial⟩
    | blist =>
      refine ⟨⟨?_, good_pI dir cs hn.2 hr.2⟩, trivial⟩
      cases cs with
      | nil => exact absurd rfl hn.1
      | cons c cs => cases c; simp [pI]
    | olist =>
      refine ⟨⟨?_, good_pI dir cs hn.2 hr.2⟩, trivial⟩
      cases cs with
      | nil => exact absurd rfl hn.1
      | cons c cs => cases c; simp [pI]
    | leaf xs => simp [pT, GoodL, GoodB, paraOk, hn.1]
    | raw l c => simp [pT, GoodL, GoodB]
    | rule => simp [pT, GoodL, GoodB]
    | ref k text t =>
      simp only [Bool.and_eq_true, beq_iff_eq] at hr
      obtain ⟨xs, e, h, _⟩ := paraOk_refPara dir k text t hr.1.1 hr.1.2
      simp [pT, e, GoodL, GoodB, h]
    | table h a r => simp [pT, GoodL, GoodB]
theorem good_pF (dir : String) : ∀ (ts : List BTree) (d : Nat), NFL ts → refsRoundTripL dir ts = true →
    GoodL dir (pF dir d ts)
  | [], d, _, _ => by simp [pF, GoodL]
  | t :: ts, d, hn, hr => by
    simp only [refsRoundTripL, Bool.and_eq_true] at hr
    simp only [pF]
    exact (goodL_append dir _ _).2 ⟨good_pT dir t d hn.1 hr.1, good_pF dir ts d hn.2 hr.2⟩
theorem good_pI (dir : String) : ∀ (ts : List BTree), NFL ts → refsRoundTripL dir ts = true →
    GoodI dir (pI dir ts)
  | [], _, _ => by simp [pI, GoodI]
  | .mk n lr cs :: ts, hn, hr => by
    simp only [refsRoundTripL, refsRoundTrip, Bool.and_eq_true] at hr
    simp only [NFL, NF] at hn
    simp only [pI]
    rw [goodI_cons]
    refine ⟨?_, good_pI dir ts hn.2 hr.2⟩
    have hl := leafHead_pF dir 0 cs hn.1.2 hr.1.2
    refine ⟨?_, good_pF dir cs 0 hn.1.2 hr.1.2, nest_pF dir 0 cs, trivial⟩
    cases hf : firstIsLeafB cs <;> simp [hf] at hl ⊢ <;> exact hl
end

/-! ## rendered blocks are in the class on which the builder is total -/

mutual
theorem ok_B (dir : String) : ∀ g : GBlock, GoodB dir g →
    Tok.itemsOk (asDoc g) = true ∧ Tok.listsNonEmpty (asDoc g) = true
  | .plain xs, h => by simp [GoodB] at h
  | .para xs, _ => by simp [asDoc, Tok.itemsOk, Tok.listsNonEmpty]
  | .code l c, _ => by simp [asDoc, Tok.itemsOk, Tok.listsNonEmpty]
  | .header l xs, _ => by simp [asDoc, Tok.itemsOk, Tok.listsNonEmpty]
  | .rule, _ => by simp [asDoc, Tok.itemsOk, Tok.listsNonEmpty]
  | .table h a r, _ => by simp [asDoc, Tok.itemsOk, Tok.listsNonEmpty]
  | .quote bs, h => by
    simp only [GoodB] at h
    simpa [asDoc, Tok.itemsOk, Tok.listsNonEmpty] using ok_L dir bs h.1
  | .blist its, h => by
    simp only [GoodB] at h
    obtain ⟨h1, h2, h3⟩ := ok_I dir its h.2
    simp [asDoc, Tok.itemsOk, Tok.listsNonEmpty, h1, h2, h3 h.1]
  | .olist its, h => by
    simp only [GoodB] at h
    obtain ⟨h1, h2, h3⟩ := ok_I dir its h.2
    simp [asDoc, Tok.itemsOk, Tok.listsNonEmpty, h1, h2, h3 h.1]
theorem ok_L (dir : String) : ∀ gs : List GBlock, GoodL dir gs →
    Tok.itemsOkL (asDocs gs) = true ∧ Tok.listsNonEmptyL (asDocs gs) = true
  | [], _ => by simp [asDocs, Tok.itemsOkL, Tok.listsNonEmptyL]
  | g :: gs, h => by
    simp only [GoodL] at h
    obtain ⟨h1, h2⟩ := ok_B dir g h.1
    obtain ⟨h3, h4⟩ := ok_L dir gs h.2
    simp [asDocs, Tok.itemsOkL, Tok.listsNonEmptyL, h1, h2, h3, h4]
theorem ok_I (dir : String) : ∀ its : List (List GBlock), GoodI dir its →
    Tok.itemsOkI (asDocItems its) = true ∧ Tok.listsNonEmptyI (asDocItems its) = true
    ∧ (its ≠ [] → (asDocItems its).any (fun it => !it.isEmpty) = true)
  | [], _ => by simp [asDocItems, Tok.itemsOkI, Tok.listsNonEmptyI]
  | [] :: its, h => by simp [GoodI] at h
  | (hd :: rest) :: its, h => by
    simp only [GoodI] at h
    obtain ⟨h0, h1, _, h2⟩ := h
    obtain ⟨a1, a2⟩ := ok_L dir rest h1
    obtain ⟨b1, b2, _⟩ := ok_I dir its h2
    cases hd <;> simp at h0 <;>
      simp [asDocItems, asDocs, asDoc, Tok.itemsOkI, Tok.listsNonEmptyI, Tok.listsNonEmptyL, Tok.listsNonEmpty,
        a1, a2, b1, b2]
end

/-! ## the fixpoint -/

theorem fixpoint (dir : String) (bs : List DBlock) (f : List BTree)
    (hok : Sections.forest dir bs = .ok f) (hitems : Tok.itemsOkL bs = true)
    (hrefs : refsRoundTripL dir f = true) :
    ∃ f', Sections.forest dir (asDocs (blocksOf dir f)) = .ok f' ∧ blocksOf dir f' = blocksOf dir f := by
  have hnf : NFL f := (nfSpec _).1 dir true bs f hok hitems
  have hgood : GoodL dir (pF dir 0 f) := good_pF dir f 0 hnf hrefs
  have hnest := (nest_iff 0 _).1 (nest_pF dir 0 f)
  obtain ⟨hi, hl⟩ := ok_L dir _ hgood
  rw [blocksOf_eq]
  obtain ⟨f', hf'⟩ := (Sections.totSpec (Sections.fuelFor (asDocs (pF dir 0 f)))).1 dir true
    (asDocs (pF dir 0 f)) (by unfold Sections.fuelFor; omega) hi hl
  refine ⟨f', hf', ?_⟩
  rw [blocksOf_eq]
  exact (fixSpec _).1 dir true _ f' 0 hf' hgood hnest


/-! ## inline normalisation, marker arithmetic -/

theorem rep_length (c : Char) (n : Nat) : (Render.rep c n).length = n := by
  simp [Render.rep]

mutual
theorem normalize_idem (title : String → Option String) : ∀ x : Inline,
    Inline.normalize title (Inline.normalize title x) = Inline.normalize title x
  | .str s => by simp [Inline.normalize]
  | .code s => by simp [Inline.normalize]
  | .math s => by simp [Inline.normalize]
  | .image u t xs => by simp [Inline.normalize]
  | .emph xs => by simp [Inline.normalize, normalizeL_idem title xs]
  | .strong xs => by simp [Inline.normalize, normalizeL_idem title xs]
  | .strikeout xs => by simp [Inline.normalize, normalizeL_idem title xs]
  | .link url t ty xs => by
    by_cases h : isRefUrl url = true
    · cases ty with
      | regular =>
        cases ht : title (keyFromFileName url) <;> simp [Inline.normalize, h, ht]
      | wiki => simp [Inline.normalize, h]
      | wikiPiped => simp [Inline.normalize, h]
    · simp [Inline.normalize, h]
theorem normalizeL_idem (title : String → Option String) : ∀ xs : List Inline,
    Inline.normalizeL title (Inline.normalizeL title xs) = Inline.normalizeL title xs
  | [] => by simp [Inline.normalizeL]
  | x :: xs => by simp [Inline.normalizeL, normalize_idem title x, normalizeL_idem title xs]
end

end Fixpoint
end Iwe
