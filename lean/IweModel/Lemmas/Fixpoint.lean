/- helper lemmas for C02 -/
import IweModel.Spec.NormalForm
import IweModel.Lemmas.Tokens
import IweModel.Lemmas.Outline

namespace Iwe

end Iwe
