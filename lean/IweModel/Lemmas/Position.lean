/- helper lemmas for C13 -/
import IweModel.Model.Position

namespace Iwe
namespace Position

theorem lineLens_nil (acc : Nat) : lineLens [] acc = if acc = 0 then [] else [acc] := by
  simp [lineLens]

theorem lineLens_lf (rest : Bytes) (acc : Nat) : lineLens (10 :: rest) acc = acc :: lineLens rest 0 := by
  simp [lineLens]

theorem lineLens_other (b : Nat) (rest : Bytes) (acc : Nat) (h10 : b ≠ 10) (h13 : b ≠ 13) :
    lineLens (b :: rest) acc = lineLens rest (acc + 1) :=
  lineLens.eq_4 acc b rest h10 (fun _ h _ => h13 h)

theorem lspPos_zero (content : Bytes) (p : Pos) : lspPos content 0 p = p := by
  cases content <;> simp [lspPos]

theorem lspPos_lf (rest : Bytes) (d : Nat) (p : Pos) :
    lspPos (10 :: rest) (d + 1) p = lspPos rest d ⟨p.line + 1, 0⟩ := by
  simp [lspPos]

theorem lspPos_other (b : Nat) (rest : Bytes) (d : Nat) (p : Pos) (h10 : b ≠ 10) :
    lspPos (b :: rest) (d + 1) p = lspPos rest d ⟨p.line, p.character + utf16Units b⟩ :=
  lspPos.eq_4 p b rest d h10

theorem utf16Units_ascii (b : Nat) (h : b < 0x80) : utf16Units b = 1 := by
  simp [utf16Units, h]

/-- starts produced after `s` are all `> s`: an offset at or before `s` selects none of them -/
theorem locate_go_starts_gt (off : Nat) (ls : List Nat) (s j : Nat) (best : Pos) (h : off ≤ s) :
    locate.go off (lineStarts.go ls s) j best = best := by
  induction ls generalizing s j with
  | nil => simp [lineStarts.go, locate.go]
  | cons l ls ih =>
    simp only [lineStarts.go, locate.go]
    have : ¬ (s + l + 1 ≤ off) := by omega
    simp only [this, if_false]
    exact ih (s + l + 1) (j + 1) (by omega)

/-- an offset at or before the current point (`acc` bytes into the line starting at `s`) selects no
later line start -/
theorem locate_go_lineLens_gt (off : Nat) (content : Bytes) (acc s j : Nat) (best : Pos)
    (h : off ≤ s + acc) :
    locate.go off (lineStarts.go (lineLens content acc) s) j best = best := by
  induction content, acc using lineLens.induct with
  | case1 => simp [lineLens, lineStarts.go, locate.go]
  | case2 acc hacc =>
    have : ¬ (s + acc + 1 ≤ off) := by omega
    simp [lineLens, hacc, lineStarts.go, locate.go, this]
  | case3 rest acc _ =>
    rw [lineLens_lf]
    simp only [lineStarts.go, locate.go]
    have : ¬ (s + acc + 1 ≤ off) := by omega
    simp only [this, if_false]
    exact locate_go_starts_gt off _ _ _ _ (by omega)
  | case4 rest acc _ =>
    rw [lineLens.eq_3]
    simp only [lineStarts.go, locate.go]
    have : ¬ (s + acc + 1 ≤ off) := by omega
    simp only [this, if_false]
    exact locate_go_starts_gt off _ _ _ _ (by omega)
  | case5 b rest acc h10 h13 ih =>
    rw [lineLens.eq_4 acc b rest h10 h13]
    exact ih (by omega)

/-- **the generalised exactness statement**: `acc` bytes into line `i` (which starts at byte `s`),
with ASCII, CR-free `content` still to come, the reader's loop over the remaining line starts and
the LSP walk agree for the offset `d` bytes further on -/
theorem locate_go_eq_lspPos (content : Bytes) (acc s i d : Nat)
    (hascii : isAscii content = true) (hcr : noCr content = true) (hd : d ≤ content.length) :
    locate.go (s + acc + d) (lineStarts.go (lineLens content acc) s) (i + 1) ⟨i, acc + d⟩
      = lspPos content d ⟨i, acc⟩ := by
  induction content generalizing acc s i d with
  | nil =>
    have hd0 : d = 0 := by simpa using hd
    subst hd0
    rw [lspPos_zero]
    exact locate_go_lineLens_gt _ _ _ _ _ _ (by omega)
  | cons b rest ih =>
    cases d with
    | zero =>
      rw [lspPos_zero]
      exact locate_go_lineLens_gt _ _ _ _ _ _ (by omega)
    | succ d =>
      have hb : b < 0x80 := by
        simp [isAscii] at hascii; exact hascii.1
      have hascii' : isAscii rest = true := by
        simp [isAscii] at hascii ⊢; exact hascii.2
      have hb13 : b ≠ 13 := by
        simp [noCr] at hcr; exact hcr.1
      have hcr' : noCr rest = true := by
        simp [noCr] at hcr ⊢; exact hcr.2
      have hd' : d ≤ rest.length := by simpa using hd
      by_cases h10 : b = 10
      · subst h10
        rw [lineLens_lf, lspPos_lf]
        simp only [lineStarts.go, locate.go]
        have hle : s + acc + 1 ≤ s + acc + (d + 1) := by omega
        simp only [hle, if_true]
        have := ih 0 (s + acc + 1) (i + 1) d hascii' hcr' hd'
        have e1 : s + acc + (d + 1) = s + acc + 1 + 0 + d := by omega
        have e2 : s + acc + (d + 1) - (s + acc + 1) = 0 + d := by omega
        rw [e2, e1]
        exact this
      · rw [lineLens_other b rest acc h10 hb13, lspPos_other b rest d _ h10, utf16Units_ascii b hb]
        have := ih (acc + 1) s i d hascii' hcr' hd'
        have e1 : s + acc + (d + 1) = s + (acc + 1) + d := by omega
        have e2 : acc + (d + 1) = acc + 1 + d := by omega
        rw [e1, e2]
        exact this

/-- the reader's position of any offset inside ASCII, CR-free text is the LSP position -/
theorem locate_lineStarts_eq_specPos (content : Bytes) (off : Nat)
    (hascii : isAscii content = true) (hcr : noCr content = true) (hoff : off ≤ content.length) :
    locate (lineStarts content) off = specPos content off := by
  have := locate_go_eq_lspPos content 0 0 0 off hascii hcr hoff
  simp only [Nat.zero_add] at this
  simp only [locate, lineStarts, locate.go, specPos, Nat.zero_le, if_true, Nat.sub_zero, Nat.zero_add]
  exact this

/-- **line numbers need no ASCII**: for CR-free text of any bytes, the line the reader's loop selects is the
line of the LSP walk, whatever the characters in between are (the column components may differ) -/
theorem locate_go_line_eq (content : Bytes) (acc s i d x c : Nat)
    (hcr : noCr content = true) (hd : d ≤ content.length) :
    (locate.go (s + acc + d) (lineStarts.go (lineLens content acc) s) (i + 1) ⟨i, x⟩).line
      = (lspPos content d ⟨i, c⟩).line := by
  induction content generalizing acc s i d x c with
  | nil =>
    have hd0 : d = 0 := by simpa using hd
    subst hd0
    rw [lspPos_zero, locate_go_lineLens_gt _ _ _ _ _ _ (by omega)]
  | cons b rest ih =>
    cases d with
    | zero =>
      rw [lspPos_zero, locate_go_lineLens_gt _ _ _ _ _ _ (by omega)]
    | succ d =>
      have hb13 : b ≠ 13 := by
        simp [noCr] at hcr; exact hcr.1
      have hcr' : noCr rest = true := by
        simp [noCr] at hcr ⊢; exact hcr.2
      have hd' : d ≤ rest.length := by simpa using hd
      by_cases h10 : b = 10
      · subst h10
        rw [lineLens_lf, lspPos_lf]
        simp only [lineStarts.go, locate.go]
        have hle : s + acc + 1 ≤ s + acc + (d + 1) := by omega
        simp only [hle, if_true]
        have := ih 0 (s + acc + 1) (i + 1) d (s + acc + (d + 1) - (s + acc + 1)) 0 hcr' hd'
        have e1 : s + acc + (d + 1) = s + acc + 1 + 0 + d := by omega
        rw [e1] at this ⊢
        exact this
      · rw [lineLens_other b rest acc h10 hb13, lspPos_other b rest d _ h10]
        have := ih (acc + 1) s i d x (c + utf16Units b) hcr' hd'
        have e1 : s + acc + (d + 1) = s + (acc + 1) + d := by omega
        rw [e1]
        exact this

theorem locate_line_eq_specPos_line (content : Bytes) (off : Nat)
    (hcr : noCr content = true) (hoff : off ≤ content.length) :
    (locate (lineStarts content) off).line = (specPos content off).line := by
  have := locate_go_line_eq content 0 0 0 off (off - 0) 0 hcr hoff
  simp only [Nat.zero_add] at this
  simp only [locate, lineStarts, locate.go, specPos, Nat.zero_le, if_true, Nat.zero_add]
  exact this

end Position
end Iwe
