/- basic facts about `Tree.find` / `contains` / `ids` used by the C08, C09, C10 lemmas -/
import IweModel.Spec.Content

namespace Iwe
namespace Tree

/-! ### basic facts: `idEq`, `anyIdEq`, `contains`, `find`, `ids` -/

@[simp] theorem idEq_mk (id : Option Nat) (n : Node) (cs : List Tree) (i : Nat) :
    (Tree.mk id n cs).idEq i = (id == some i) := rfl

@[simp] theorem id_mk (id : Option Nat) (n : Node) (cs : List Tree) : (Tree.mk id n cs).id = id := rfl
@[simp] theorem node_mk (id : Option Nat) (n : Node) (cs : List Tree) : (Tree.mk id n cs).node = n := rfl
@[simp] theorem children_mk (id : Option Nat) (n : Node) (cs : List Tree) :
    (Tree.mk id n cs).children = cs := rfl

theorem idEq_iff (t : Tree) (i : Nat) : t.idEq i = true ↔ t.id = some i := by
  obtain ⟨id, n, cs⟩ := t
  simp

mutual
theorem contains_iff (i : Nat) : (t : Tree) → (contains i t = true ↔ i ∈ ids t)
  | .mk id n cs => by
    have ih := containsL_iff i cs
    cases id with
    | none => simp [contains, ids, ih]
    | some j =>
      have : (j = i) ↔ (i = j) := eq_comm
      simp [contains, ids, ih, this]
theorem containsL_iff (i : Nat) : (cs : List Tree) → (containsL i cs = true ↔ i ∈ idsL cs)
  | [] => by simp [containsL, idsL]
  | t :: ts => by simp [containsL, idsL, contains_iff i t, containsL_iff i ts]
end

theorem contains_false_iff (i : Nat) (t : Tree) : contains i t = false ↔ i ∉ ids t := by
  rw [← contains_iff]; simp

theorem containsL_false_iff (i : Nat) (cs : List Tree) : containsL i cs = false ↔ i ∉ idsL cs := by
  rw [← containsL_iff]; simp

mutual
theorem find_isSome (i : Nat) : (t : Tree) → (find i t).isSome = contains i t
  | .mk id n cs => by
    have ih := findL_isSome i cs
    by_cases h : id = some i
    · simp [find, contains, h]
    · simp [find, contains, h, ih]
theorem findL_isSome (i : Nat) : (cs : List Tree) → (findL i cs).isSome = containsL i cs
  | [] => by simp [findL, containsL]
  | t :: ts => by
    have h1 := find_isSome i t
    have h2 := findL_isSome i ts
    simp only [findL, containsL]
    cases hf : find i t with
    | none => rw [hf] at h1; simp at h1; simp [h1, h2]
    | some r => rw [hf] at h1; simp at h1; simp [h1]
end

theorem find_eq_none_iff (i : Nat) (t : Tree) : find i t = none ↔ contains i t = false := by
  rw [← find_isSome]; cases find i t <;> simp

theorem findL_eq_none_iff (i : Nat) (cs : List Tree) : findL i cs = none ↔ containsL i cs = false := by
  rw [← findL_isSome]; cases findL i cs <;> simp

theorem find_some_mem {i : Nat} {t r : Tree} (h : find i t = some r) : i ∈ ids t := by
  rw [← contains_iff, ← find_isSome, h]; rfl

theorem findL_some_mem {i : Nat} {cs : List Tree} {r : Tree} (h : findL i cs = some r) : i ∈ idsL cs := by
  rw [← containsL_iff, ← findL_isSome, h]; rfl

theorem find_none_of_not_mem {i : Nat} {t : Tree} (h : i ∉ ids t) : find i t = none := by
  rw [find_eq_none_iff, contains_false_iff]; exact h

theorem findL_none_of_not_mem {i : Nat} {cs : List Tree} (h : i ∉ idsL cs) : findL i cs = none := by
  rw [findL_eq_none_iff, containsL_false_iff]; exact h

mutual
theorem find_id (i : Nat) : (t : Tree) → (r : Tree) → find i t = some r → r.id = some i
  | .mk id n cs, r, h => by
    by_cases hid : id = some i
    · simp [find, hid] at h; subst h; simp
    · simp [find, hid] at h; exact findL_id i cs r h
theorem findL_id (i : Nat) : (cs : List Tree) → (r : Tree) → findL i cs = some r → r.id = some i
  | [], r, h => by simp [findL] at h
  | t :: ts, r, h => by
    simp only [findL] at h
    cases hf : find i t with
    | none => rw [hf] at h; exact findL_id i ts r h
    | some r' => rw [hf] at h; simp at h; subst h; exact find_id i t _ hf
end

theorem anyIdEq_containsL {i : Nat} : {cs : List Tree} → anyIdEq i cs = true → containsL i cs = true
  | [], h => by simp [anyIdEq] at h
  | .mk id n cs :: ts, h => by
    simp only [anyIdEq, idEq_mk, Bool.or_eq_true] at h
    simp only [containsL, contains, Bool.or_eq_true]
    rcases h with h | h
    · exact .inl (.inl h)
    · exact .inr (anyIdEq_containsL h)

theorem anyIdEq_false_of_containsL {i : Nat} {cs : List Tree} (h : containsL i cs = false) :
    anyIdEq i cs = false := by
  cases h' : anyIdEq i cs with
  | false => rfl
  | true => rw [anyIdEq_containsL h'] at h; cases h

theorem anyIdEq_mem_idsL {i : Nat} {cs : List Tree} (h : anyIdEq i cs = true) : i ∈ idsL cs :=
  (containsL_iff i cs).mp (anyIdEq_containsL h)

theorem idsL_append (a b : List Tree) : idsL (a ++ b) = idsL a ++ idsL b := by
  induction a with
  | nil => simp [idsL]
  | cons x xs ih => simp [idsL, ih]

theorem sizeL_append' (a b : List Tree) : sizeL (a ++ b) = sizeL a + sizeL b := by
  induction a with
  | nil => simp [sizeL]
  | cons x xs ih => simp [sizeL, ih]; omega

end Tree
end Iwe
