/-
The reader (`Model/Reader.lean`) never reaches one of its panic sites on an event stream that follows the
parser's grammar (`Spec/Events.lean`), and on a complete stream it delivers every block it opened.
-/
import IweModel.Spec.Events

namespace Iwe
namespace ReaderTotal
open Reader Events

/-! ### "no empty list" below the top level -/

mutual
/-- a finished block: every list in it (at any depth) has at least one item -/
def NoEmpty : DBlock → Prop
  | .quote _ bs => NoEmptyL bs
  | .blist items => items ≠ [] ∧ NoEmptyLL items
  | .olist items => items ≠ [] ∧ NoEmptyLL items
  | .para _ _ => True
  | .header _ _ _ => True
  | .code _ _ _ => True
  | .rule _ => True
  | .table _ _ _ _ => True
def NoEmptyL : List DBlock → Prop
  | [] => True
  | b :: bs => NoEmpty b ∧ NoEmptyL bs
def NoEmptyLL : List (List DBlock) → Prop
  | [] => True
  | it :: its => NoEmptyL it ∧ NoEmptyLL its
end

theorem NoEmptyL_snoc (bs : List DBlock) (b : DBlock) :
    NoEmptyL (bs ++ [b]) ↔ NoEmptyL bs ∧ NoEmpty b := by
  induction bs with
  | nil => simp [NoEmptyL]
  | cons x xs ih => simp [NoEmptyL, ih, and_assoc]

theorem NoEmptyLL_snoc (its : List (List DBlock)) (it : List DBlock) :
    NoEmptyLL (its ++ [it]) ↔ NoEmptyLL its ∧ NoEmptyL it := by
  induction its with
  | nil => simp [NoEmptyLL]
  | cons x xs ih => simp [NoEmptyLL, ih, and_assoc]

theorem appendToItem_noEmpty (i : Inline) (pos : LineRange) :
    ∀ it : List DBlock, NoEmptyL it → NoEmptyL (appendToItem it i pos)
  | [], _ => by simp [appendToItem, NoEmptyL, NoEmpty]
  | [b], h => by
    cases b <;> simp_all [appendToItem, NoEmptyL, NoEmpty]
  | b :: b2 :: rest, h => by
    simp only [NoEmptyL] at h
    have := appendToItem_noEmpty i pos (b2 :: rest) (by simpa [NoEmptyL] using h.2)
    simp [appendToItem, NoEmptyL, h.1, this]

theorem appendToItems_ok (i : Inline) (pos : LineRange) :
    ∀ its : List (List DBlock), NoEmptyLL its → its ≠ [] →
      ∃ its', appendToItems its i pos = .ok its' ∧ NoEmptyLL its' ∧ its' ≠ []
  | [], _, hne => absurd rfl hne
  | [it], h, _ => by
    have h2 := appendToItem_noEmpty i pos it (by simpa [NoEmptyLL] using h)
    exact ⟨[appendToItem it i pos], by simp [appendToItems], by simpa [NoEmptyLL] using h2, by simp⟩
  | it :: it2 :: rest, h, _ => by
    simp only [NoEmptyLL] at h
    have ⟨its', h1, h2, _⟩ := appendToItems_ok i pos (it2 :: rest) (by simpa [NoEmptyLL] using h.2) (by simp)
    exact ⟨it :: its', by simp [appendToItems, h1], by simp [NoEmptyLL, h.1, h2], by simp⟩

mutual
theorem appendInline_ok (i : Inline) (pos : LineRange) :
    ∀ b : DBlock, NoEmpty b → ∃ b', appendInline b i pos = .ok b' ∧ NoEmpty b'
  | .para lr xs, _ => ⟨.para lr (xs ++ [i]), by simp [appendInline], by simp [NoEmpty]⟩
  | .header lr l xs, _ => ⟨.header lr l (xs ++ [i]), by simp [appendInline], by simp [NoEmpty]⟩
  | .code lr l t, _ => ⟨.code lr l t, by simp [appendInline], by simp [NoEmpty]⟩
  | .rule lr, _ => ⟨.rule lr, by simp [appendInline], by simp [NoEmpty]⟩
  | .quote lr bs, h => by
    have ⟨bs', h1, h2⟩ := appendToBlocks_ok i pos bs (by simpa [NoEmpty] using h)
    exact ⟨.quote lr bs', by simp [appendInline, h1], by simpa [NoEmpty] using h2⟩
  | .blist items, h => by
    simp only [NoEmpty] at h
    have ⟨its', h1, h2, h3⟩ := appendToItems_ok i pos items h.2 h.1
    exact ⟨.blist its', by simp [appendInline, h1], by simp [NoEmpty, h2, h3]⟩
  | .olist items, h => by
    simp only [NoEmpty] at h
    have ⟨its', h1, h2, h3⟩ := appendToItems_ok i pos items h.2 h.1
    exact ⟨.olist its', by simp [appendInline, h1], by simp [NoEmpty, h2, h3]⟩
  | .table lr hd al rows, _ => by
    cases rows with
    | nil =>
      simp only [appendInline]
      split <;> exact ⟨_, rfl, by simp [NoEmpty]⟩
    | cons r rs =>
      simp only [appendInline]
      split <;> exact ⟨_, rfl, by simp [NoEmpty]⟩
theorem appendToBlocks_ok (i : Inline) (pos : LineRange) :
    ∀ bs : List DBlock, NoEmptyL bs → ∃ bs', appendToBlocks bs i pos = .ok bs' ∧ NoEmptyL bs'
  | [], _ => ⟨[.para pos [i]], by simp [appendToBlocks], by simp [NoEmptyL, NoEmpty]⟩
  | [b], h => by
    have ⟨b', h1, h2⟩ := appendInline_ok i pos b (by simpa [NoEmptyL] using h)
    exact ⟨[b'], by simp [appendToBlocks, h1], by simpa [NoEmptyL] using h2⟩
  | b :: b2 :: rest, h => by
    simp only [NoEmptyL] at h
    have ⟨bs', h1, h2⟩ := appendToBlocks_ok i pos (b2 :: rest) (by simpa [NoEmptyL] using h.2)
    exact ⟨b :: bs', by simp [appendToBlocks, h1], by simp [NoEmptyL, h.1, h2]⟩
end

/-! ### small steps of the reader on finished / open blocks -/

theorem appendInline_table (lr : LineRange) (hd : List Inlines) (al : List Align) (rows : List (List Inlines))
    (i : Inline) (pos : LineRange) :
    ∃ hd' rows', appendInline (.table lr hd al rows) i pos = .ok (.table lr hd' al rows') := by
  cases rows with
  | nil =>
    simp only [appendInline]
    split <;> exact ⟨_, _, rfl⟩
  | cons r rs =>
    simp only [appendInline]
    split <;> exact ⟨_, _, rfl⟩

theorem pushLastItem_ok (b : DBlock) (hb : NoEmpty b) :
    ∀ its : List (List DBlock), NoEmptyLL its → its ≠ [] →
      ∃ its', pushLastItem its b = .ok its' ∧ NoEmptyLL its' ∧ its' ≠ []
  | [], _, hne => absurd rfl hne
  | [it], h, _ =>
    ⟨[it ++ [b]], by simp [pushLastItem], by
      simp only [NoEmptyLL] at h ⊢
      exact ⟨(NoEmptyL_snoc it b).2 ⟨h.1, hb⟩, trivial⟩, by simp⟩
  | it :: it2 :: rest, h, _ => by
    simp only [NoEmptyLL] at h
    have ⟨its', h1, h2, _⟩ := pushLastItem_ok b hb (it2 :: rest) (by simpa [NoEmptyLL] using h.2) (by simp)
    exact ⟨it :: its', by simp [pushLastItem, h1], by simp [NoEmptyLL, h.1, h2], by simp⟩

/-! ### frame stack ↔ reader state -/

/-- frames the reader keeps on its block stack -/
def isBlock : Frame → Bool
  | .para | .heading | .quote | .code | .table _ | .list _ => true
  | _ => false

/-- the last row of a table body has an open cell -/
def lastRowReady : List (List Inlines) → Prop
  | [] => False
  | [r] => r ≠ []
  | _ :: r2 :: rest => lastRowReady (r2 :: rest)

/-- a cell is open: in the header as long as there is no body row, else in the last row -/
def cellReady (hd : List Inlines) : List (List Inlines) → Prop
  | [] => hd ≠ []
  | r :: rs => lastRowReady (r :: rs)

theorem appendLast_ne {α} : ∀ (xs : List (List α)) (x : α) (ys : List (List α)), appendLast xs x = some ys → ys ≠ []
  | [], _, _, h => by simp [appendLast] at h
  | [l], x, ys, h => by simp [appendLast] at h; subst h; simp
  | l :: l2 :: rest, x, ys, h => by
    simp only [appendLast, Option.map_eq_some_iff] at h
    obtain ⟨a, _, rfl⟩ := h
    simp

theorem appendLast_some {α} : ∀ (xs : List (List α)) (x : α), xs ≠ [] → ∃ ys, appendLast xs x = some ys
  | [], _, h => absurd rfl h
  | [l], x, _ => ⟨_, rfl⟩
  | l :: l2 :: rest, x, _ => by
    obtain ⟨ys, h⟩ := appendLast_some (l2 :: rest) x (by simp)
    exact ⟨l :: ys, by simp [appendLast, h]⟩

theorem appendLastRow_ready : ∀ (rows : List (List Inlines)) (i : Inline) (rs : List (List Inlines)),
    appendLastRow rows i = some rs → lastRowReady rs
  | [], _, _, h => by simp [appendLastRow] at h
  | [r], i, rs, h => by
    simp only [appendLastRow, Option.map_eq_some_iff] at h
    obtain ⟨a, ha, rfl⟩ := h
    exact appendLast_ne r i a ha
  | r :: r2 :: rest, i, rs, h => by
    simp only [appendLastRow, Option.map_eq_some_iff] at h
    obtain ⟨a, ha, rfl⟩ := h
    have := appendLastRow_ready (r2 :: rest) i a ha
    cases a with
    | nil => simp [lastRowReady] at this
    | cons x xs => simpa [lastRowReady] using this

theorem appendLastRow_some : ∀ (rows : List (List Inlines)) (i : Inline), lastRowReady rows →
    ∃ rs, appendLastRow rows i = some rs
  | [], _, h => by simp [lastRowReady] at h
  | [r], i, h => by
    obtain ⟨ys, hy⟩ := appendLast_some r i h
    exact ⟨[ys], by simp [appendLastRow, hy]⟩
  | r :: r2 :: rest, i, h => by
    obtain ⟨rs, hr⟩ := appendLastRow_some (r2 :: rest) i (by simpa [lastRowReady] using h)
    exact ⟨r :: rs, by simp [appendLastRow, hr]⟩

theorem pushCell_ready : ∀ (rows : List (List Inlines)), rows ≠ [] → lastRowReady (pushCell rows)
  | [], h => absurd rfl h
  | [r], _ => by simp [pushCell, lastRowReady]
  | r :: r2 :: rest, _ => by
    have := pushCell_ready (r2 :: rest) (by simp)
    cases hp : pushCell (r2 :: rest) with
    | nil => simp [hp, lastRowReady] at this
    | cons x xs => simpa [pushCell, hp, lastRowReady] using this

/-- a block frame and the open block on the reader's stack that stands for it -/
def Match : Frame → DBlock → Prop
  | .para, .para _ _ => True
  | .heading, .header _ _ _ => True
  | .quote, .quote _ bs => NoEmptyL bs
  | .code, .code _ _ _ => True
  | .table c, .table _ hd _ rows => c = true → cellReady hd rows
  | .list b, .blist items => (b = true → items ≠ []) ∧ NoEmptyLL items
  | .list b, .olist items => (b = true → items ≠ []) ∧ NoEmptyLL items
  | _, _ => False

/-- the reader's block stack along the frame stack -/
def BlockRel : List Frame → List DBlock → Prop
  | [], stack => stack = []
  | f :: r, stack =>
    if isBlock f then ∃ b rest, stack = b :: rest ∧ Match f b ∧ BlockRel r rest
    else BlockRel r stack

/-- shapes of frame stacks the grammar reaches -/
def FsOk : List Frame → Bool
  | [] => true
  | .inline :: r => inlineAllowed r && FsOk r
  | .item :: r => (match r with | .list true :: _ => true | _ => false) && FsOk r
  | _ :: r => blockAllowed r && FsOk r

def inlDepth : List Frame → Nat
  | .inline :: r => inlDepth r + 1
  | _ => 0

def isMeta : List Frame → Bool
  | .metadata :: _ => true
  | _ => false

structure Rel (fs : List Frame) (st : St) : Prop where
  ok : FsOk fs = true
  blocks : BlockRel fs st.stack
  inl : st.inlines.length = inlDepth fs
  mb : st.metaBlock = isMeta fs

theorem Match.noEmpty {f : Frame} {b : DBlock} (h : Match f b) (hf : f ≠ .list false) : NoEmpty b := by
  cases f <;> cases b <;> simp_all [Match, NoEmpty]

theorem appendInline_match {f : Frame} {b : DBlock} (i : Inline) (pos : LineRange)
    (h : Match f b) (hf : f ≠ .list false) : ∃ b', appendInline b i pos = .ok b' ∧ Match f b' := by
  cases b with
  | para lr xs =>
    cases f <;> simp [Match] at h
    exact ⟨.para lr (xs ++ [i]), by simp [appendInline], by simp [Match]⟩
  | header lr l xs =>
    cases f <;> simp [Match] at h
    exact ⟨.header lr l (xs ++ [i]), by simp [appendInline], by simp [Match]⟩
  | code lr l t =>
    cases f <;> simp [Match] at h
    exact ⟨.code lr l t, by simp [appendInline], by simp [Match]⟩
  | rule lr => cases f <;> simp [Match] at h
  | table lr hd al rows =>
    cases f <;> simp [Match] at h
    cases rows with
    | nil =>
      simp only [appendInline]
      split
      · rename_i h' hh
        exact ⟨_, rfl, fun _ => appendLast_ne hd i h' hh⟩
      · exact ⟨_, rfl, h⟩
    | cons r rs =>
      simp only [appendInline]
      split
      · rename_i rs' hh
        refine ⟨_, rfl, fun _ => ?_⟩
        have := appendLastRow_ready (r :: rs) i rs' hh
        cases rs' with
        | nil => simp [lastRowReady] at this
        | cons x xs => simpa [cellReady] using this
      · exact ⟨_, rfl, h⟩
  | quote lr bs =>
    cases f <;> simp [Match] at h
    obtain ⟨bs', h1, h2⟩ := appendToBlocks_ok i pos bs h
    exact ⟨.quote lr bs', by simp [appendInline, h1], by simpa [Match] using h2⟩
  | blist items =>
    cases f <;> simp [Match] at h
    rename_i hasItem
    cases hasItem
    · exact absurd rfl hf
    · obtain ⟨its', h1, h2, h3⟩ := appendToItems_ok i pos items h.2 (h.1 rfl)
      exact ⟨.blist its', by simp [appendInline, h1], by simp [Match, h2, h3]⟩
  | olist items =>
    cases f <;> simp [Match] at h
    rename_i hasItem
    cases hasItem
    · exact absurd rfl hf
    · obtain ⟨its', h1, h2, h3⟩ := appendToItems_ok i pos items h.2 (h.1 rfl)
      exact ⟨.olist its', by simp [appendInline, h1], by simp [Match, h2, h3]⟩

theorem BlockRel_block {f : Frame} {r : List Frame} {stack : List DBlock} (hf : isBlock f = true) :
    BlockRel (f :: r) stack ↔ ∃ b rest, stack = b :: rest ∧ Match f b ∧ BlockRel r rest := by
  simp [BlockRel, hf]

theorem FsOk_block {f : Frame} {r : List Frame} (hf : isBlock f = true) :
    FsOk (f :: r) = (blockAllowed r && FsOk r) := by
  cases f <;> simp [isBlock] at hf <;> simp [FsOk]

theorem inlDepth_block {f : Frame} {r : List Frame} (hf : isBlock f = true) : inlDepth (f :: r) = 0 := by
  cases f <;> simp [isBlock] at hf <;> simp [inlDepth]

theorem isMeta_block {f : Frame} {r : List Frame} (hf : isBlock f = true) : isMeta (f :: r) = false := by
  cases f <;> simp [isBlock] at hf <;> simp [isMeta]

theorem item_inv {r : List Frame} (hok : FsOk (.item :: r) = true) :
    ∃ r', r = .list true :: r' ∧ FsOk r = true := by
  simp only [FsOk, Bool.and_eq_true] at hok
  obtain ⟨h1, h2⟩ := hok
  split at h1
  · exact ⟨_, rfl, h2⟩
  · simp at h1

theorem blockAllowed_cases {r : List Frame} (h : blockAllowed r = true) (hok : FsOk r = true) :
    r = [] ∨ (∃ r', r = .quote :: r') ∨ (∃ r', r = .item :: .list true :: r') := by
  cases r with
  | nil => exact .inl rfl
  | cons f r' =>
    cases f <;> simp [blockAllowed] at h
    · exact .inr (.inl ⟨_, rfl⟩)
    · obtain ⟨r'', rfl, _⟩ := item_inv hok
      exact .inr (.inr ⟨_, rfl⟩)

theorem inlDepth_of_blockAllowed {fs : List Frame} (h : blockAllowed fs = true) : inlDepth fs = 0 := by
  cases fs with
  | nil => rfl
  | cons f r => cases f <;> simp [blockAllowed] at h <;> simp [inlDepth]

theorem isMeta_of_blockAllowed {fs : List Frame} (h : blockAllowed fs = true) : isMeta fs = false := by
  cases fs with
  | nil => rfl
  | cons f r => cases f <;> simp [blockAllowed] at h <;> simp [isMeta]

theorem isMeta_of_inlineAllowed {fs : List Frame} (h : inlineAllowed fs = true) : isMeta fs = false := by
  cases fs with
  | nil => rfl
  | cons f r => cases f <;> simp [inlineAllowed] at h <;> simp [isMeta]

/-- `pop_block` of a finished block below which a block may stand -/
theorem popBlock_pres (st : St) (b : DBlock) (rest : List DBlock) (r : List Frame)
    (hs : st.stack = b :: rest) (hb : NoEmpty b) (ha : blockAllowed r = true) (hok : FsOk r = true)
    (hr : BlockRel r rest) :
    ∃ st', popBlock st = .ok st' ∧ BlockRel r st'.stack ∧ st'.inlines = st.inlines ∧
      st'.metaBlock = st.metaBlock := by
  obtain ⟨inl, stack, blocks, mb, md⟩ := st
  simp only at hs
  subst hs
  rcases blockAllowed_cases ha hok with rfl | ⟨r', rfl⟩ | ⟨r', rfl⟩
  · simp only [BlockRel] at hr
    subst hr
    exact ⟨_, rfl, by simp [BlockRel], rfl, rfl⟩
  · obtain ⟨t, rest', rfl, hm, hr'⟩ := (BlockRel_block rfl).1 hr
    cases t <;> simp [Match] at hm
    rename_i lr bs
    have hp : popBlock ⟨inl, b :: .quote lr bs :: rest', blocks, mb, md⟩ =
        .ok ⟨inl, .quote lr (bs ++ [b]) :: rest', blocks, mb, md⟩ := by
      simp [popBlock, isContainer, appendBlock]
    refine ⟨_, hp, ?_, rfl, rfl⟩
    exact (BlockRel_block rfl).2 ⟨_, _, rfl, by simpa [Match] using (NoEmptyL_snoc bs b).2 ⟨hm, hb⟩, hr'⟩
  · have hr2 : BlockRel (.list true :: r') rest := by simpa [BlockRel, isBlock] using hr
    obtain ⟨t, rest', rfl, hm, hr'⟩ := (BlockRel_block rfl).1 hr2
    cases t <;> simp [Match] at hm
    · rename_i items
      obtain ⟨its', h1, h2, h3⟩ := pushLastItem_ok b hb items hm.2 hm.1
      have hp : popBlock ⟨inl, b :: .blist items :: rest', blocks, mb, md⟩ =
          .ok ⟨inl, .blist its' :: rest', blocks, mb, md⟩ := by
        simp [popBlock, isContainer, appendBlock, h1]
      refine ⟨_, hp, ?_, rfl, rfl⟩
      have : BlockRel (.list true :: r') (.blist its' :: rest') :=
        (BlockRel_block rfl).2 ⟨_, _, rfl, by simp [Match, h2, h3], hr'⟩
      simpa [BlockRel, isBlock] using this
    · rename_i items
      obtain ⟨its', h1, h2, h3⟩ := pushLastItem_ok b hb items hm.2 hm.1
      have hp : popBlock ⟨inl, b :: .olist items :: rest', blocks, mb, md⟩ =
          .ok ⟨inl, .olist its' :: rest', blocks, mb, md⟩ := by
        simp [popBlock, isContainer, appendBlock, h1]
      refine ⟨_, hp, ?_, rfl, rfl⟩
      have : BlockRel (.list true :: r') (.olist its' :: rest') :=
        (BlockRel_block rfl).2 ⟨_, _, rfl, by simp [Match, h2, h3], hr'⟩
      simpa [BlockRel, isBlock] using this

theorem pop_pres {f : Frame} {r : List Frame} {st : St} (hrel : Rel (f :: r) st)
    (hf : isBlock f = true) (hf2 : f ≠ .list false) : ∃ st', popBlock st = .ok st' ∧ Rel r st' := by
  obtain ⟨hok, hb, hinl, hmb⟩ := hrel
  obtain ⟨b, rest, hs, hm, hr⟩ := (BlockRel_block hf).1 hb
  rw [FsOk_block hf, Bool.and_eq_true] at hok
  obtain ⟨st', h1, h2, h3, h4⟩ := popBlock_pres st b rest r hs (hm.noEmpty hf2) hok.1 hok.2 hr
  refine ⟨st', h1, hok.2, h2, ?_, ?_⟩
  · rw [h3, hinl, inlDepth_block hf, inlDepth_of_blockAllowed hok.1]
  · rw [h4, hmb, isMeta_block hf, isMeta_of_blockAllowed hok.1]

theorem push_pres {f : Frame} {fs : List Frame} {st : St} {b : DBlock} (hrel : Rel fs st)
    (ha : blockAllowed fs = true) (hf : isBlock f = true) (hm : Match f b) :
    Rel (f :: fs) (pushBlock st b) := by
  obtain ⟨hok, hb, hinl, hmb⟩ := hrel
  refine ⟨?_, ?_, ?_, ?_⟩
  · rw [FsOk_block hf, ha, hok]; rfl
  · exact (BlockRel_block hf).2 ⟨b, st.stack, rfl, hm, hb⟩
  · rw [inlDepth_block hf, ← inlDepth_of_blockAllowed ha, ← hinl]; rfl
  · rw [isMeta_block hf, ← isMeta_of_blockAllowed ha, ← hmb]; rfl

/-- a finished inline reaches the innermost open block -/
theorem emit_core {st : St} {f : Frame} {r : List Frame} (i : Inline) (pos : LineRange)
    (hi : st.inlines = []) (hf : isBlock f = true) (hf2 : f ≠ .list false)
    (hb : BlockRel (f :: r) st.stack) :
    ∃ st', emit st i pos = .ok st' ∧ BlockRel (f :: r) st'.stack ∧ st'.inlines = st.inlines ∧
      st'.metaBlock = st.metaBlock := by
  obtain ⟨inl, stack, blocks, mb, md⟩ := st
  simp only at hi hb
  subst hi
  obtain ⟨b, rest, rfl, hm, hr⟩ := (BlockRel_block hf).1 hb
  obtain ⟨b', h1, h2⟩ := appendInline_match i pos hm hf2
  have he : emit ⟨[], b :: rest, blocks, mb, md⟩ i pos = .ok ⟨[], b' :: rest, blocks, mb, md⟩ := by
    simp [emit, top, h1, setTop]
  exact ⟨_, he, (BlockRel_block hf).2 ⟨b', rest, rfl, h2, hr⟩, rfl, rfl⟩

theorem emit_lift {fs : List Frame} {f : Frame} {r : List Frame} {st : St} (i : Inline) (pos : LineRange)
    (hrel : Rel fs st) (hd : inlDepth fs = 0) (hf : isBlock f = true) (hf2 : f ≠ .list false)
    (heq : ∀ s, BlockRel fs s ↔ BlockRel (f :: r) s) : ∃ st', emit st i pos = .ok st' ∧ Rel fs st' := by
  obtain ⟨hok, hb, hinl, hmb⟩ := hrel
  have hi : st.inlines = [] := by
    rw [hd] at hinl
    exact List.eq_nil_of_length_eq_zero hinl
  obtain ⟨st', h1, h2, h3, h4⟩ := emit_core i pos hi hf hf2 ((heq _).1 hb)
  exact ⟨st', h1, hok, (heq _).2 h2, by rw [h3]; exact hinl, by rw [h4]; exact hmb⟩

theorem emit_pres {fs : List Frame} {st : St} (i : Inline) (pos : LineRange) (hrel : Rel fs st)
    (ha : inlineAllowed fs = true ∨ (∃ r, fs = .html :: .quote :: r) ∨ (∃ r, fs = .html :: .item :: r)) :
    ∃ st', emit st i pos = .ok st' ∧ Rel fs st' := by
  rcases ha with ha | ⟨r, rfl⟩ | ⟨r, rfl⟩
  · cases fs with
    | nil => simp [inlineAllowed] at ha
    | cons f r =>
      cases f <;> simp [inlineAllowed] at ha
      · exact emit_lift (f := .para) (r := r) i pos hrel rfl rfl (by simp) (fun s => Iff.rfl)
      · exact emit_lift (f := .heading) (r := r) i pos hrel rfl rfl (by simp) (fun s => Iff.rfl)
      · rename_i c
        cases c <;> simp [inlineAllowed] at ha
        exact emit_lift (f := .table true) (r := r) i pos hrel rfl rfl (by simp) (fun s => Iff.rfl)
      · obtain ⟨r', rfl, _⟩ := item_inv hrel.ok
        exact emit_lift (f := .list true) (r := r') i pos hrel rfl rfl (by simp)
          (fun s => by simp [BlockRel, isBlock])
      · obtain ⟨hok, hb, hinl, hmb⟩ := hrel
        obtain ⟨inl, stack, blocks, mb, md⟩ := st
        simp only [inlDepth] at hinl
        cases inl with
        | nil => simp at hinl
        | cons o rest =>
          exact ⟨_, rfl, hok, hb, by simpa [inlDepth] using hinl, hmb⟩
  · exact emit_lift (f := .quote) (r := r) i pos hrel rfl rfl (by simp)
      (fun s => by simp [BlockRel, isBlock])
  · have h1 : FsOk (.item :: r) = true := by
      have := hrel.ok
      simp only [FsOk, Bool.and_eq_true] at this ⊢
      exact this.2
    obtain ⟨r', rfl, _⟩ := item_inv h1
    exact emit_lift (f := .list true) (r := r') i pos hrel rfl rfl (by simp)
      (fun s => by simp [BlockRel, isBlock])

theorem popInline_pres {r : List Frame} {st : St} (hrel : Rel (.inline :: r) st) :
    ∃ st', popInline st = .ok st' ∧ Rel r st' := by
  obtain ⟨hok, hb, hinl, hmb⟩ := hrel
  obtain ⟨inl, stack, blocks, mb, md⟩ := st
  simp only [FsOk, Bool.and_eq_true] at hok
  cases inl with
  | nil => simp [inlDepth] at hinl
  | cons o rest =>
    have hrel' : Rel r ⟨rest, stack, blocks, mb, md⟩ :=
      ⟨hok.2, by simpa [BlockRel, isBlock] using hb, by simpa [inlDepth] using hinl,
        by rw [isMeta_of_inlineAllowed hok.1]; simpa [isMeta] using hmb⟩
    exact emit_pres o.close o.pos hrel' (.inl hok.1)

theorem BlockRel_code {l : LineRange} {lang : Option String} {txt txt' : String} {rest : List DBlock} :
    ∀ {fs : List Frame}, BlockRel fs (.code l lang txt :: rest) → BlockRel fs (.code l lang txt' :: rest)
  | [], h => by simp [BlockRel] at h
  | f :: r, h => by
    by_cases hf : isBlock f = true
    · obtain ⟨b, rest', heq, hm, hr⟩ := (BlockRel_block hf).1 h
      simp only [List.cons.injEq] at heq
      obtain ⟨rfl, rfl⟩ := heq
      refine (BlockRel_block hf).2 ⟨_, _, rfl, ?_, hr⟩
      cases f <;> simp [Match] at hm ⊢
    · simp only [BlockRel, hf] at h ⊢
      exact BlockRel_code h

theorem stack_of_inlineAllowed : ∀ {fs : List Frame} {stack : List DBlock}, FsOk fs = true →
    inlineAllowed fs = true → BlockRel fs stack → ∃ b rest, stack = b :: rest
  | [], _, _, ha, _ => by simp [inlineAllowed] at ha
  | f :: r, stack, hok, ha, hb => by
    cases f <;> simp [inlineAllowed] at ha
    · obtain ⟨b, rest, h, _⟩ := (BlockRel_block (f := .para) rfl).1 hb
      exact ⟨b, rest, h⟩
    · obtain ⟨b, rest, h, _⟩ := (BlockRel_block (f := .heading) rfl).1 hb
      exact ⟨b, rest, h⟩
    · rename_i c
      cases c <;> simp [inlineAllowed] at ha
      obtain ⟨b, rest, h, _⟩ := (BlockRel_block (f := .table true) rfl).1 hb
      exact ⟨b, rest, h⟩
    · obtain ⟨r', rfl, _⟩ := item_inv hok
      have hb2 : BlockRel (.list true :: r') stack := by simpa [BlockRel, isBlock] using hb
      obtain ⟨b, rest, h, _⟩ := (BlockRel_block rfl).1 hb2
      exact ⟨b, rest, h⟩
    · simp only [FsOk, Bool.and_eq_true] at hok
      exact stack_of_inlineAllowed hok.2 hok.1 (by simpa [BlockRel, isBlock] using hb)

theorem textAllowed_cases {fs : List Frame} (h : textAllowed fs = true) :
    (∃ r, fs = .code :: r) ∨ (∃ r, fs = .metadata :: r) ∨ (∃ r, fs = .html :: .quote :: r) ∨
      (∃ r, fs = .html :: .item :: r) ∨ inlineAllowed fs = true := by
  unfold textAllowed at h
  split at h
  · exact .inl ⟨_, rfl⟩
  · exact .inr (.inl ⟨_, rfl⟩)
  · exact .inr (.inr (.inl ⟨_, rfl⟩))
  · exact .inr (.inr (.inr (.inl ⟨_, rfl⟩)))
  · exact .inr (.inr (.inr (.inr h)))

local macro "inv_step " h:ident : tactic =>
  `(tactic| (simp only [Events.step] at $h:ident; split at $h:ident <;> simp at $h:ident; subst $h:ident))

/-- one event: the grammar's step is matched by a successful step of the reader -/
theorem step_pres (content : Position.Bytes) {fs fs' : List Frame} {st : St} (ev : Ev)
    (hrel : Rel fs st) (hstep : Events.step fs ev = some fs') :
    ∃ st', Reader.step content st ev = .ok st' ∧ Rel fs' st' := by
  cases ev with
  | startPara s e =>
    inv_step hstep; rename_i ha
    exact ⟨_, rfl, push_pres hrel ha rfl (by simp [Match])⟩
  | startHeading s e l =>
    inv_step hstep; rename_i ha
    exact ⟨_, rfl, push_pres hrel ha rfl (by simp [Match])⟩
  | startQuote s e =>
    inv_step hstep; rename_i ha
    exact ⟨_, rfl, push_pres hrel ha rfl (by simp [Match, NoEmptyL])⟩
  | startCode s e lang =>
    inv_step hstep; rename_i ha
    exact ⟨_, rfl, push_pres hrel ha rfl (by simp [Match])⟩
  | startTable s e al =>
    inv_step hstep; rename_i ha
    exact ⟨_, rfl, push_pres hrel ha rfl (by simp [Match])⟩
  | startList ordered =>
    inv_step hstep; rename_i ha
    exact ⟨_, rfl, push_pres hrel ha rfl (by cases ordered <;> simp [Match, NoEmptyLL])⟩
  | startHtml =>
    inv_step hstep; rename_i ha
    obtain ⟨hok, hb, hinl, hmb⟩ := hrel
    exact ⟨_, rfl, by simp [FsOk, ha, hok], by simpa [BlockRel, isBlock] using hb,
      by rw [hinl, inlDepth_of_blockAllowed ha]; rfl, by rw [hmb, isMeta_of_blockAllowed ha]; rfl⟩
  | rule s e =>
    inv_step hstep; rename_i ha
    obtain ⟨hok, hb, hinl, hmb⟩ := hrel
    obtain ⟨st', h1, h2, h3, h4⟩ := popBlock_pres (pushBlock st (.rule (lr content s e))) _ _ fs rfl
      (by simp [NoEmpty]) ha hok hb
    exact ⟨st', h1, hok, h2, by rw [h3]; exact hinl, by rw [h4]; exact hmb⟩
  | endPara => inv_step hstep; exact pop_pres hrel rfl (by simp)
  | endHeading => inv_step hstep; exact pop_pres hrel rfl (by simp)
  | endQuote => inv_step hstep; exact pop_pres hrel rfl (by simp)
  | endCode => inv_step hstep; exact pop_pres hrel rfl (by simp)
  | endTable => inv_step hstep; exact pop_pres hrel rfl (by simp)
  | endList => inv_step hstep; exact pop_pres hrel rfl (by simp)
  | endHtml =>
    inv_step hstep
    obtain ⟨hok, hb, hinl, hmb⟩ := hrel
    simp only [FsOk, Bool.and_eq_true] at hok
    exact ⟨_, rfl, hok.2, by simpa [BlockRel, isBlock] using hb,
      by rw [hinl, inlDepth_of_blockAllowed hok.1]; rfl, by rw [hmb, isMeta_of_blockAllowed hok.1]; rfl⟩
  | endItem =>
    inv_step hstep
    obtain ⟨hok, hb, hinl, hmb⟩ := hrel
    obtain ⟨r', rfl, hok'⟩ := item_inv hok
    exact ⟨_, rfl, hok', by simpa [BlockRel, isBlock] using hb, by simpa [inlDepth] using hinl,
      by simpa [isMeta] using hmb⟩
  | ignored =>
    simp only [Events.step, Option.some.injEq] at hstep
    subst hstep
    exact ⟨_, rfl, hrel⟩
  | startMeta =>
    inv_step hstep; rename_i ha
    obtain ⟨hok, hb, hinl, hmb⟩ := hrel
    exact ⟨_, rfl, by simp [FsOk, ha, hok], by simpa [BlockRel, isBlock] using hb,
      by rw [inlDepth_of_blockAllowed ha] at hinl; simpa [inlDepth] using hinl, by simp [isMeta]⟩
  | endMeta =>
    inv_step hstep
    obtain ⟨hok, hb, hinl, hmb⟩ := hrel
    simp only [FsOk, Bool.and_eq_true] at hok
    exact ⟨_, rfl, hok.2, by simpa [BlockRel, isBlock] using hb,
      by rw [inlDepth_of_blockAllowed hok.1]; simpa [inlDepth] using hinl,
      by rw [isMeta_of_blockAllowed hok.1]⟩
  | startInline k s e =>
    inv_step hstep; rename_i ha
    obtain ⟨hok, hb, hinl, hmb⟩ := hrel
    exact ⟨_, rfl, by simp [FsOk, ha, hok], by simpa [BlockRel, isBlock] using hb,
      by simp [inlDepth, hinl], by rw [hmb, isMeta_of_inlineAllowed ha]; rfl⟩
  | endInline => inv_step hstep; exact popInline_pres hrel
  | code s e t => inv_step hstep; rename_i ha; exact emit_pres _ _ hrel (.inl ha)
  | math s e t => inv_step hstep; rename_i ha; exact emit_pres _ _ hrel (.inl ha)
  | inlineHtml s e t => inv_step hstep; rename_i ha; exact emit_pres _ _ hrel (.inl ha)
  | startItem =>
    inv_step hstep
    obtain ⟨hok, hb, hinl, hmb⟩ := hrel
    obtain ⟨inl, stack, blocks, mb, md⟩ := st
    rename_i hasItem r
    obtain ⟨blk, rest, rfl, hm, hr⟩ := (BlockRel_block rfl).1 hb
    have hok' : FsOk (.item :: .list true :: r) = true := by simpa [FsOk] using hok
    cases blk <;> simp [Match] at hm
    · rename_i items
      have hs : Reader.step content ⟨inl, .blist items :: rest, blocks, mb, md⟩ .startItem =
          .ok ⟨inl, .blist (items ++ [[]]) :: rest, blocks, mb, md⟩ := by
        simp [Reader.step, top, appendItem, setTop]
      have : BlockRel (.list true :: r) (.blist (items ++ [[]]) :: rest) :=
        (BlockRel_block rfl).2 ⟨_, _, rfl, by simp [Match, NoEmptyLL_snoc, hm.2, NoEmptyL], hr⟩
      exact ⟨_, hs, hok', by simpa [BlockRel, isBlock] using this, by simpa [inlDepth] using hinl,
        by simpa [isMeta] using hmb⟩
    · rename_i items
      have hs : Reader.step content ⟨inl, .olist items :: rest, blocks, mb, md⟩ .startItem =
          .ok ⟨inl, .olist (items ++ [[]]) :: rest, blocks, mb, md⟩ := by
        simp [Reader.step, top, appendItem, setTop]
      have : BlockRel (.list true :: r) (.olist (items ++ [[]]) :: rest) :=
        (BlockRel_block rfl).2 ⟨_, _, rfl, by simp [Match, NoEmptyLL_snoc, hm.2, NoEmptyL], hr⟩
      exact ⟨_, hs, hok', by simpa [BlockRel, isBlock] using this, by simpa [inlDepth] using hinl,
        by simpa [isMeta] using hmb⟩
  | startRow =>
    inv_step hstep
    obtain ⟨hok, hb, hinl, hmb⟩ := hrel
    obtain ⟨inl, stack, blocks, mb, md⟩ := st
    obtain ⟨blk, rest, rfl, hm, hr⟩ := (BlockRel_block rfl).1 hb
    cases blk <;> simp [Match] at hm
    rename_i l h al rows
    have hs : Reader.step content ⟨inl, .table l h al rows :: rest, blocks, mb, md⟩ .startRow =
        .ok ⟨inl, .table l h al (rows ++ [[]]) :: rest, blocks, mb, md⟩ := by
      simp [Reader.step, top, appendRow, setTop]
    exact ⟨_, hs, by simpa [FsOk] using hok, (BlockRel_block rfl).2 ⟨_, _, rfl, by simp [Match], hr⟩,
      by simpa [inlDepth] using hinl, by simpa [isMeta] using hmb⟩
  | startCell =>
    inv_step hstep
    obtain ⟨hok, hb, hinl, hmb⟩ := hrel
    obtain ⟨inl, stack, blocks, mb, md⟩ := st
    obtain ⟨blk, rest, rfl, hm, hr⟩ := (BlockRel_block rfl).1 hb
    cases blk <;> simp [Match] at hm
    rename_i l h al rows
    cases rows with
    | nil =>
      have hs : Reader.step content ⟨inl, .table l h al [] :: rest, blocks, mb, md⟩ .startCell =
          .ok ⟨inl, .table l (h ++ [[]]) al [] :: rest, blocks, mb, md⟩ := by
        simp [Reader.step, top, appendCell, setTop]
      exact ⟨_, hs, by simpa [FsOk] using hok,
        (BlockRel_block rfl).2 ⟨_, _, rfl, by simp [Match, cellReady], hr⟩,
        by simpa [inlDepth] using hinl, by simpa [isMeta] using hmb⟩
    | cons row rows =>
      have hs : Reader.step content ⟨inl, .table l h al (row :: rows) :: rest, blocks, mb, md⟩ .startCell =
          .ok ⟨inl, .table l h al (pushCell (row :: rows)) :: rest, blocks, mb, md⟩ := by
        simp [Reader.step, top, appendCell, setTop]
      have hready := pushCell_ready (row :: rows) (by simp)
      exact ⟨_, hs, by simpa [FsOk] using hok,
        (BlockRel_block rfl).2 ⟨_, _, rfl, by
          cases hp : pushCell (row :: rows) with
          | nil => simp [hp, lastRowReady] at hready
          | cons x xs => simpa [Match, cellReady, hp] using hready, hr⟩,
        by simpa [inlDepth] using hinl, by simpa [isMeta] using hmb⟩
  | text s e t =>
    inv_step hstep; rename_i ha
    by_cases hm : st.metaBlock = true
    · obtain ⟨hok, hb, hinl, hmb⟩ := hrel
      exact ⟨{ st with metadata := some t }, by simp [Reader.step, hm], hok, hb, hinl, hmb⟩
    · have hmeta : isMeta fs = false := by
        rw [← hrel.mb]; simpa using hm
      simp only [Reader.step, hm, Bool.false_eq_true, ↓reduceIte]
      split
      · -- `top_block()` on an empty stack
        rename_i err htop
        exfalso
        have hne : ∃ b rest, st.stack = b :: rest := by
          rcases textAllowed_cases ha with ⟨r, rfl⟩ | ⟨r, rfl⟩ | ⟨r, rfl⟩ | ⟨r, rfl⟩ | hi
          · obtain ⟨b, rest, h, _⟩ := (BlockRel_block rfl).1 hrel.blocks
            exact ⟨b, rest, h⟩
          · simp [isMeta] at hmeta
          · have hb2 : BlockRel (.quote :: r) st.stack := by
              simpa [BlockRel, isBlock] using hrel.blocks
            obtain ⟨b, rest, h, _⟩ := (BlockRel_block rfl).1 hb2
            exact ⟨b, rest, h⟩
          · have h1 : FsOk (.item :: r) = true := by
              have := hrel.ok
              simp only [FsOk, Bool.and_eq_true] at this ⊢
              exact this.2
            obtain ⟨r', rfl, _⟩ := item_inv h1
            have hb2 : BlockRel (.list true :: r') st.stack := by
              simpa [BlockRel, isBlock] using hrel.blocks
            obtain ⟨b, rest, h, _⟩ := (BlockRel_block rfl).1 hb2
            exact ⟨b, rest, h⟩
          · exact stack_of_inlineAllowed hrel.ok hi hrel.blocks
        obtain ⟨b, rest, hs⟩ := hne
        simp [top, hs] at htop
      · -- inside a code block
        rename_i l lang txt htop
        obtain ⟨hok, hb, hinl, hmb⟩ := hrel
        obtain ⟨inl, stack, blocks, mb, md⟩ := st
        cases stack with
        | nil => simp [top] at htop
        | cons b rest =>
          simp only [top, Except.ok.injEq] at htop
          subst htop
          exact ⟨_, rfl, hok, BlockRel_code hb, hinl, hmb⟩
      · rename_i b hnc htop
        refine emit_pres _ _ hrel ?_
        rcases textAllowed_cases ha with ⟨r, rfl⟩ | ⟨r, rfl⟩ | hq | hq | hi
        · exfalso
          obtain ⟨b', rest, hs, hmt, _⟩ := (BlockRel_block rfl).1 hrel.blocks
          cases b' <;> simp [Match] at hmt
          rename_i l lang txt
          simp only [top, hs, Except.ok.injEq] at htop
          exact hnc l lang txt htop.symm
        · simp [isMeta] at hmeta
        · exact .inr (.inl hq)
        · exact .inr (.inr hq)
        · exact .inl hi

theorem run_pres (content : Position.Bytes) :
    ∀ (evs : List Ev) {fs fs' : List Frame} {st : St}, Rel fs st → Events.run fs evs = some fs' →
      ∃ st', Reader.run content st evs = .ok st' ∧ Rel fs' st'
  | [], fs, fs', st, hrel, h => by
    simp only [Events.run, Option.some.injEq] at h
    subst h
    exact ⟨st, rfl, hrel⟩
  | ev :: evs, fs, fs', st, hrel, h => by
    simp only [Events.run] at h
    split at h
    · simp at h
    · rename_i fs1 h1
      obtain ⟨st1, hs1, hrel1⟩ := step_pres content ev hrel h1
      obtain ⟨st', hs', hrel'⟩ := run_pres content evs hrel1 h
      exact ⟨st', by simp [Reader.run, hs1, hs'], hrel'⟩

theorem rel_init : Rel [] {} := ⟨rfl, rfl, rfl, rfl⟩

/-- on every prefix of a grammatical stream the reader is still running (no `expect`/`unwrap`/`panic!` reached) -/
theorem run_total_core (content : Position.Bytes) (evs : List Ev)
    (h : wellFormedPrefix evs = true) : ∃ st, Reader.run content {} evs = .ok st := by
  unfold wellFormedPrefix at h
  obtain ⟨fs', hfs⟩ := Option.isSome_iff_exists.1 h
  obtain ⟨st, hs, _⟩ := run_pres content evs rel_init hfs
  exact ⟨st, hs⟩

/-- on a complete grammatical stream nothing is left on the reader's stacks: every block that was opened is
part of the result (none is silently dropped at the end of input) -/
theorem run_delivers_core (content : Position.Bytes) (evs : List Ev)
    (h : wellFormed evs = true) :
    ∃ st, Reader.run content {} evs = .ok st ∧ st.stack = [] ∧ st.inlines = [] ∧ st.metaBlock = false := by
  unfold wellFormed at h
  have hfs : Events.run [] evs = some [] := by simpa using h
  obtain ⟨st, hs, hrel⟩ := run_pres content evs rel_init hfs
  exact ⟨st, hs, hrel.blocks, List.eq_nil_of_length_eq_zero hrel.inl, hrel.mb⟩

/-- `MarkdownEventsReader::read` returns on every complete grammatical stream -/
theorem read_total_core (content : Position.Bytes) (evs : List Ev)
    (h : wellFormed evs = true) : ∃ r, Reader.read content evs = .ok r := by
  obtain ⟨st, hs, _⟩ := run_delivers_core content evs h
  exact ⟨(st.blocks, st.metadata), by simp [Reader.read, hs]⟩

/-- finding D9, kernel-checked on the model: `Text` inside an HTML block at top level (what pulldown-cmark
emits for an HTML block indented by 1–3 spaces) reaches `top_block()` with an empty stack -/
theorem html_text_at_top_level_panics (content : Position.Bytes) (s e : Nat) (t : String) :
    Reader.read content [.startHtml, .text s e t, .endHtml] = .error .emptyStack := by
  rfl

/-- …and that stream is exactly what the grammar excludes -/
theorem html_text_at_top_level_not_wellFormed (s e : Nat) (t : String) :
    wellFormedPrefix [.startHtml, .text s e t, .endHtml] = false := by
  rfl

end ReaderTotal
end Iwe
