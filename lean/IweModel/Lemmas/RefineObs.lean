/-
Helper lemmas for C04: every observation of a graph satisfying `Inv g lib` is a function of `lib`.
-/
import IweModel.Lemmas.RefineInv

namespace Iwe

/-! ## `to_markdown` -/

theorem InvWith.title_eq {segs : List Seg} {g : Graph} {lib : Library} (h : InvWith segs g lib) :
    g.title = Spec.titleOf lib := by
  funext k
  exact h.titles k

theorem InvWith.normNode_eq {segs : List Seg} {g : Graph} {lib : Library} (h : InvWith segs g lib) :
    g.normNode = Spec.normNode lib := by
  funext n
  cases n <;> simp [Graph.normNode, Spec.normNode, h.title_eq] <;> (rename_i t; cases t <;> rfl)

theorem Spec.normNode_document (lib : Library) (k : String) :
    Spec.normNode lib (.document k) = .document k := rfl

namespace Project

theorem firstIsLeaf_withIds (norm : Node → Node) (b b' : Nat) (ts : List BTree) :
    firstIsLeaf (forestWithIds norm b ts) = firstIsLeaf (forestWithIds norm b' ts) := by
  cases ts with
  | nil => rfl
  | cons t ts => cases t; simp [forestWithIds, treeWithIds, firstIsLeaf]

mutual
/-- the projection to rendered blocks does not look at node ids -/
theorem tree_withIds (norm : Node → Node) (dir : String) : ∀ (t : BTree) (lvl b b' : Nat),
    tree dir lvl (treeWithIds norm b t) = tree dir lvl (treeWithIds norm b' t)
  | .mk n lr cs, lvl, b, b' => by
    simp only [treeWithIds, tree]
    cases norm n <;> simp only []
    · exact forest_withIds norm dir cs lvl _ _
    · rw [forest_withIds norm dir cs (lvl + 1) (b + 1) (b' + 1)]
    · rw [forest_withIds norm dir cs 0 (b + 1) (b' + 1)]
    · rw [items_withIds norm dir cs (b + 1) (b' + 1)]
    · rw [items_withIds norm dir cs (b + 1) (b' + 1)]
theorem forest_withIds (norm : Node → Node) (dir : String) : ∀ (ts : List BTree) (lvl b b' : Nat),
    forest dir lvl (forestWithIds norm b ts) = forest dir lvl (forestWithIds norm b' ts)
  | [], lvl, b, b' => rfl
  | t :: ts, lvl, b, b' => by
    simp only [forestWithIds, forest]
    rw [tree_withIds norm dir t lvl b b', forest_withIds norm dir ts lvl (b + Arena.size t) (b' + Arena.size t)]
theorem items_withIds (norm : Node → Node) (dir : String) : ∀ (ts : List BTree) (b b' : Nat),
    items dir (forestWithIds norm b ts) = items dir (forestWithIds norm b' ts)
  | [], b, b' => rfl
  | .mk n lr cs :: ts, b, b' => by
    simp only [forestWithIds, treeWithIds, items]
    rw [firstIsLeaf_withIds norm (b + 1) (b' + 1) cs, forest_withIds norm dir cs 0 (b + 1) (b' + 1),
      items_withIds norm dir ts (b + Arena.size (.mk n lr cs)) (b' + Arena.size (.mk n lr cs))]
end

end Project

theorem InvWith.toMarkdown {segs : List Seg} {g : Graph} {lib : Library} (h : InvWith segs g lib)
    (k : String) : g.toMarkdown k = Spec.markdown g.ext lib k := by
  simp only [Graph.toMarkdown, Graph.collect, Spec.markdown]
  cases hk : assocGet g.keys k with
  | none =>
    have : assocGet lib k = none := by
      cases hl : assocGet lib k with
      | none => rfl
      | some d =>
        obtain ⟨s, hs, hsk⟩ := (h.notes k).2 (by simp [hl])
        exact absurd ((h.keys k s.base).2 ⟨s, hs, hsk, rfl⟩) (assocGet_none_not_mem hk s.base)
    simp [this]
  | some id =>
    obtain ⟨s, hs, rfl, rfl⟩ := (h.keys k id).1 (assocGet_some_mem hk)
    have hsome := (h.notes s.key).1 ⟨s, hs, rfl⟩
    obtain ⟨d, hd⟩ := Option.isSome_iff_exists.1 hsome
    dsimp only
    rw [C20.collect_segment segs g.arena s g.normNode _ h.covers hs (Nat.le_refl _)]
    simp only [hd, h.forests s hs, Render.treeMarkdown, Project.project, h.normNode_eq,
      Spec.normNode_document, Project.tree]
    rw [Project.forest_withIds (Spec.normNode lib) (keyParent s.key) s.forest 0 (s.base + 1) 0,
      h.metadata s.key]
    cases Render.blocksSparse g.ext (Project.forest (keyParent s.key) 0 (forestWithIds (Spec.normNode lib) 0 s.forest)) <;> rfl

/-! ## `dedupNat` -/

namespace Graph

theorem mem_dedupNat : ∀ (l : List Nat) (x : Nat), x ∈ dedupNat l ↔ x ∈ l
  | [], x => by simp [dedupNat]
  | y :: ys, x => by
    simp only [dedupNat]
    split
    · rename_i hc
      rw [mem_dedupNat ys x, List.mem_cons]
      constructor
      · exact Or.inr
      · rintro (rfl | h)
        · simpa using hc
        · exact h
    · rw [List.mem_cons, List.mem_cons, mem_dedupNat ys x]

theorem nodup_dedupNat : ∀ (l : List Nat), (dedupNat l).Nodup
  | [] => by simp [dedupNat]
  | y :: ys => by
    simp only [dedupNat]
    split
    · exact nodup_dedupNat ys
    · rename_i hc
      rw [List.nodup_cons]
      refine ⟨?_, nodup_dedupNat ys⟩
      rw [mem_dedupNat]
      simpa using hc

end Graph

theorem nodup_map_on {α β} {f : α → β} : ∀ {l : List α},
    (∀ x ∈ l, ∀ y ∈ l, f x = f y → x = y) → l.Nodup → (l.map f).Nodup
  | [], _, _ => by simp
  | a :: l, hinj, hnd => by
    simp only [List.nodup_cons, List.map_cons, List.mem_map, not_exists, not_and] at hnd ⊢
    refine ⟨?_, nodup_map_on (fun x hx y hy => hinj x (by simp [hx]) y (by simp [hy])) hnd.2⟩
    intro x hx heq
    have := hinj x (by simp [hx]) a (by simp) heq
    subst this
    exact hnd.1 hx

/-! ## places -/

theorem InvWith.place_eq {segs : List Seg} {g : Graph} {lib : Library} (h : InvWith segs g lib)
    {s : Seg} (hs : s ∈ segs) {id : Nat} (h1 : s.base ≤ id) (h2 : id < s.base + s.nodes.length) :
    g.place id = some (s.key, id - s.base) := by
  have hd := C20.toDocument_segment segs g.arena s id (g.arena.length + 1) h.covers hs ⟨h1, h2⟩ (Nat.le_refl _)
  obtain ⟨pre, post, ha, hb⟩ := h.covers.mem_split s hs
  have hroot : Arena.get g.arena s.base = GNode.document s.base (Arena.firstPtr (s.base + 1) s.forest) s.key := by
    rw [ha]
    have := Arena.get_embed (pre := pre) (mid := s.nodes) (post := post) (b := s.base) (k := 0)
      (by omega) (Seg.nodes_length_pos s)
    rw [Nat.add_zero] at this
    rw [this]
    simp [Seg.nodes, Arena.layoutDoc_eq, Arena.get]
  have hkey : assocGet g.keys s.key = some s.base :=
    assocGet_of_mem_nodup h.keysNodup ((h.keys s.key s.base).2 ⟨s, hs, rfl, rfl⟩)
  simp [Graph.place, Graph.nodeKey, hd, Graph.node, hroot, GNode.key?, hkey]

/-- one component of the index, as places: the generic form of `blockBacklinks_spec` /
`inlineBacklinks_spec` -/
theorem InvWith.backlinks {segs : List Seg} {g : Graph} {lib : Library} (h : InvWith segs g lib)
    (sel : List (String × Nat) × List (String × Nat) → List (String × Nat))
    (hshift : ∀ b c ts, sel (Graph.indexForest (b + c) ts) = Graph.shiftIds c (sel (Graph.indexForest b ts)))
    (hrange : ∀ b ts K id, (K, id) ∈ sel (Graph.indexForest b ts) → b ≤ id ∧ id < b + Arena.sizes ts)
    (refs : List (String × Nat))
    (hlive : ∀ K id, (Arena.get g.arena id).isEmpty = false →
      ((K, id) ∈ refs ↔ ∃ s ∈ segs, (K, id) ∈ sel (Graph.indexForest (s.base + 1) s.forest)))
    (K : String) :
    let ids := Graph.dedupNat (((refs.filter fun p => p.1 == K).map (·.2)).filter fun id => !(g.node id).isEmpty)
    let spec := lib.flatMap fun p =>
      match Spec.forestOf lib p.1 with
      | some f => ((sel (Graph.indexForest 1 f)).filter fun e => e.1 == K).map fun e => (p.1, e.2)
      | none => []
    (∀ p, p ∈ ids.map g.place ↔ p ∈ spec.map some) ∧ (ids.map g.place).Nodup := by
  intro ids spec
  -- the live ids
  have hids : ∀ id, id ∈ ids ↔ ∃ s ∈ segs, (K, id) ∈ sel (Graph.indexForest (s.base + 1) s.forest) := by
    intro id
    simp only [ids, Graph.mem_dedupNat, List.mem_filter, List.mem_map, Graph.node]
    constructor
    · rintro ⟨⟨⟨k, i⟩, ⟨hm, hk⟩, rfl⟩, hl⟩
      simp only [beq_iff_eq] at hk
      subst hk
      exact (hlive k i (by simpa using hl)).1 hm
    · rintro ⟨s, hs, hm⟩
      have hr := hrange _ _ _ _ hm
      have hl : (Arena.get g.arena id).isEmpty = false :=
        h.covers.seg_live hs (by omega) (by rw [Seg.length_nodes]; omega)
      exact ⟨⟨(K, id), ⟨(hlive K id hl).2 ⟨s, hs, hm⟩, by simp⟩, rfl⟩, by simp [hl]⟩
  have hplace : ∀ s ∈ segs, ∀ id, (K, id) ∈ sel (Graph.indexForest (s.base + 1) s.forest) →
      s.base < id ∧ g.place id = some (s.key, id - s.base) := by
    intro s hs id hm
    have hr := hrange _ _ _ _ hm
    exact ⟨by omega, h.place_eq hs (by omega) (by rw [Seg.length_nodes]; omega)⟩
  -- the spec side
  have hspec : ∀ k n, (k, n) ∈ spec ↔ ∃ s ∈ segs, s.key = k ∧ (K, n) ∈ sel (Graph.indexForest 1 s.forest) := by
    intro k n
    simp only [spec, List.mem_flatMap]
    constructor
    · rintro ⟨⟨k', d⟩, hp, hm⟩
      obtain ⟨s, hs, hsk⟩ := (h.notes k').2 (by rw [assocGet_of_mem_nodup h.libNodup hp]; rfl)
      subst hsk
      simp only [h.forests s hs, List.mem_map, List.mem_filter, beq_iff_eq] at hm
      obtain ⟨⟨K', n'⟩, ⟨hm, hK⟩, heq⟩ := hm
      simp only [Prod.mk.injEq] at heq hK
      obtain ⟨rfl, rfl⟩ := heq
      subst hK
      exact ⟨s, hs, rfl, hm⟩
    · rintro ⟨s, hs, rfl, hm⟩
      obtain ⟨d, hd⟩ := Option.isSome_iff_exists.1 ((h.notes s.key).1 ⟨s, hs, rfl⟩)
      refine ⟨(s.key, d), assocGet_some_mem hd, ?_⟩
      simp only [h.forests s hs, List.mem_map, List.mem_filter, beq_iff_eq]
      exact ⟨(K, n), ⟨hm, rfl⟩, rfl⟩
  have hsh : ∀ (s : Seg) (id : Nat), (K, id) ∈ sel (Graph.indexForest (s.base + 1) s.forest) ↔
      ∃ n, (K, n) ∈ sel (Graph.indexForest 1 s.forest) ∧ id = n + s.base := by
    intro s id
    rw [Nat.add_comm s.base 1, hshift 1 s.base s.forest]
    simp only [Graph.shiftIds, List.mem_map, Prod.mk.injEq]
    constructor
    · rintro ⟨⟨K', n⟩, hm, rfl, rfl⟩
      exact ⟨n, hm, rfl⟩
    · rintro ⟨n, hm, rfl⟩
      exact ⟨(K, n), hm, rfl, rfl⟩
  refine ⟨?_, ?_⟩
  · intro p
    simp only [List.mem_map]
    constructor
    · rintro ⟨id, hid, rfl⟩
      obtain ⟨s, hs, hm⟩ := (hids id).1 hid
      obtain ⟨n, hn, rfl⟩ := (hsh s id).1 hm
      refine ⟨(s.key, n), (hspec _ _).2 ⟨s, hs, rfl, hn⟩, ?_⟩
      rw [(hplace s hs _ hm).2]
      simp
    · rintro ⟨⟨k, n⟩, hm, rfl⟩
      obtain ⟨s, hs, rfl, hn⟩ := (hspec _ _).1 hm
      have hm' := (hsh s (n + s.base)).2 ⟨n, hn, rfl⟩
      refine ⟨n + s.base, (hids _).2 ⟨s, hs, hm'⟩, ?_⟩
      rw [(hplace s hs _ hm').2]
      simp
  · refine nodup_map_on ?_ (Graph.nodup_dedupNat _)
    intro x hx y hy hxy
    obtain ⟨s, hs, hmx⟩ := (hids x).1 hx
    obtain ⟨t, ht, hmy⟩ := (hids y).1 hy
    obtain ⟨hbx, hpx⟩ := hplace s hs x hmx
    obtain ⟨hby, hpy⟩ := hplace t ht y hmy
    rw [hpx, hpy] at hxy
    simp only [Option.some.injEq, Prod.mk.injEq] at hxy
    have : s = t := seg_eq_of_key h.segsNodup hs ht hxy.1
    subst this
    omega

end Iwe
