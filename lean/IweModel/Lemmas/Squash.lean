/- helper lemmas for C17 -/
import IweModel.Model.Squash

namespace Iwe
namespace Squash
open Tree (size sizeL)

/-! ### reference nodes are leaves (true for every arena tree) -/

mutual
/-- every reference node of the tree has no children -/
def refsAreLeaves : Tree → Bool
  | .mk _ n cs => (!n.isRef || cs.isEmpty) && refsAreLeavesL cs
def refsAreLeavesL : List Tree → Bool
  | [] => true
  | t :: ts => refsAreLeaves t && refsAreLeavesL ts
end

/-! ### `refsL`, `nonRefIdsL`, `sizeL` are additive and invariant under permutation -/

theorem refsL_append (a b : List Tree) : refsL (a ++ b) = refsL a ++ refsL b := by
  induction a with
  | nil => simp [refsL]
  | cons x xs ih => simp [refsL, ih]

theorem nonRefIdsL_append (a b : List Tree) : nonRefIdsL (a ++ b) = nonRefIdsL a ++ nonRefIdsL b := by
  induction a with
  | nil => simp [nonRefIdsL]
  | cons x xs ih => simp [nonRefIdsL, ih]

theorem sizeL_append (a b : List Tree) : sizeL (a ++ b) = sizeL a + sizeL b := by
  induction a with
  | nil => simp [sizeL]
  | cons x xs ih => simp [sizeL, ih]; omega

theorem refsL_perm {a b : List Tree} (h : a.Perm b) : (refsL a).Perm (refsL b) := by
  induction h with
  | nil => exact .refl _
  | cons x _ ih => simp only [refsL]; exact List.Perm.append_left _ ih
  | swap x y l =>
    simp only [refsL, ← List.append_assoc]
    exact List.Perm.append_right _ List.perm_append_comm
  | trans _ _ ih1 ih2 => exact ih1.trans ih2

theorem nonRefIdsL_perm {a b : List Tree} (h : a.Perm b) : (nonRefIdsL a).Perm (nonRefIdsL b) := by
  induction h with
  | nil => exact .refl _
  | cons x _ ih => simp only [nonRefIdsL]; exact List.Perm.append_left _ ih
  | swap x y l =>
    simp only [nonRefIdsL, ← List.append_assoc]
    exact List.Perm.append_right _ List.perm_append_comm
  | trans _ _ ih1 ih2 => exact ih1.trans ih2

theorem sizeL_perm {a b : List Tree} (h : a.Perm b) : sizeL a = sizeL b := by
  induction h with
  | nil => rfl
  | cons x _ ih => simp [sizeL, ih]
  | swap x y l => simp only [sizeL]; omega
  | trans _ _ ih1 ih2 => exact ih1.trans ih2

/-! ### `assemble` only reorders -/

/-- the expanded children in their original order -/
def flat (rs : List (Bool × List Tree)) : List Tree := rs.flatMap (·.2)

theorem assemble_perm (rs : List (Bool × List Tree)) : (assemble rs).Perm (flat rs) := by
  cases rs with
  | nil => simp [assemble, flat]
  | cons x rest =>
    obtain ⟨b, r⟩ := x
    simp only [assemble, flat, List.flatMap_cons, List.append_assoc]
    refine List.Perm.append_left _ ?_
    rw [← List.flatMap_append]
    have h := List.filter_append_perm (fun p : Bool × List Tree => !p.1) rest
    simp only [Bool.not_not] at h
    exact h.flatMap_right _

theorem flat_sqKids_nil (jump : String → Option (List Tree)) : flat (sqKids jump []) = [] := by
  simp [flat, sqKids]

theorem flat_sqKids_cons (jump : String → Option (List Tree)) (c : Tree) (cs : List Tree) :
    flat (sqKids jump (c :: cs)) = sqChild jump c ++ flat (sqKids jump cs) := by
  simp [flat, sqKids]

/-! ### `sqChild` in terms of `sqTree` -/

theorem sqChild_none (t : Tree) : sqChild (fun _ => none) t = [sqTree (fun _ => none) t] := by
  obtain ⟨id, n, cs⟩ := t
  cases n <;> simp [sqChild, sqTree]

theorem sqChild_nonref (jump : String → Option (List Tree)) (t : Tree) (h : t.isReference = false) :
    sqChild jump t = [sqTree jump t] := by
  obtain ⟨id, n, cs⟩ := t
  cases n <;> simp_all [sqChild, sqTree, Tree.isReference, Tree.node, Node.isRef]

/-! ### depth 0: nothing is expanded -/

mutual
theorem refs_sq0 : (t : Tree) → (refs (sqTree (fun _ => none) t)).Perm (refs t)
  | .mk id n cs => by
    simp only [sqTree, refs]
    exact List.Perm.append_left _ ((refsL_perm (assemble_perm _)).trans (refsL_sq0 cs))
theorem refsL_sq0 : (cs : List Tree) → (refsL (flat (sqKids (fun _ => none) cs))).Perm (refsL cs)
  | [] => by simp [flat_sqKids_nil, refsL]
  | c :: cs => by
    rw [flat_sqKids_cons, sqChild_none, refsL_append]
    simp only [refsL, List.append_nil]
    exact List.Perm.append (refs_sq0 c) (refsL_sq0 cs)
end

mutual
theorem nonRefIds_sq0 : (t : Tree) → (nonRefIds (sqTree (fun _ => none) t)).Perm (nonRefIds t)
  | .mk id n cs => by
    simp only [sqTree, nonRefIds]
    exact List.Perm.append_left _ ((nonRefIdsL_perm (assemble_perm _)).trans (nonRefIdsL_sq0 cs))
theorem nonRefIdsL_sq0 : (cs : List Tree) →
    (nonRefIdsL (flat (sqKids (fun _ => none) cs))).Perm (nonRefIdsL cs)
  | [] => by simp [flat_sqKids_nil, nonRefIdsL]
  | c :: cs => by
    rw [flat_sqKids_cons, sqChild_none, nonRefIdsL_append]
    simp only [nonRefIdsL, List.append_nil]
    exact List.Perm.append (nonRefIds_sq0 c) (nonRefIdsL_sq0 cs)
end

mutual
theorem size_sq0 : (t : Tree) → size (sqTree (fun _ => none) t) = size t
  | .mk id n cs => by
    simp only [sqTree, size]
    rw [sizeL_perm (assemble_perm _), sizeL_sq0 cs]
theorem sizeL_sq0 : (cs : List Tree) → sizeL (flat (sqKids (fun _ => none) cs)) = sizeL cs
  | [] => by simp [flat_sqKids_nil, sizeL]
  | c :: cs => by
    rw [flat_sqKids_cons, sqChild_none, sizeL_append]
    simp only [sizeL, Nat.add_zero]
    rw [size_sq0 c, sizeL_sq0 cs]
end

/-! ### no non-reference node is lost -/

theorem nonRefIds_ref_leaf (t : Tree) (hr : t.isReference = true) (hl : refsAreLeaves t = true) :
    nonRefIds t = [] := by
  obtain ⟨id, n, cs⟩ := t
  simp only [Tree.isReference, Tree.node] at hr
  simp only [refsAreLeaves, hr, Bool.not_true, Bool.false_or, Bool.and_eq_true,
    List.isEmpty_iff] at hl
  simp [nonRefIds, hr, hl.1, nonRefIdsL]

mutual
theorem count_sqTree (jump : String → Option (List Tree)) (i : Option Nat) :
    (t : Tree) → refsAreLeaves t = true →
      (nonRefIds t).count i ≤ (nonRefIds (sqTree jump t)).count i
  | .mk id n cs, h => by
    simp only [refsAreLeaves, Bool.and_eq_true] at h
    simp only [sqTree, nonRefIds, List.count_append]
    have h1 := count_sqKids jump i cs h.2
    have h2 := (nonRefIdsL_perm (assemble_perm (sqKids jump cs))).count_eq i
    omega
theorem count_sqKids (jump : String → Option (List Tree)) (i : Option Nat) :
    (cs : List Tree) → refsAreLeavesL cs = true →
      (nonRefIdsL cs).count i ≤ (nonRefIdsL (flat (sqKids jump cs))).count i
  | [], _ => by simp [nonRefIdsL]
  | c :: cs, h => by
    simp only [refsAreLeavesL, Bool.and_eq_true] at h
    rw [flat_sqKids_cons, nonRefIdsL_append]
    simp only [nonRefIdsL, List.count_append]
    have h1 := count_sqKids jump i cs h.2
    cases hr : c.isReference with
    | true =>
      rw [nonRefIds_ref_leaf c hr h.1]
      simp only [List.count_nil]
      omega
    | false =>
      rw [sqChild_nonref jump c hr]
      have h2 := count_sqTree jump i c h.1
      simp only [nonRefIdsL, List.append_nil]
      omega
end

/-! ### size bound: every node of the note yields at most `J` nodes -/

theorem size_pos (t : Tree) : 1 ≤ size t := by
  obtain ⟨id, n, cs⟩ := t
  simp [size]

mutual
theorem size_sqTree (jump : String → Option (List Tree)) (J : Nat) (hJ : 1 ≤ J)
    (hj : ∀ k kids, jump k = some kids → sizeL kids ≤ J) :
    (t : Tree) → size (sqTree jump t) ≤ size t * J
  | .mk id n cs => by
    simp only [sqTree, size]
    rw [sizeL_perm (assemble_perm _), Nat.add_mul]
    have := sizeL_sqKids jump J hJ hj cs
    omega
theorem sizeL_sqKids (jump : String → Option (List Tree)) (J : Nat) (hJ : 1 ≤ J)
    (hj : ∀ k kids, jump k = some kids → sizeL kids ≤ J) :
    (cs : List Tree) → sizeL (flat (sqKids jump cs)) ≤ sizeL cs * J
  | [] => by simp [flat_sqKids_nil, sizeL]
  | c :: cs => by
    rw [flat_sqKids_cons, sizeL_append]
    simp only [sizeL, Nat.add_mul]
    have h1 := sizeL_sqKids jump J hJ hj cs
    have h2 : sizeL (sqChild jump c) ≤ size c * J := by
      cases hr : c.isReference with
      | false =>
        rw [sqChild_nonref jump c hr]
        have := size_sqTree jump J hJ hj c
        simpa [sizeL] using this
      | true =>
        have hpos : J ≤ size c * J := Nat.le_mul_of_pos_left J (size_pos c)
        obtain ⟨id, n, cs'⟩ := c
        cases n <;> simp [Tree.isReference, Tree.node, Node.isRef] at hr
        rename_i k text ty
        simp only [sqChild]
        cases hjk : jump k with
        | some kids =>
          have := hj k kids hjk
          simp only []
          omega
        | none =>
          simp only [sizeL, size, Nat.add_zero]
          rw [sizeL_perm (assemble_perm _), sizeL_sq0]
          simp only [size] at hpos
          have : (1 + sizeL cs') * 1 ≤ (1 + sizeL cs') * J := Nat.mul_le_mul_left _ hJ
          omega
    omega
end

theorem jumpAt_succ_some {lib : String → Option Tree} {d : Nat} {k : String} {kids : List Tree}
    (h : jumpAt lib (d + 1) k = some kids) :
    ∃ t, lib k = some t ∧ kids = (sqTree (jumpAt lib d) t).children := by
  simp only [jumpAt, Option.map_eq_some_iff] at h
  obtain ⟨t, h1, h2⟩ := h
  exact ⟨t, h1, h2.symm⟩

theorem sizeL_children_le (t : Tree) : sizeL t.children ≤ size t := by
  obtain ⟨id, n, cs⟩ := t
  simp [Tree.children, size]

theorem size_squash_le (lib : String → Option Tree) (m : Nat)
    (hm : ∀ k t, lib k = some t → size t ≤ m) :
    (d : Nat) → (t : Tree) → size t ≤ m → size (squash lib d t) ≤ (m + 1) ^ (d + 1)
  | 0, t, ht => by
    simp only [squash, jumpAt]
    rw [size_sq0]
    simp; omega
  | d + 1, t, ht => by
    have hJ : 1 ≤ (m + 1) ^ (d + 1) := Nat.pow_pos (Nat.succ_pos m)
    have hj : ∀ k kids, jumpAt lib (d + 1) k = some kids → sizeL kids ≤ (m + 1) ^ (d + 1) := by
      intro k kids h
      obtain ⟨t', h1, h2⟩ := jumpAt_succ_some h
      subst h2
      exact Nat.le_trans (sizeL_children_le _) (size_squash_le lib m hm d t' (hm k t' h1))
    have h := size_sqTree (jumpAt lib (d + 1)) _ hJ hj t
    have h2 : size t * (m + 1) ^ (d + 1) ≤ (m + 1) * (m + 1) ^ (d + 1) :=
      Nat.mul_le_mul_right _ (by omega)
    calc size (squash lib (d + 1) t) ≤ size t * (m + 1) ^ (d + 1) := h
      _ ≤ (m + 1) * (m + 1) ^ (d + 1) := h2
      _ = (m + 1) ^ (d + 1 + 1) := by rw [Nat.pow_succ (m + 1) (d + 1), Nat.mul_comm]

end Squash
end Iwe
