/-
The refinement invariant between a concrete `Graph` and the abstract `Library` (C04/C05/C06).
-/
import IweModel.Spec.Library
import IweModel.Lemmas.ArenaWf
import IweModel.Props.C20

namespace Iwe

/-- `Inv g lib`: the graph is well-formed, its segments are the forests of the library's
documents, and titles, front-matter, `nodes_map`, line ranges and the *live part* of the reference
index are exactly what the library's documents define. -/
def Inv (g : Graph) (lib : Library) : Prop :=
  ∃ segs : List Seg,
    Covers 0 segs g.arena
    ∧ (∀ k id, (k, id) ∈ g.keys ↔ ∃ s ∈ segs, s.key = k ∧ s.base = id)
    ∧ (segs.map (·.key)).Nodup
    ∧ (g.keys.map (·.1)).Nodup
    ∧ (lib.map (·.1)).Nodup
    -- the notes are those of the library, each with the forest of its latest document
    ∧ (∀ k, (∃ s ∈ segs, s.key = k) ↔ (assocGet lib k).isSome)
    ∧ (∀ s ∈ segs, Spec.forestOf lib s.key = some s.forest)
    -- caches
    ∧ (∀ k, assocGet g.titles k = Spec.titleOf lib k)
    ∧ (∀ k, assocGet g.metadata k = Spec.metaOf lib k)
    ∧ (∀ s ∈ segs, assocGet g.nodesMap s.key = some (Arena.rangesForest (s.base + 1) s.forest))
    -- the live part of the index
    ∧ (∀ K id, (Arena.get g.arena id).isEmpty = false →
        ((K, id) ∈ g.blockRefs ↔ ∃ s ∈ segs, (K, id) ∈ (Graph.indexForest (s.base + 1) s.forest).1))
    ∧ (∀ K id, (Arena.get g.arena id).isEmpty = false →
        ((K, id) ∈ g.inlineRefs ↔ ∃ s ∈ segs, (K, id) ∈ (Graph.indexForest (s.base + 1) s.forest).2))
    -- every index entry, stale or not, names an id that was allocated (ids are never reused, so a
    -- stale entry can never collide with a node created later)
    ∧ (∀ K id, (K, id) ∈ g.blockRefs → id < g.arena.length)
    ∧ (∀ K id, (K, id) ∈ g.inlineRefs → id < g.arena.length)

end Iwe
