/- helper lemmas (stub) -/
import IweModel.Lemmas.TreeBasic
