/- helper lemmas for C09: extract / inline move content around without losing or duplicating it.
Everything is proved once for a generic pre-order "measure" `meas f` (a list collected from the
node payloads); `Content.ofTree`, `Content.refKeys` and `Tree.ids` are instances. -/
import IweModel.Lemmas.TreeBasic

namespace Iwe
namespace Tree

/-! ### generic pre-order measure -/

mutual
def meas {α : Type} (f : Option Nat → Node → List α) : Tree → List α
  | .mk id n cs => f id n ++ measL f cs
def measL {α : Type} (f : Option Nat → Node → List α) : List Tree → List α
  | [] => []
  | t :: ts => meas f t ++ measL f ts
end

/-- close a `List.Perm` goal between append-combinations of atoms, given up to two `Perm` facts,
by counting occurrences -/
syntax "perm_count" ("[" term,* "]")? : tactic
macro_rules
  | `(tactic| perm_count) => `(tactic| (
      classical
      rw [List.perm_iff_count]; intro a
      simp only [Tree.meas, Tree.measL, List.count_append, List.count_nil, List.append_nil] at *
      omega))
  | `(tactic| perm_count [$h1]) => `(tactic| (
      classical
      rw [List.perm_iff_count]; intro a
      have c1 := List.Perm.count_eq $h1 a
      simp only [Tree.meas, Tree.measL, List.count_append, List.count_nil, List.append_nil] at *
      omega))
  | `(tactic| perm_count [$h1, $h2]) => `(tactic| (
      classical
      rw [List.perm_iff_count]; intro a
      have c1 := List.Perm.count_eq $h1 a
      have c2 := List.Perm.count_eq $h2 a
      simp only [Tree.meas, Tree.measL, List.count_append, List.count_nil, List.append_nil] at *
      omega))

theorem measL_append {α : Type} (f : Option Nat → Node → List α) (a b : List Tree) : measL f (a ++ b) = measL f a ++ measL f b := by
  induction a with
  | nil => simp [measL]
  | cons x xs ih => simp [measL, ih]

theorem meas_leaf {α : Type} (f : Option Nat → Node → List α) (t : Tree) (h : t.children = []) : meas f t = f t.id t.node := by
  obtain ⟨id, n, cs⟩ := t
  simp only [children_mk] at h
  subst h
  simp [meas, measL]

theorem measL_insertAt {α : Type} (f : Option Nat → Node → List α) (xs : List Tree) (n : Nat) (x : Tree) :
    (measL f (insertAt xs n x)).Perm (meas f x ++ measL f xs) := by
  have hx : measL f xs = measL f (xs.take n) ++ measL f (xs.drop n) := by
    rw [← measL_append, List.take_append_drop]
  rw [hx]
  simp only [insertAt, measL_append]
  perm_count

mutual
/-- the measure of a subtree found by `find` is part of the measure of the tree -/
theorem meas_find_subset {α : Type} (f : Option Nat → Node → List α) (i : Nat) (r : Tree) : (t : Tree) → find i t = some r →
    ∀ x ∈ meas f r, x ∈ meas f t
  | .mk id n cs, h, x, hx => by
    by_cases hid : id = some i
    · have hr : Tree.mk id n cs = r := by simpa [find, hid] using h
      subst hr; exact hx
    · have h' : findL i cs = some r := by simpa [find, hid] using h
      simp only [meas, List.mem_append]
      exact .inr (measL_findL_subset f i r cs h' x hx)
theorem measL_findL_subset {α : Type} (f : Option Nat → Node → List α) (i : Nat) (r : Tree) : (cs : List Tree) → findL i cs = some r →
    ∀ x ∈ meas f r, x ∈ measL f cs
  | [], h, _, _ => by simp [findL] at h
  | t :: ts, h, x, hx => by
    simp only [findL] at h
    simp only [measL, List.mem_append]
    cases hf : find i t with
    | some r' =>
      rw [hf] at h; simp at h; subst h
      exact .inl (meas_find_subset f i r' t hf x hx)
    | none =>
      rw [hf] at h
      exact .inr (measL_findL_subset f i r ts h x hx)
end

/-! ### instances of the measure -/

def contentF : Option Nat → Node → List Node := fun _ n => if Content.isContainerOnly n then [] else [n]
def idsF : Option Nat → Node → List Nat := fun id _ => match id with | some i => [i] | none => []
def refKeysF : Option Nat → Node → List String := fun _ n => match n with | .ref k _ _ => [k] | _ => []

mutual
theorem ofTree_eq_meas : (t : Tree) → Content.ofTree t = meas contentF t
  | .mk id n cs => by simp [Content.ofTree, meas, contentF, ofForest_eq_measL cs]
theorem ofForest_eq_measL : (cs : List Tree) → Content.ofForest cs = measL contentF cs
  | [] => by simp [Content.ofForest, measL]
  | t :: ts => by simp [Content.ofForest, measL, ofTree_eq_meas t, ofForest_eq_measL ts]
end

mutual
theorem ids_eq_meas : (t : Tree) → ids t = meas idsF t
  | .mk id n cs => by cases id <;> simp [ids, meas, idsF, idsL_eq_measL cs]
theorem idsL_eq_measL : (cs : List Tree) → idsL cs = measL idsF cs
  | [] => by simp [idsL, measL]
  | t :: ts => by simp [idsL, measL, ids_eq_meas t, idsL_eq_measL ts]
end

mutual
theorem refKeys_eq_meas : (t : Tree) → Content.refKeys t = meas refKeysF t
  | .mk id n cs => by cases n <;> simp [Content.refKeys, meas, refKeysF, refKeysL_eq_measL cs]
theorem refKeysL_eq_measL : (cs : List Tree) → Content.refKeysL cs = measL refKeysF cs
  | [] => by simp [Content.refKeysL, measL]
  | t :: ts => by simp [Content.refKeysL, measL, refKeys_eq_meas t, refKeysL_eq_measL ts]
end

/-! ### direct children with a given id -/

theorem idEq_mem_idsL {e : Nat} : {cs : List Tree} → {c : Tree} → c ∈ cs → c.idEq e = true → e ∈ idsL cs
  | [], _, h, _ => by simp at h
  | t :: ts, c, h, hc => by
    simp only [idsL, List.mem_append]
    rcases List.mem_cons.mp h with h | h
    · subst h
      obtain ⟨id, n, cs⟩ := c
      simp only [idEq_mk, beq_iff_eq] at hc
      exact .inl (by simp [ids, hc])
    · exact .inr (idEq_mem_idsL h hc)

theorem filter_idEq_of_not_mem {e : Nat} {cs : List Tree} (h : e ∉ idsL cs) :
    cs.filter (fun c => !c.idEq e) = cs := by
  rw [List.filter_eq_self]
  intro c hc
  cases hce : c.idEq e with
  | false => rfl
  | true => exact absurd (idEq_mem_idsL hc hce) h

theorem find_self_of_idEq {e : Nat} {c : Tree} (h : c.idEq e = true) : find e c = some c := by
  obtain ⟨id, n, cs⟩ := c
  simp only [idEq_mk] at h
  simp [find, h]

/-! ### `extractRec` -/

open Actions

mutual
theorem extractRec_frame (e p : Nat) (k : String) : (t : Tree) → contains p t = false → extractRec e p k t = t
  | .mk id n cs, h => by
    simp only [contains, Bool.or_eq_false_iff] at h
    simp [extractRec, h.1, extractRecL_frame e p k cs h.2]
theorem extractRecL_frame (e p : Nat) (k : String) : (cs : List Tree) → containsL p cs = false →
    extractRecL e p k cs = cs
  | [], _ => by simp [extractRecL]
  | t :: ts, h => by
    simp only [containsL, Bool.or_eq_false_iff] at h
    simp [extractRecL, extractRec_frame e p k t h.1, extractRecL_frame e p k ts h.2]
end

/-- with unique ids, dropping the direct children with id `e` drops exactly the subtree that
`findL e` returns -/
theorem measL_filter_extract {α : Type} (f : Option Nat → Node → List α) (e : Nat) (sub : Tree) : (cs : List Tree) → (idsL cs).Nodup →
    anyIdEq e cs = true → findL e cs = some sub →
    (measL f (cs.filter fun c => !c.idEq e) ++ meas f sub).Perm (measL f cs)
  | [], _, h, _ => by simp [anyIdEq] at h
  | c :: rest, hn, ha, hf => by
    simp only [idsL] at hn
    obtain ⟨hn1, hn2, hdis⟩ := List.nodup_append.mp hn
    cases hc : c.idEq e with
    | true =>
      have hfc : find e c = some c := find_self_of_idEq hc
      have hsub : c = sub := by simpa [findL, hfc] using hf
      have hmem : e ∈ ids c := find_some_mem hfc
      have hnot : e ∉ idsL rest := fun hm => hdis e hmem e hm rfl
      subst hsub
      simp only [List.filter_cons, hc, Bool.not_true, Bool.false_eq_true, if_false,
        filter_idEq_of_not_mem hnot, measL]
      perm_count
    | false =>
      have ha' : anyIdEq e rest = true := by simpa [anyIdEq, hc] using ha
      have hmem := anyIdEq_mem_idsL ha'
      have hnot : e ∉ ids c := fun hm => hdis e hm e hmem rfl
      have hf' : findL e rest = some sub := by simpa [findL, find_none_of_not_mem hnot] using hf
      have ih := measL_filter_extract f e sub rest hn2 ha' hf'
      simp only [List.filter_cons, hc, Bool.not_false, if_true, measL]
      perm_count [ih]

mutual
theorem meas_extractRec {α : Type} (f : Option Nat → Node → List α) (e p : Nat) (k : String) (pt sub : Tree) : (t : Tree) → (ids t).Nodup →
    find p t = some pt → findL e pt.children = some sub → anyIdEq e pt.children = true →
    (meas f (extractRec e p k t) ++ meas f sub).Perm
      (f none (.ref k (nodePlainText sub.node) .regular) ++ meas f t)
  | .mk id n cs, hn, hp, hs, ha => by
    simp only [ids] at hn
    obtain ⟨_, hn2, _⟩ := List.nodup_append.mp hn
    by_cases hid : id = some p
    · have hpt : Tree.mk id n cs = pt := by simpa [find, hid] using hp
      subst hpt
      simp only [children_mk] at hs ha
      have hB := measL_insertAt f (cs.filter fun c => !c.idEq e) (preSubHeaderPosition cs)
        (.mk none (.ref k (nodePlainText sub.node) .regular) [])
      have hC := measL_filter_extract f e sub cs hn2 ha hs
      simp only [extractRec, hid, beq_self_eq_true, if_true, hs]
      perm_count [hB, hC]
    · have hp' : findL p cs = some pt := by simpa [find, hid] using hp
      have ih := measL_extractRecL f e p k pt sub cs hn2 hp' hs ha
      simp only [extractRec, beq_iff_eq, hid, if_false]
      perm_count [ih]
theorem measL_extractRecL {α : Type} (f : Option Nat → Node → List α) (e p : Nat) (k : String) (pt sub : Tree) : (cs : List Tree) → (idsL cs).Nodup →
    findL p cs = some pt → findL e pt.children = some sub → anyIdEq e pt.children = true →
    (measL f (extractRecL e p k cs) ++ meas f sub).Perm
      (f none (.ref k (nodePlainText sub.node) .regular) ++ measL f cs)
  | [], _, hp, _, _ => by simp [findL] at hp
  | c :: rest, hn, hp, hs, ha => by
    simp only [idsL] at hn
    obtain ⟨hn1, hn2, hdis⟩ := List.nodup_append.mp hn
    simp only [extractRecL]
    cases hfc : find p c with
    | some r =>
      have hr : r = pt := by simpa [findL, hfc] using hp
      subst hr
      have hmem : p ∈ ids c := find_some_mem hfc
      have hnot : containsL p rest = false := by
        rw [containsL_false_iff]; exact fun hm => hdis p hmem p hm rfl
      have ih := meas_extractRec f e p k r sub c hn1 hfc hs ha
      rw [extractRecL_frame e p k rest hnot]
      perm_count [ih]
    | none =>
      have hp' : findL p rest = some pt := by simpa [findL, hfc] using hp
      have hc : contains p c = false := (find_eq_none_iff p c).mp hfc
      have ih := measL_extractRecL f e p k pt sub rest hn2 hp' hs ha
      rw [extractRec_frame e p k c hc]
      perm_count [ih]
end

/-! ### `removeNode` -/

mutual
theorem removeNode_frame (i : Nat) : (t : Tree) → containsL i t.children = false → removeNode i t = t
  | .mk id n cs, h => by
    simp only [children_mk] at h
    simp [removeNode, removeNodeL_frame i cs h]
theorem removeNodeL_frame (i : Nat) : (cs : List Tree) → containsL i cs = false → removeNodeL i cs = cs
  | [], _ => by simp [removeNodeL]
  | .mk id n cs :: ts, h => by
    simp only [containsL, contains, Bool.or_eq_false_iff] at h
    have := removeNode_frame i (.mk id n cs) h.1.2
    simp [removeNodeL, h.1.1, this, removeNodeL_frame i ts h.2]
end

mutual
theorem meas_removeNode {α : Type} (f : Option Nat → Node → List α) (i : Nat) (rt : Tree) : (t : Tree) → (ids t).Nodup → t.id ≠ some i →
    find i t = some rt → rt.children = [] →
    (f rt.id rt.node ++ meas f (removeNode i t)).Perm (meas f t)
  | .mk id n cs, hn, hid, hf, hch => by
    simp only [ids] at hn
    obtain ⟨_, hn2, _⟩ := List.nodup_append.mp hn
    have hid' : id ≠ some i := hid
    have hf' : findL i cs = some rt := by simpa [find, hid'] using hf
    have ih := measL_removeNodeL f i rt cs hn2 hf' hch
    simp only [removeNode]
    perm_count [ih]
theorem measL_removeNodeL {α : Type} (f : Option Nat → Node → List α) (i : Nat) (rt : Tree) : (cs : List Tree) → (idsL cs).Nodup →
    findL i cs = some rt → rt.children = [] →
    (f rt.id rt.node ++ measL f (removeNodeL i cs)).Perm (measL f cs)
  | [], _, hf, _ => by simp [findL] at hf
  | c :: rest, hn, hf, hch => by
    simp only [idsL] at hn
    obtain ⟨hn1, hn2, hdis⟩ := List.nodup_append.mp hn
    cases hc : c.idEq i with
    | true =>
      have hfc : find i c = some c := find_self_of_idEq hc
      have hrt : c = rt := by simpa [findL, hfc] using hf
      subst hrt
      have hmem : i ∈ ids c := find_some_mem hfc
      have hnot : containsL i rest = false := by
        rw [containsL_false_iff]; exact fun hm => hdis i hmem i hm rfl
      simp only [removeNodeL, hc, if_true, removeNodeL_frame i rest hnot, measL, meas_leaf f c hch]
      exact List.Perm.refl _
    | false =>
      have hcid : c.id ≠ some i := by
        intro he; rw [(idEq_iff c i).mpr he] at hc; cases hc
      simp only [removeNodeL, hc, Bool.false_eq_true, if_false]
      cases hfc : find i c with
      | some r =>
        have hr : r = rt := by simpa [findL, hfc] using hf
        subst hr
        have hmem : i ∈ ids c := find_some_mem hfc
        have hnot : containsL i rest = false := by
          rw [containsL_false_iff]; exact fun hm => hdis i hmem i hm rfl
        have ih := meas_removeNode f i r c hn1 hcid hfc hch
        rw [removeNodeL_frame i rest hnot]
        perm_count [ih]
      | none =>
        have hf' : findL i rest = some rt := by simpa [findL, hfc] using hf
        have hcc : contains i c = false := (find_eq_none_iff i c).mp hfc
        have hccL : containsL i c.children = false := by
          obtain ⟨id, n, cs⟩ := c
          simp only [contains, Bool.or_eq_false_iff] at hcc
          exact hcc.2
        have ih := measL_removeNodeL f i rt rest hn2 hf' hch
        rw [removeNode_frame i c hccL]
        perm_count [ih]
end

/-! ### `appendPreHeader` -/

mutual
theorem appendPreHeader_frame (i : Nat) (new : Tree) : (t : Tree) → contains i t = false →
    appendPreHeader i new t = t
  | .mk id n cs, h => by
    simp only [contains, Bool.or_eq_false_iff] at h
    simp [appendPreHeader, h.1, appendPreHeaderL_frame i new cs h.2]
theorem appendPreHeaderL_frame (i : Nat) (new : Tree) : (cs : List Tree) → containsL i cs = false →
    appendPreHeaderL i new cs = cs
  | [], _ => by simp [appendPreHeaderL]
  | t :: ts, h => by
    simp only [containsL, Bool.or_eq_false_iff] at h
    simp [appendPreHeaderL, appendPreHeader_frame i new t h.1, appendPreHeaderL_frame i new ts h.2]
end

mutual
theorem meas_appendPreHeader {α : Type} (f : Option Nat → Node → List α) (i : Nat) (new : Tree) : (t : Tree) → (ids t).Nodup → contains i t = true →
    (meas f (appendPreHeader i new t)).Perm (meas f t ++ meas f new)
  | .mk id n cs, hn, hc => by
    simp only [ids] at hn
    obtain ⟨_, hn2, hdis⟩ := List.nodup_append.mp hn
    by_cases hid : id = some i
    · have hnot : containsL i cs = false := by
        rw [containsL_false_iff]; exact fun hm => hdis i (by simp [hid]) i hm rfl
      have hB := measL_insertAt f cs (preSubHeaderPosition cs) new
      simp only [appendPreHeader, hid, beq_self_eq_true, if_true, insertAtMapped,
        appendPreHeaderL_frame i new cs hnot]
      perm_count [hB]
    · have hc' : containsL i cs = true := by simpa [contains, hid] using hc
      have ih := measL_appendPreHeaderL f i new cs hn2 hc'
      simp only [appendPreHeader, beq_iff_eq, hid, if_false]
      perm_count [ih]
theorem measL_appendPreHeaderL {α : Type} (f : Option Nat → Node → List α) (i : Nat) (new : Tree) : (cs : List Tree) → (idsL cs).Nodup →
    containsL i cs = true → (measL f (appendPreHeaderL i new cs)).Perm (measL f cs ++ meas f new)
  | [], _, hc => by simp [containsL] at hc
  | c :: rest, hn, hc => by
    simp only [idsL] at hn
    obtain ⟨hn1, hn2, hdis⟩ := List.nodup_append.mp hn
    simp only [appendPreHeaderL]
    cases hcc : contains i c with
    | true =>
      have hmem : i ∈ ids c := (contains_iff i c).mp hcc
      have hnot : containsL i rest = false := by
        rw [containsL_false_iff]; exact fun hm => hdis i hmem i hm rfl
      have ih := meas_appendPreHeader f i new c hn1 hcc
      rw [appendPreHeaderL_frame i new rest hnot]
      perm_count [ih]
    | false =>
      have hc' : containsL i rest = true := by simpa [containsL, hcc] using hc
      have ih := measL_appendPreHeaderL f i new rest hn2 hc'
      rw [appendPreHeader_frame i new c hcc]
      perm_count [ih]
end

/-! ### `replace` -/

mutual
theorem replace_frame (i : Nat) (r : Tree) : (t : Tree) → contains i t = false → replace i r t = t
  | .mk id n cs, h => by
    simp only [contains, Bool.or_eq_false_iff] at h
    simp [replace, h.1, replaceL_frame i r cs h.2]
theorem replaceL_frame (i : Nat) (r : Tree) : (cs : List Tree) → containsL i cs = false → replaceL i r cs = cs
  | [], _ => by simp [replaceL]
  | t :: ts, h => by
    simp only [containsL, Bool.or_eq_false_iff] at h
    simp [replaceL, replace_frame i r t h.1, replaceL_frame i r ts h.2]
end

mutual
theorem meas_replace {α : Type} (f : Option Nat → Node → List α) (i : Nat) (r rt : Tree) : (t : Tree) → (ids t).Nodup → find i t = some rt →
    rt.children = [] → (f rt.id rt.node ++ meas f (replace i r t)).Perm (meas f r ++ meas f t)
  | .mk id n cs, hn, hf, hch => by
    simp only [ids] at hn
    obtain ⟨_, hn2, _⟩ := List.nodup_append.mp hn
    by_cases hid : id = some i
    · have hrt : Tree.mk id n cs = rt := by simpa [find, hid] using hf
      subst hrt
      simp only [children_mk] at hch
      subst hch
      simp only [replace, hid, beq_self_eq_true, if_true, id_mk, node_mk]
      perm_count
    · have hf' : findL i cs = some rt := by simpa [find, hid] using hf
      have ih := measL_replaceL f i r rt cs hn2 hf' hch
      simp only [replace, beq_iff_eq, hid, if_false]
      perm_count [ih]
theorem measL_replaceL {α : Type} (f : Option Nat → Node → List α) (i : Nat) (r rt : Tree) : (cs : List Tree) → (idsL cs).Nodup → findL i cs = some rt →
    rt.children = [] → (f rt.id rt.node ++ measL f (replaceL i r cs)).Perm (meas f r ++ measL f cs)
  | [], _, hf, _ => by simp [findL] at hf
  | c :: rest, hn, hf, hch => by
    simp only [idsL] at hn
    obtain ⟨hn1, hn2, hdis⟩ := List.nodup_append.mp hn
    simp only [replaceL]
    cases hfc : find i c with
    | some r' =>
      have hr : r' = rt := by simpa [findL, hfc] using hf
      subst hr
      have hmem : i ∈ ids c := find_some_mem hfc
      have hnot : containsL i rest = false := by
        rw [containsL_false_iff]; exact fun hm => hdis i hmem i hm rfl
      have ih := meas_replace f i r r' c hn1 hfc hch
      rw [replaceL_frame i r rest hnot]
      perm_count [ih]
    | none =>
      have hf' : findL i rest = some rt := by simpa [findL, hfc] using hf
      have hcc : contains i c = false := (find_eq_none_iff i c).mp hfc
      have ih := measL_replaceL f i r rt rest hn2 hf' hch
      rw [replace_frame i r c hcc]
      perm_count [ih]
end

end Tree
end Iwe
