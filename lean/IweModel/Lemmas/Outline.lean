/- helper lemmas for C07 (heading levels) -/
import IweModel.Spec.Tokens
import IweModel.Lemmas.Arena

namespace Iwe
namespace Outline

/-! ## level lists -/

theorem levelsG_append : ∀ (a b : List GBlock), levelsG (a ++ b) = levelsG a ++ levelsG b
  | [], b => by simp [levelsG]
  | x :: a, b => by cases x <;> simp [levelsG, levelsG_append a b]

theorem levelsD_append : ∀ (a b : List DBlock), levelsD (a ++ b) = levelsD a ++ levelsD b
  | [], b => by simp [levelsD]
  | x :: a, b => by cases x <;> simp [levelsD, levelsD_append a b]

theorem levelsD_split (p : DBlock → Bool) (bs : List DBlock) :
    levelsD (bs.takeWhile p) ++ levelsD (bs.dropWhile p) = levelsD bs := by
  rw [← levelsD_append, List.takeWhile_append_dropWhile]

theorem levelsD_cons_not_header {b : DBlock} (h : Sections.isHeader b = false) (bs : List DBlock) :
    levelsD (b :: bs) = levelsD bs := by
  cases b <;> simp_all [levelsD, Sections.isHeader]

/-! ## `wellNested` -/

theorem wellNested_cons (prev l : Nat) (ls : List Nat) :
    wellNested prev (l :: ls) = true ↔ 1 ≤ l ∧ l ≤ prev + 1 ∧ wellNested l ls = true := by
  simp [wellNested, and_assoc]

/-- after a block of levels all `> lvl`, a continuation that is well-nested after anything `≥ lvl` fits -/
theorem wellNested_append {lvl : Nat} {b : List Nat} (hb : ∀ prev, lvl ≤ prev → wellNested prev b = true) :
    ∀ (a : List Nat) (prev : Nat), lvl ≤ prev → wellNested prev a = true → (∀ l ∈ a, lvl + 1 ≤ l) →
      wellNested prev (a ++ b) = true
  | [], prev, hp, _, _ => by simpa using hb prev hp
  | l :: a, prev, hp, ha, hall => by
    rw [wellNested_cons] at ha
    rw [List.cons_append, wellNested_cons]
    have hl := hall l (by simp)
    exact ⟨ha.1, ha.2.1, wellNested_append hb a l (by omega) ha.2.2 (fun x hx => hall x (by simp [hx]))⟩

theorem wellNested_prefix : ∀ (a b : List Nat) (prev : Nat), wellNested prev (a ++ b) = true →
    wellNested prev a = true
  | [], _, _, _ => by simp [wellNested]
  | l :: a, b, prev, h => by
    rw [List.cons_append, wellNested_cons] at h
    rw [wellNested_cons]
    exact ⟨h.1, h.2.1, wellNested_prefix a b l h.2.2⟩

/-- the part after a prefix is well-nested after its own first element -/
theorem wellNested_suffix : ∀ (a : List Nat) (h : Nat) (t : List Nat) (prev : Nat),
    wellNested prev (a ++ h :: t) = true → 1 ≤ h ∧ wellNested h t = true
  | [], h, t, prev, hw => by
    rw [List.nil_append, wellNested_cons] at hw
    exact ⟨hw.1, hw.2.2⟩
  | l :: a, h, t, prev, hw => by
    rw [List.cons_append, wellNested_cons] at hw
    exact wellNested_suffix a h t l hw.2.2

theorem wellNested_pos : ∀ (ls : List Nat) (prev : Nat), wellNested prev ls = true → ∀ l ∈ ls, 1 ≤ l
  | [], _, _ => by simp
  | x :: ls, prev, h => by
    rw [wellNested_cons] at h
    intro l hl
    rcases List.mem_cons.1 hl with rfl | hl
    · exact h.1
    · exact wellNested_pos ls x h.2.2 l hl

/-! ## projected levels are well-nested, whatever the tree -/

mutual
theorem levels_tree (dir : String) : ∀ (t : Tree) (lvl : Nat),
    (∀ l ∈ levelsG (Project.tree dir lvl t), lvl + 1 ≤ l)
    ∧ (∀ prev, lvl ≤ prev → wellNested prev (levelsG (Project.tree dir lvl t)) = true)
  | .mk i n cs, lvl => by
    cases n with
    | document k => simpa [Project.tree] using levels_forest dir cs lvl
    | sect xs =>
      obtain ⟨h1, h2⟩ := levels_forest dir cs (lvl + 1)
      simp only [Project.tree, levelsG]
      refine ⟨?_, ?_⟩
      · intro l hl
        rcases List.mem_cons.1 hl with rfl | hl
        · omega
        · have := h1 l hl; omega
      · intro prev hp
        rw [wellNested_cons]
        exact ⟨by omega, by omega, h2 (lvl + 1) (Nat.le_refl _)⟩
    | _ => simp [Project.tree, Project.refPara, levelsG, wellNested]
theorem levels_forest (dir : String) : ∀ (ts : List Tree) (lvl : Nat),
    (∀ l ∈ levelsG (Project.forest dir lvl ts), lvl + 1 ≤ l)
    ∧ (∀ prev, lvl ≤ prev → wellNested prev (levelsG (Project.forest dir lvl ts)) = true)
  | [], lvl => by simp [Project.forest, levelsG, wellNested]
  | t :: ts, lvl => by
    obtain ⟨h1, h2⟩ := levels_tree dir t lvl
    obtain ⟨h3, h4⟩ := levels_forest dir ts lvl
    simp only [Project.forest, levelsG_append]
    refine ⟨?_, ?_⟩
    · intro l hl
      rcases List.mem_append.1 hl with hl | hl
      · exact h1 l hl
      · exact h3 l hl
    · intro prev hp
      exact wellNested_append h4 _ prev hp (h2 prev hp) h1
end

/-! ## levels of a built forest, projected -/

/-- the heading levels the projector emits for a built forest at depth `d` (ids from `b`) -/
abbrev lv (dir : String) (d b : Nat) (f : List BTree) : List Nat :=
  levelsG (Project.forest dir d (forestWithIds id b f))

/-- payloads that the projector renders as one block that is not a heading -/
def plainNode : Node → Bool
  | .sect _ => false
  | .document _ => false
  | _ => true

theorem lv_nil (dir : String) (d b : Nat) : lv dir d b [] = [] := by
  simp [lv, forestWithIds, Project.forest, levelsG]

theorem lv_cons_sect (dir : String) (d b : Nat) (xs : Inlines) (lr : Option LineRange) (cs ts : List BTree) :
    lv dir d b (BTree.mk (.sect xs) lr cs :: ts)
      = (d + 1) :: (lv dir (d + 1) (b + 1) cs ++ lv dir d (b + (1 + Arena.sizes cs)) ts) := by
  simp [lv, forestWithIds, treeWithIds, Project.forest, Project.tree, levelsG, levelsG_append, Arena.size]

theorem lv_cons_plain (dir : String) (d b : Nat) (n : Node) (lr : Option LineRange) (cs ts : List BTree)
    (hn : plainNode n = true) :
    lv dir d b (BTree.mk n lr cs :: ts) = lv dir d (b + (1 + Arena.sizes cs)) ts := by
  cases n <;>
    simp_all [plainNode, lv, forestWithIds, treeWithIds, Project.forest, Project.tree, Project.refPara, levelsG,
      Arena.size]

/-- `block` never builds a section or a document node -/
theorem block_plain (fuel : Nat) (dir : String) (w : Bool) (b : DBlock) (t : BTree)
    (hok : Sections.block fuel dir w b = .ok t) : ∃ n lr cs, t = BTree.mk n lr cs ∧ plainNode n = true := by
  cases fuel with
  | zero => simp [Sections.block] at hok
  | succ fuel =>
    cases b with
    | para lr xs =>
      simp only [Sections.block] at hok
      split at hok <;> (simp at hok; subst hok; exact ⟨_, _, _, rfl, rfl⟩)
    | blist its =>
      simp only [Sections.block] at hok
      split at hok <;> first | (simp at hok; done) | (simp at hok; subst hok; exact ⟨_, _, _, rfl, rfl⟩)
    | olist its =>
      simp only [Sections.block] at hok
      split at hok <;> first | (simp at hok; done) | (simp at hok; subst hok; exact ⟨_, _, _, rfl, rfl⟩)
    | quote lr bs =>
      simp only [Sections.block] at hok
      split at hok <;> first | (simp at hok; done) | (simp at hok; subst hok; exact ⟨_, _, _, rfl, rfl⟩)
    | header lr l xs => simp [Sections.block] at hok
    | _ => simp [Sections.block] at hok; subst hok; exact ⟨_, _, _, rfl, rfl⟩

/-! ## splitting at closing headers -/

theorem levelsD_takeWhile_gt (l : Nat) : ∀ (rest : List DBlock),
    ∀ x ∈ levelsD (rest.takeWhile fun x => !Sections.closes l x), l + 1 ≤ x
  | [] => by simp [levelsD]
  | b :: rest => by
    have ih := levelsD_takeWhile_gt l rest
    rw [List.takeWhile_cons]
    cases b with
    | header lr l' xs =>
      by_cases h : l' ≤ l
      · simp [Sections.closes, Sections.isHeader, Sections.headerLevel, h, levelsD]
      · simp only [Sections.closes, Sections.isHeader, Sections.headerLevel, h, Bool.true_and, decide_false,
          Bool.not_false, if_true, levelsD]
        intro x hx
        rcases List.mem_cons.1 hx with rfl | hx
        · omega
        · exact ih x hx
    | _ => simpa [Sections.closes, Sections.isHeader, levelsD] using ih

theorem dropWhile_closes_cases (l : Nat) : ∀ (rest : List DBlock),
    (rest.dropWhile fun x => !Sections.closes l x) = []
    ∨ ∃ lr l' xs t, (rest.dropWhile fun x => !Sections.closes l x) = DBlock.header lr l' xs :: t ∧ l' ≤ l
  | [] => by simp
  | b :: rest => by
    have ih := dropWhile_closes_cases l rest
    rw [List.dropWhile_cons]
    cases b with
    | header lr l' xs =>
      by_cases h : l' ≤ l
      · right
        exact ⟨lr, l', xs, rest, by simp [Sections.closes, Sections.isHeader, Sections.headerLevel, h], h⟩
      · simpa [Sections.closes, Sections.isHeader, Sections.headerLevel, h] using ih
    | _ => simpa [Sections.closes, Sections.isHeader] using ih

/-! ## well-nested outlines are reproduced -/

/-- at builder fuel `fuel`: a block list whose top-level heading levels are well-nested after `d` and all
deeper than `d` is built into a forest that the projector, at depth `d`, gives exactly those levels -/
def NestSpec (fuel : Nat) : Prop :=
  (∀ dir w bs r d, Sections.blocks fuel dir w bs = .ok r → wellNested d (levelsD bs) = true →
      (∀ x ∈ levelsD bs, d + 1 ≤ x) → ∀ b, lv dir d b r = levelsD bs)
  ∧ (∀ dir w l bs r d, Sections.sects fuel dir w l bs = .ok r → l = d + 1 → wellNested d (levelsD bs) = true →
      (∀ x ∈ levelsD bs, d + 1 ≤ x) → ∀ b, lv dir d b r = levelsD bs)

theorem nest_blocks {fuel : Nat} (ih : NestSpec fuel) (dir : String) (w : Bool) (bs : List DBlock) (r : List BTree)
    (d : Nat) (hok : Sections.blocks (fuel + 1) dir w bs = .ok r) (hw : wellNested d (levelsD bs) = true)
    (hall : ∀ x ∈ levelsD bs, d + 1 ≤ x) (b : Nat) : lv dir d b r = levelsD bs := by
  obtain ⟨ihB, ihS⟩ := ih
  cases bs with
  | nil =>
    simp [Sections.blocks] at hok
    subst hok; simp [lv_nil, levelsD]
  | cons x rest =>
    simp only [Sections.blocks] at hok
    split at hok
    · next hh =>
      refine ihS _ _ _ _ _ d hok ?_ hw hall b
      cases x with
      | header lr l' xs =>
        simp only [levelsD, wellNested_cons] at hw
        have := hall l' (by simp [levelsD])
        simp [Sections.headerLevel]; omega
      | _ => simp [Sections.isHeader] at hh
    · next hh =>
      have hh' : Sections.isHeader x = false := by simpa using hh
      rw [levelsD_cons_not_header hh'] at hw hall ⊢
      cases hb : Sections.block fuel dir w x with
      | error e => simp [hb] at hok
      | ok t =>
        cases hr : Sections.blocks fuel dir w rest with
        | error e => simp [hb, hr] at hok
        | ok ts =>
          simp [hb, hr] at hok
          subst hok
          obtain ⟨n, lr, cs, rfl, hn⟩ := block_plain _ _ _ _ _ hb
          rw [lv_cons_plain _ _ _ _ _ _ _ hn]
          exact ihB _ _ _ _ d hr hw hall _

theorem nest_sects {fuel : Nat} (ih : NestSpec fuel) (dir : String) (w : Bool) (l : Nat) (bs : List DBlock)
    (r : List BTree) (d : Nat) (hok : Sections.sects (fuel + 1) dir w l bs = .ok r) (hl : l = d + 1)
    (hw : wellNested d (levelsD bs) = true) (hall : ∀ x ∈ levelsD bs, d + 1 ≤ x) (b : Nat) :
    lv dir d b r = levelsD bs := by
  obtain ⟨ihB, ihS⟩ := ih
  cases bs with
  | nil =>
    simp [Sections.sects] at hok
    subst hok; simp [lv_nil, levelsD]
  | cons x rest =>
    cases x with
    | header lr l' xs =>
      simp only [Sections.sects] at hok
      cases hb : Sections.blocks fuel dir w (rest.takeWhile fun x => !Sections.closes l x) with
      | error e => simp [hb] at hok
      | ok cs =>
        cases hr : Sections.sects fuel dir w l (rest.dropWhile fun x => !Sections.closes l x) with
        | error e => simp [hb, hr] at hok
        | ok ts =>
          simp [hb, hr] at hok
          subst hok
          simp only [levelsD, wellNested_cons] at hw
          have hl' : l' = d + 1 := by have := hall l' (by simp [levelsD]); omega
          subst hl'
          have hsplit := levelsD_split (fun x => !Sections.closes l x) rest
          have hw2 := hw.2.2
          rw [← hsplit] at hw2
          -- the body
          have hbody := ihB _ _ _ _ (d + 1) hb (wellNested_prefix _ _ _ hw2)
            (by intro x hx; have := levelsD_takeWhile_gt l rest x hx; omega)
          -- the tail
          have htail : ∀ b, lv dir d b ts = levelsD (rest.dropWhile fun x => !Sections.closes l x) := by
            refine ihS _ _ _ _ _ d hr hl ?_ ?_
            · rcases dropWhile_closes_cases l rest with h | ⟨lr2, l2, xs2, t, h, hle⟩
              · simp [h, levelsD, wellNested]
              · rw [h, levelsD] at hw2 ⊢
                obtain ⟨h1, h2⟩ := wellNested_suffix _ _ _ _ hw2
                rw [wellNested_cons]
                exact ⟨h1, by omega, h2⟩
            · intro x hx
              exact hall x (by rw [levelsD, ← hsplit]; simp [hx])
          rw [lv_cons_sect, hbody, htail, levelsD, ← hsplit]
    | _ => simp [Sections.sects] at hok

theorem nestSpec : ∀ fuel, NestSpec fuel
  | 0 => by constructor <;> intros <;> simp_all [Sections.blocks, Sections.sects]
  | fuel + 1 =>
    have ih := nestSpec fuel
    ⟨nest_blocks ih, nest_sects ih⟩

/-! ## the number of headings is kept -/

def CountSpec (fuel : Nat) : Prop :=
  (∀ dir w bs r, Sections.blocks fuel dir w bs = .ok r →
      ∀ d b, (lv dir d b r).length = (levelsD bs).length)
  ∧ (∀ dir w l bs r, Sections.sects fuel dir w l bs = .ok r →
      ∀ d b, (lv dir d b r).length = (levelsD bs).length)

theorem count_blocks {fuel : Nat} (ih : CountSpec fuel) (dir : String) (w : Bool) (bs : List DBlock) (r : List BTree)
    (hok : Sections.blocks (fuel + 1) dir w bs = .ok r) (d b : Nat) :
    (lv dir d b r).length = (levelsD bs).length := by
  obtain ⟨ihB, ihS⟩ := ih
  cases bs with
  | nil =>
    simp [Sections.blocks] at hok
    subst hok; simp [lv_nil, levelsD]
  | cons x rest =>
    simp only [Sections.blocks] at hok
    split at hok
    · exact ihS _ _ _ _ _ hok d b
    · next hh =>
      have hh' : Sections.isHeader x = false := by simpa using hh
      rw [levelsD_cons_not_header hh']
      cases hb : Sections.block fuel dir w x with
      | error e => simp [hb] at hok
      | ok t =>
        cases hr : Sections.blocks fuel dir w rest with
        | error e => simp [hb, hr] at hok
        | ok ts =>
          simp [hb, hr] at hok
          subst hok
          obtain ⟨n, lr, cs, rfl, hn⟩ := block_plain _ _ _ _ _ hb
          rw [lv_cons_plain _ _ _ _ _ _ _ hn]
          exact ihB _ _ _ _ hr d _

theorem count_sects {fuel : Nat} (ih : CountSpec fuel) (dir : String) (w : Bool) (l : Nat) (bs : List DBlock)
    (r : List BTree) (hok : Sections.sects (fuel + 1) dir w l bs = .ok r) (d b : Nat) :
    (lv dir d b r).length = (levelsD bs).length := by
  obtain ⟨ihB, ihS⟩ := ih
  cases bs with
  | nil =>
    simp [Sections.sects] at hok
    subst hok; simp [lv_nil, levelsD]
  | cons x rest =>
    cases x with
    | header lr l' xs =>
      simp only [Sections.sects] at hok
      cases hb : Sections.blocks fuel dir w (rest.takeWhile fun x => !Sections.closes l x) with
      | error e => simp [hb] at hok
      | ok cs =>
        cases hr : Sections.sects fuel dir w l (rest.dropWhile fun x => !Sections.closes l x) with
        | error e => simp [hb, hr] at hok
        | ok ts =>
          simp [hb, hr] at hok
          subst hok
          have hsplit := levelsD_split (fun x => !Sections.closes l x) rest
          rw [lv_cons_sect, levelsD, ← hsplit]
          simp only [List.length_cons, List.length_append]
          rw [ihB _ _ _ _ hb, ihS _ _ _ _ _ hr]
    | _ => simp [Sections.sects] at hok

theorem countSpec : ∀ fuel, CountSpec fuel
  | 0 => by constructor <;> intros <;> simp_all [Sections.blocks, Sections.sects]
  | fuel + 1 =>
    have ih := countSpec fuel
    ⟨count_blocks ih, count_sects ih⟩

end Outline
end Iwe
