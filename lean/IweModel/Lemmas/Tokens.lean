/- helper lemmas for C01 (content tokens) -/
import IweModel.Spec.Tokens
import IweModel.Lemmas.ArenaWalk

namespace Iwe
namespace Tok

/-! ## append lemmas -/

theorem ofDs_append (dir : String) : ∀ (a b : List DBlock), ofDs dir (a ++ b) = ofDs dir a ++ ofDs dir b
  | [], b => by simp [ofDs]
  | x :: a, b => by simp [ofDs, ofDs_append dir a b]

theorem ofBs_append (rt : RefTok) : ∀ (a b : List BTree), ofBs rt (a ++ b) = ofBs rt a ++ ofBs rt b
  | [], b => by simp [ofBs]
  | x :: a, b => by simp [ofBs, ofBs_append rt a b]

theorem ofBItems_append (rt : RefTok) : ∀ (a b : List BTree), ofBItems rt (a ++ b) = ofBItems rt a ++ ofBItems rt b
  | [], b => by simp [ofBItems]
  | .mk n lr cs :: a, b => by simp [ofBItems, ofBItems_append rt a b]

theorem ofGs_append : ∀ (a b : List GBlock), ofGs (a ++ b) = ofGs a ++ ofGs b
  | [], b => by simp [ofGs]
  | x :: a, b => by simp [ofGs, ofGs_append a b]

theorem ofItems_cons (dir : String) (it : List DBlock) (its : List (List DBlock)) :
    ofItems dir (it :: its) = ofItems dir [it] ++ ofItems dir its := by
  cases it <;> simp [ofItems]

theorem itemsOkL_append : ∀ (a b : List DBlock), itemsOkL (a ++ b) = (itemsOkL a && itemsOkL b)
  | [], b => by simp [itemsOkL]
  | x :: a, b => by simp [itemsOkL, itemsOkL_append a b, Bool.and_assoc]

theorem itemsOkI_cons (it : List DBlock) (its : List (List DBlock)) :
    itemsOkI (it :: its) = (itemsOkI [it] && itemsOkI its) := by
  cases it <;> simp [itemsOkI]

theorem listsNonEmptyL_append : ∀ (a b : List DBlock),
    listsNonEmptyL (a ++ b) = (listsNonEmptyL a && listsNonEmptyL b)
  | [], b => by simp [listsNonEmptyL]
  | x :: a, b => by simp [listsNonEmptyL, listsNonEmptyL_append a b, Bool.and_assoc]

theorem itemsOkL_split (p : DBlock → Bool) (bs : List DBlock) (h : itemsOkL bs = true) :
    itemsOkL (bs.takeWhile p) = true ∧ itemsOkL (bs.dropWhile p) = true := by
  have := itemsOkL_append (bs.takeWhile p) (bs.dropWhile p)
  rw [List.takeWhile_append_dropWhile, h] at this
  simpa using this.symm

theorem listsNonEmptyL_split (p : DBlock → Bool) (bs : List DBlock) (h : listsNonEmptyL bs = true) :
    listsNonEmptyL (bs.takeWhile p) = true ∧ listsNonEmptyL (bs.dropWhile p) = true := by
  have := listsNonEmptyL_append (bs.takeWhile p) (bs.dropWhile p)
  rw [List.takeWhile_append_dropWhile, h] at this
  simpa using this.symm

theorem ofDs_split (dir : String) (p : DBlock → Bool) (bs : List DBlock) :
    ofDs dir (bs.takeWhile p) ++ ofDs dir (bs.dropWhile p) = ofDs dir bs := by
  rw [← ofDs_append, List.takeWhile_append_dropWhile]

/-! ## the section builder keeps the tokens -/

/-- the token statement for the five mutually recursive builder functions at one fuel value -/
def TokSpec (fuel : Nat) : Prop :=
  (∀ dir w bs r, Sections.blocks fuel dir w bs = .ok r → itemsOkL bs = true →
      ofBs Tok.ref r = ofDs dir bs)
  ∧ (∀ dir w l bs r, Sections.sects fuel dir w l bs = .ok r → itemsOkL bs = true →
      ofBs Tok.ref r = ofDs dir bs)
  ∧ (∀ dir w b t, Sections.block fuel dir w b = .ok t → itemsOk b = true →
      ofB Tok.ref t = ofD dir b)
  ∧ (∀ dir w it r, Sections.item fuel dir w it = .ok r → itemsOkI [it] = true →
      ofBItems Tok.ref r = ofItems dir [it])
  ∧ (∀ dir w its r, Sections.items fuel dir w its = .ok r → itemsOkI its = true →
      ofBItems Tok.ref r = ofItems dir its)

theorem tokSpec_zero : TokSpec 0 := by
  refine ⟨?_, ?_, ?_, ?_, ?_⟩ <;> intros <;> simp_all [Sections.blocks, Sections.sects, Sections.block, Sections.item, Sections.items]

theorem tok_blocks {fuel : Nat} (ih : TokSpec fuel) (dir : String) (w : Bool) (bs : List DBlock) (r : List BTree)
    (hok : Sections.blocks (fuel + 1) dir w bs = .ok r) (hi : itemsOkL bs = true) :
    ofBs Tok.ref r = ofDs dir bs := by
  obtain ⟨ihB, ihS, ihb, _, _⟩ := ih
  cases bs with
  | nil =>
    simp [Sections.blocks] at hok
    subst hok; simp [ofBs, ofDs]
  | cons b rest =>
    simp only [Sections.blocks] at hok
    split at hok
    · exact ihS _ _ _ _ _ hok hi
    · simp only [itemsOkL, Bool.and_eq_true] at hi
      cases hb : Sections.block fuel dir w b with
      | error e => simp [hb] at hok
      | ok t =>
        cases hr : Sections.blocks fuel dir w rest with
        | error e => simp [hb, hr] at hok
        | ok ts =>
          simp [hb, hr] at hok
          subst hok
          simp [ofBs, ofDs, ihb _ _ _ _ hb hi.1, ihB _ _ _ _ hr hi.2]

theorem tok_sects {fuel : Nat} (ih : TokSpec fuel) (dir : String) (w : Bool) (l : Nat) (bs : List DBlock) (r : List BTree)
    (hok : Sections.sects (fuel + 1) dir w l bs = .ok r) (hi : itemsOkL bs = true) :
    ofBs Tok.ref r = ofDs dir bs := by
  obtain ⟨ihB, ihS, _, _, _⟩ := ih
  cases bs with
  | nil =>
    simp [Sections.sects] at hok
    subst hok; simp [ofBs, ofDs]
  | cons b rest =>
    simp only [itemsOkL, Bool.and_eq_true] at hi
    obtain ⟨h1, h2⟩ := itemsOkL_split (fun x => !Sections.closes l x) rest hi.2
    cases b with
    | header lr l' xs =>
      simp only [Sections.sects] at hok
      cases hb : Sections.blocks fuel dir w (rest.takeWhile fun x => !Sections.closes l x) with
      | error e => simp [hb] at hok
      | ok cs =>
        cases hr : Sections.sects fuel dir w l (rest.dropWhile fun x => !Sections.closes l x) with
        | error e => simp [hb, hr] at hok
        | ok ts =>
          simp [hb, hr] at hok
          subst hok
          simp [ofBs, ofB, ofDs, ofD, ihB _ _ _ _ hb h1, ihS _ _ _ _ _ hr h2, ofDs_split]
    | _ => simp [Sections.sects] at hok

theorem tok_block {fuel : Nat} (ih : TokSpec fuel) (dir : String) (w : Bool) (b : DBlock) (t : BTree)
    (hok : Sections.block (fuel + 1) dir w b = .ok t) (hi : itemsOk b = true) :
    ofB Tok.ref t = ofD dir b := by
  obtain ⟨ihB, _, _, _, ihI⟩ := ih
  cases b with
  | code lr lang text => simp [Sections.block] at hok; subst hok; simp [ofB, ofD]
  | para lr xs =>
    simp only [Sections.block] at hok
    cases hp : Sections.paraRef xs with
    | none => simp [hp] at hok; subst hok; simp [ofB, ofD, hp]
    | some v =>
      obtain ⟨url, text, ty⟩ := v
      simp [hp] at hok; subst hok; simp [ofB, ofD, hp]
  | blist its =>
    simp only [Sections.block] at hok
    simp only [itemsOk] at hi
    cases hr : Sections.items fuel dir w its with
    | error e => simp [hr] at hok
    | ok cs =>
      cases cs with
      | nil => simp [hr] at hok
      | cons c cs =>
        simp [hr] at hok; subst hok
        simp [ofB, ofD, ihI _ _ _ _ hr hi]
  | olist its =>
    simp only [Sections.block] at hok
    simp only [itemsOk] at hi
    cases hr : Sections.items fuel dir w its with
    | error e => simp [hr] at hok
    | ok cs =>
      cases cs with
      | nil => simp [hr] at hok
      | cons c cs =>
        simp [hr] at hok; subst hok
        simp [ofB, ofD, ihI _ _ _ _ hr hi]
  | quote lr bs =>
    simp only [Sections.block] at hok
    simp only [itemsOk] at hi
    cases hr : Sections.blocks fuel dir false bs with
    | error e => simp [hr] at hok
    | ok cs =>
      simp [hr] at hok; subst hok
      simp [ofB, ofD, ihB _ _ _ _ hr hi]
  | rule lr => simp [Sections.block] at hok; subst hok; simp [ofB, ofD]
  | header lr l xs => simp [Sections.block] at hok
  | table lr h al rows => simp [Sections.block] at hok; subst hok; simp [ofB, ofD]

theorem tok_item {fuel : Nat} (ih : TokSpec fuel) (dir : String) (w : Bool) (it : List DBlock) (r : List BTree)
    (hok : Sections.item (fuel + 1) dir w it = .ok r) (hi : itemsOkI [it] = true) :
    ofBItems Tok.ref r = ofItems dir [it] := by
  obtain ⟨ihB, _, _, _, _⟩ := ih
  cases it with
  | nil => simp [Sections.item] at hok; subst hok; simp [ofBItems, ofItems]
  | cons b rest =>
    cases b with
    | para lr xs =>
      simp only [Sections.item] at hok
      simp [itemsOkI] at hi
      cases hr : Sections.blocks fuel dir w rest with
      | error e => simp [hr] at hok
      | ok cs =>
        simp [hr] at hok; subst hok
        simp [ofBItems, ofItems, itemHead, Project.nodeInlines, ihB _ _ _ _ hr hi]
    | header lr l xs =>
      simp only [Sections.item] at hok
      simp [itemsOkI] at hi
      cases hr : Sections.blocks fuel dir w rest with
      | error e => simp [hr] at hok
      | ok cs =>
        simp [hr] at hok; subst hok
        simp [ofBItems, ofItems, itemHead, Project.nodeInlines, ihB _ _ _ _ hr hi]
    | _ => simp [itemsOkI] at hi

theorem tok_items {fuel : Nat} (ih : TokSpec fuel) (dir : String) (w : Bool) (its : List (List DBlock)) (r : List BTree)
    (hok : Sections.items (fuel + 1) dir w its = .ok r) (hi : itemsOkI its = true) :
    ofBItems Tok.ref r = ofItems dir its := by
  obtain ⟨_, _, _, ihi, ihI⟩ := ih
  cases its with
  | nil => simp [Sections.items] at hok; subst hok; simp [ofBItems, ofItems]
  | cons it its =>
    simp only [Sections.items] at hok
    rw [itemsOkI_cons, Bool.and_eq_true] at hi
    cases hr : Sections.item fuel dir w it with
    | error e => simp [hr] at hok
    | ok ts =>
      cases hs : Sections.items fuel dir w its with
      | error e => simp [hr, hs] at hok
      | ok us =>
        simp [hr, hs] at hok; subst hok
        rw [ofBItems_append, ofItems_cons, ihi _ _ _ _ hr hi.1, ihI _ _ _ _ hs hi.2]

theorem tokSpec : ∀ fuel, TokSpec fuel
  | 0 => tokSpec_zero
  | fuel + 1 =>
    have ih := tokSpec fuel
    ⟨tok_blocks ih, tok_sects ih, tok_block ih, tok_item ih, tok_items ih⟩

end Tok

/-! ## the section builder is total on the well-formed class -/
namespace Sections
open Tok

theorem dsizes_pos : ∀ (bs : List DBlock), 1 ≤ dsizes bs
  | [] => by simp [dsizes]
  | b :: bs => by simp [dsizes]; omega

theorem dsizes_append : ∀ (a b : List DBlock), dsizes (a ++ b) + 1 = dsizes a + dsizes b
  | [], b => by simp [dsizes]; omega
  | x :: a, b => by have := dsizes_append a b; simp [dsizes]; omega

theorem dsizes_split (p : DBlock → Bool) (bs : List DBlock) :
    dsizes (bs.takeWhile p) ≤ dsizes bs ∧ dsizes (bs.dropWhile p) ≤ dsizes bs := by
  have h := dsizes_append (bs.takeWhile p) (bs.dropWhile p)
  rw [List.takeWhile_append_dropWhile] at h
  have h1 := dsizes_pos (bs.takeWhile p)
  have h2 := dsizes_pos (bs.dropWhile p)
  omega

/-- the list is empty or starts with a header -/
def HeadIsHeader (bs : List DBlock) : Prop := ∀ b ∈ bs.head?, isHeader b = true

theorem headIsHeader_dropWhile (l : Nat) : ∀ (rest : List DBlock),
    HeadIsHeader (rest.dropWhile fun x => !closes l x)
  | [] => by simp [HeadIsHeader]
  | x :: rest => by
    rw [List.dropWhile_cons]
    by_cases h : closes l x = true
    · simp only [h, Bool.not_true]
      intro b hb
      simp at hb; subst hb
      simp [closes] at h; exact h.1
    · simp only [h, Bool.not_false]
      exact headIsHeader_dropWhile l rest

/-- enough fuel and a well-formed input: the five builder functions succeed -/
def TotSpec (fuel : Nat) : Prop :=
  (∀ dir w bs, 2 * dsizes bs ≤ fuel → itemsOkL bs = true → listsNonEmptyL bs = true →
      ∃ r, blocks fuel dir w bs = .ok r)
  ∧ (∀ dir w l bs, 2 * dsizes bs ≤ fuel + 1 → itemsOkL bs = true → listsNonEmptyL bs = true →
      HeadIsHeader bs → ∃ r, sects fuel dir w l bs = .ok r)
  ∧ (∀ dir w b, 2 * dsize b ≤ fuel → itemsOk b = true → listsNonEmpty b = true → isHeader b = false →
      ∃ t, block fuel dir w b = .ok t)
  ∧ (∀ dir w it, 2 * dsizes it ≤ fuel → itemsOkI [it] = true → listsNonEmptyL it = true →
      ∃ r, item fuel dir w it = .ok r ∧ (it ≠ [] → r ≠ []))
  ∧ (∀ dir w its, 2 * dsizess its ≤ fuel → itemsOkI its = true → listsNonEmptyI its = true →
      ∃ r, items fuel dir w its = .ok r ∧ (its.any (fun it => !it.isEmpty) = true → r ≠ []))

theorem totSpec_zero : TotSpec 0 := by
  refine ⟨?_, ?_, ?_, ?_, ?_⟩
  · intro dir w bs h; have := dsizes_pos bs; omega
  · intro dir w l bs h; have := dsizes_pos bs; omega
  · intro dir w b h; cases b <;> simp only [dsize] at h <;> omega
  · intro dir w it h; have := dsizes_pos it; omega
  · intro dir w its h; cases its <;> simp only [dsizess] at h <;> omega

theorem tot_blocks {fuel : Nat} (ih : TotSpec fuel) (dir : String) (w : Bool) (bs : List DBlock)
    (hf : 2 * dsizes bs ≤ fuel + 1) (hi : itemsOkL bs = true) (hl : listsNonEmptyL bs = true) :
    ∃ r, blocks (fuel + 1) dir w bs = .ok r := by
  obtain ⟨ihB, ihS, ihb, _, _⟩ := ih
  cases bs with
  | nil => simp [blocks]
  | cons b rest =>
    simp only [blocks]
    split
    · next hh =>
      exact ihS dir w _ _ hf hi hl (by intro x hx; simp at hx; subst hx; exact hh)
    · next hh =>
      simp only [itemsOkL, listsNonEmptyL, Bool.and_eq_true] at hi hl
      simp only [dsizes] at hf
      have := dsizes_pos rest
      obtain ⟨t, ht⟩ := ihb dir w b (by omega) hi.1 hl.1 (by simpa using hh)
      obtain ⟨ts, hts⟩ := ihB dir w rest (by omega) hi.2 hl.2
      simp [ht, hts]

theorem tot_sects {fuel : Nat} (ih : TotSpec fuel) (dir : String) (w : Bool) (l : Nat) (bs : List DBlock)
    (hf : 2 * dsizes bs ≤ fuel + 2) (hi : itemsOkL bs = true) (hl : listsNonEmptyL bs = true)
    (hh : HeadIsHeader bs) : ∃ r, sects (fuel + 1) dir w l bs = .ok r := by
  obtain ⟨ihB, ihS, _, _, _⟩ := ih
  cases bs with
  | nil => simp [sects]
  | cons b rest =>
    simp only [itemsOkL, listsNonEmptyL, Bool.and_eq_true] at hi hl
    obtain ⟨i1, i2⟩ := itemsOkL_split (fun x => !closes l x) rest hi.2
    obtain ⟨l1, l2⟩ := listsNonEmptyL_split (fun x => !closes l x) rest hl.2
    obtain ⟨s1, s2⟩ := dsizes_split (fun x => !closes l x) rest
    have hb := hh b (by simp)
    cases b with
    | header lr l' xs =>
      simp only [dsizes, dsize] at hf
      simp only [sects]
      obtain ⟨cs, hcs⟩ := ihB dir w _ (by omega) i1 l1
      obtain ⟨ts, hts⟩ := ihS dir w l _ (by omega) i2 l2 (headIsHeader_dropWhile l rest)
      simp [hcs, hts]
    | _ => simp [isHeader] at hb

theorem tot_block {fuel : Nat} (ih : TotSpec fuel) (dir : String) (w : Bool) (b : DBlock)
    (hf : 2 * dsize b ≤ fuel + 1) (hi : itemsOk b = true) (hl : listsNonEmpty b = true)
    (hh : isHeader b = false) : ∃ t, block (fuel + 1) dir w b = .ok t := by
  obtain ⟨ihB, _, _, _, ihI⟩ := ih
  cases b with
  | code lr lang text => simp [block]
  | para lr xs =>
    simp only [block]
    cases hp : paraRef xs with
    | none => simp
    | some v => obtain ⟨url, text, ty⟩ := v; simp
  | blist its =>
    simp only [block]
    simp only [itemsOk] at hi
    simp only [listsNonEmpty, Bool.and_eq_true] at hl
    simp only [dsize] at hf
    obtain ⟨r, hr, hne⟩ := ihI dir w its (by omega) hi hl.2
    cases r with
    | nil => exact absurd rfl (hne hl.1)
    | cons c cs => simp [hr]
  | olist its =>
    simp only [block]
    simp only [itemsOk] at hi
    simp only [listsNonEmpty, Bool.and_eq_true] at hl
    simp only [dsize] at hf
    obtain ⟨r, hr, hne⟩ := ihI dir w its (by omega) hi hl.2
    cases r with
    | nil => exact absurd rfl (hne hl.1)
    | cons c cs => simp [hr]
  | quote lr bs =>
    simp only [block]
    simp only [itemsOk] at hi
    simp only [listsNonEmpty] at hl
    simp only [dsize] at hf
    obtain ⟨r, hr⟩ := ihB dir false bs (by omega) hi hl
    simp [hr]
  | rule lr => simp [block]
  | header lr l xs => simp [isHeader] at hh
  | table lr h al rows => simp [block]

theorem tot_item {fuel : Nat} (ih : TotSpec fuel) (dir : String) (w : Bool) (it : List DBlock)
    (hf : 2 * dsizes it ≤ fuel + 1) (hi : itemsOkI [it] = true) (hl : listsNonEmptyL it = true) :
    ∃ r, item (fuel + 1) dir w it = .ok r ∧ (it ≠ [] → r ≠ []) := by
  obtain ⟨ihB, _, _, _, _⟩ := ih
  cases it with
  | nil => simp [item]
  | cons b rest =>
    simp only [listsNonEmptyL, Bool.and_eq_true] at hl
    simp only [dsizes] at hf
    cases b with
    | para lr xs =>
      simp [itemsOkI] at hi
      obtain ⟨cs, hcs⟩ := ihB dir w rest (by omega) hi hl.2
      simp [item, hcs]
    | header lr l xs =>
      simp [itemsOkI] at hi
      obtain ⟨cs, hcs⟩ := ihB dir w rest (by omega) hi hl.2
      simp [item, hcs]
    | _ => simp [itemsOkI] at hi

theorem tot_items {fuel : Nat} (ih : TotSpec fuel) (dir : String) (w : Bool) (its : List (List DBlock))
    (hf : 2 * dsizess its ≤ fuel + 1) (hi : itemsOkI its = true) (hl : listsNonEmptyI its = true) :
    ∃ r, items (fuel + 1) dir w its = .ok r ∧ (its.any (fun it => !it.isEmpty) = true → r ≠ []) := by
  obtain ⟨_, _, _, ihi, ihI⟩ := ih
  cases its with
  | nil => simp [items]
  | cons it its =>
    rw [itemsOkI_cons, Bool.and_eq_true] at hi
    simp only [listsNonEmptyI, Bool.and_eq_true] at hl
    simp only [dsizess] at hf
    obtain ⟨ts, hts, hne1⟩ := ihi dir w it (by omega) hi.1 hl.1
    obtain ⟨us, hus, hne2⟩ := ihI dir w its (by omega) hi.2 hl.2
    refine ⟨ts ++ us, by simp [items, hts, hus], ?_⟩
    intro hany
    simp only [List.any_cons, Bool.or_eq_true] at hany
    rcases hany with h | h
    · have := hne1 (by intro h'; simp [h'] at h)
      simp [this]
    · have := hne2 h
      simp [this]

theorem totSpec : ∀ fuel, TotSpec fuel
  | 0 => totSpec_zero
  | fuel + 1 =>
    have ih := totSpec fuel
    ⟨tot_blocks ih, fun dir w l bs h => tot_sects ih dir w l bs (by omega), tot_block ih, tot_item ih, tot_items ih⟩

end Sections

/-! ## the projector keeps the tokens -/
namespace Tok

mutual
theorem project_tree (dir : String) : ∀ (t : BTree) (lvl b : Nat),
    ofGs (Project.tree dir lvl (treeWithIds id b t)) = ofB (refAsPara dir) t
  | .mk n lr cs, lvl, b => by
    cases n with
    | document k => simp [treeWithIds, Project.tree, ofB, project_forest dir cs]
    | sect xs => simp [treeWithIds, Project.tree, ofB, ofGs, ofG, project_forest dir cs]
    | quote => simp [treeWithIds, Project.tree, ofB, ofGs, ofG, project_forest dir cs]
    | blist => simp [treeWithIds, Project.tree, ofB, ofGs, ofG, project_items dir cs]
    | olist => simp [treeWithIds, Project.tree, ofB, ofGs, ofG, project_items dir cs]
    | leaf xs => simp [treeWithIds, Project.tree, ofB, ofGs, ofG]
    | raw l c => simp [treeWithIds, Project.tree, ofB, ofGs, ofG]
    | rule => simp [treeWithIds, Project.tree, ofB, ofGs, ofG]
    | ref k t ty =>
      cases ty <;> simp [treeWithIds, Project.tree, ofB, ofGs, ofG, Project.refPara, refAsPara]
    | table h a r => simp [treeWithIds, Project.tree, ofB, ofGs, ofG]
theorem project_forest (dir : String) : ∀ (ts : List BTree) (lvl b : Nat),
    ofGs (Project.forest dir lvl (forestWithIds id b ts)) = ofBs (refAsPara dir) ts
  | [], lvl, b => by simp [forestWithIds, Project.forest, ofGs, ofBs]
  | t :: ts, lvl, b => by
    simp [forestWithIds, Project.forest, ofGs_append, ofBs, project_tree dir t, project_forest dir ts]
theorem project_items (dir : String) : ∀ (ts : List BTree) (b : Nat),
    ofGItems (Project.items dir (forestWithIds id b ts)) = ofBItems (refAsPara dir) ts
  | [], b => by simp [forestWithIds, Project.items, ofGItems, ofBItems]
  | .mk n lr cs :: ts, b => by
    simp only [forestWithIds, treeWithIds, Project.items, ofGItems, ofBItems, id]
    rw [project_items dir ts]
    split <;> simp [ofGs, ofG, project_forest dir cs]
end

end Tok
end Iwe
