/-
The reader keeps the outline: the levels of the top-level headings of the blocks it returns are the levels of the
heading events the parser reported at top level, in order (`Outline.levelsEv`, `Spec/Flat.lean`).
Only the "a block starts at top level iff the reader's stack is empty" step needs the frame ↔ state relation of
`ReaderTotal`; everything else is that no reader operation changes what kind of block an open block is.
-/
import IweModel.Lemmas.ReaderTotal
import IweModel.Spec.Flat
import IweModel.Spec.Tokens

namespace Iwe
namespace ReaderOutline
open Reader Events ReaderTotal Outline

/-- the level of a heading block -/
def hl : DBlock → Option Nat
  | .header _ l _ => some l
  | _ => none

theorem levelsD_append (xs ys : List DBlock) : levelsD (xs ++ ys) = levelsD xs ++ levelsD ys := by
  induction xs with
  | nil => rfl
  | cons x xs ih => cases x <;> simp [levelsD, ih]

theorem levelsD_single (b : DBlock) : levelsD [b] = (hl b).toList := by
  cases b <;> simp [levelsD, hl]

/-- the outermost open block -/
def bottom : List DBlock → List Nat
  | [] => []
  | [b] => (hl b).toList
  | _ :: b2 :: rest => bottom (b2 :: rest)

/-- headings delivered so far, then the open top-level heading (if the outermost open block is one) -/
def lv (st : St) : List Nat := levelsD st.blocks ++ bottom st.stack

theorem bottom_top (b b' : DBlock) (rest : List DBlock) (h : hl b' = hl b) : bottom (b' :: rest) = bottom (b :: rest) := by
  cases rest <;> simp [bottom, h]

theorem lv_setTop (st : St) (b b' : DBlock) (rest : List DBlock) (hs : st.stack = b :: rest) (h : hl b' = hl b) :
    lv (setTop st b') = lv st := by
  simp [lv, setTop, hs, bottom_top b b' rest h]

theorem lv_push (st : St) (b : DBlock) :
    lv (pushBlock st b) = lv st ++ (if st.stack = [] then (hl b).toList else []) := by
  obtain ⟨inl, stk, blocks, mb, md⟩ := st
  cases stk with
  | nil => simp [lv, pushBlock, bottom]
  | cons x xs => simp [lv, pushBlock, bottom]

/-! ### no operation changes the kind of an open block -/

theorem appendToItems_ne (i : Inline) (pos : LineRange) : ∀ its its', appendToItems its i pos = .ok its' → True := by
  intros; trivial

theorem appendInline_hl {b b' : DBlock} {i : Inline} {pos : LineRange} (h : appendInline b i pos = .ok b') : hl b' = hl b := by
  cases b with
  | para lr xs => simp [appendInline] at h; subst h; rfl
  | header lr l xs => simp [appendInline] at h; subst h; rfl
  | code lr l t => simp [appendInline] at h; subst h; rfl
  | rule lr => simp [appendInline] at h; subst h; rfl
  | quote lr bs =>
    simp only [appendInline] at h
    split at h
    · simp at h
    · simp only [Except.ok.injEq] at h; subst h; rfl
  | blist items =>
    simp only [appendInline] at h
    split at h
    · simp at h
    · simp only [Except.ok.injEq] at h; subst h; rfl
  | olist items =>
    simp only [appendInline] at h
    split at h
    · simp at h
    · simp only [Except.ok.injEq] at h; subst h; rfl
  | table lr hd al rows =>
    cases rows with
    | nil =>
      simp only [appendInline] at h
      split at h <;> (simp only [Except.ok.injEq] at h; subst h; rfl)
    | cons r rs =>
      simp only [appendInline] at h
      split at h <;> (simp only [Except.ok.injEq] at h; subst h; rfl)

theorem appendBlock_hl {t b t' : DBlock} (h : appendBlock t b = .ok t') : hl t' = hl t := by
  cases t <;> simp only [appendBlock] at h
  · simp at h
  · simp at h
  · simp at h
  · simp only [Except.ok.injEq] at h; subst h; rfl
  · split at h
    · simp at h
    · simp only [Except.ok.injEq] at h; subst h; rfl
  · split at h
    · simp at h
    · simp only [Except.ok.injEq] at h; subst h; rfl
  · simp at h
  · simp at h

theorem appendItem_hl {b b' : DBlock} (h : appendItem b = .ok b') : hl b' = hl b := by
  cases b <;> simp [appendItem] at h <;> (subst h; rfl)

theorem appendRow_hl {b b' : DBlock} (h : appendRow b = .ok b') : hl b' = hl b := by
  cases b <;> simp [appendRow] at h <;> (subst h; rfl)

theorem appendCell_hl {b b' : DBlock} (h : appendCell b = .ok b') : hl b' = hl b := by
  cases b with
  | table lr hd al rows => cases rows <;> simp [appendCell] at h <;> (subst h; rfl)
  | _ => simp [appendCell] at h

theorem isContainer_hl {t : DBlock} (h : isContainer t = true) : hl t = none := by
  cases t <;> simp [isContainer] at h <;> rfl

theorem popBlock_lv {st st' : St} (h : popBlock st = .ok st') : lv st' = lv st := by
  obtain ⟨inl, stk, blocks, mb, md⟩ := st
  match stk, h with
  | [], h => simp [popBlock] at h
  | [b], h =>
    simp only [popBlock, Except.ok.injEq] at h
    subst h
    simp [lv, bottom, levelsD_append, levelsD_single]
  | b :: t :: rest, h =>
    simp only [popBlock] at h
    split at h
    · rename_i hc
      split at h
      · simp at h
      · rename_i t' ht
        simp only [Except.ok.injEq] at h
        subst h
        simp only [lv, bottom]
        rw [bottom_top t t' rest (appendBlock_hl ht)]
    · simp only [Except.ok.injEq] at h
      subst h
      simp [lv, bottom]

theorem emit_lv {st st' : St} {i : Inline} {pos : LineRange} (h : emit st i pos = .ok st') : lv st' = lv st := by
  obtain ⟨inl, stk, blocks, mb, md⟩ := st
  cases inl with
  | nil =>
    cases stk with
    | nil => simp [emit, top] at h
    | cons b rest =>
      simp only [emit, top] at h
      split at h
      · simp at h
      · rename_i b' hb
        simp only [Except.ok.injEq] at h
        subst h
        exact lv_setTop _ b b' rest rfl (appendInline_hl hb)
  | cons o rest =>
    simp only [emit, Except.ok.injEq] at h
    subst h
    rfl

/-- a block may start: the reader's stack is empty exactly at the top level -/
theorem stack_nil_iff {fs : List Frame} {st : St} (hrel : Rel fs st) (ha : blockAllowed fs = true) :
    st.stack = [] ↔ fs = [] := by
  rcases blockAllowed_cases ha hrel.ok with rfl | ⟨r', rfl⟩ | ⟨r', rfl⟩
  · have := hrel.blocks
    simp only [BlockRel] at this
    simp [this]
  · obtain ⟨b, rest, hs, _⟩ := (BlockRel_block (f := .quote) rfl).1 hrel.blocks
    simp [hs]
  · have hb2 : BlockRel (.list true :: r') st.stack := by simpa [BlockRel, isBlock] using hrel.blocks
    obtain ⟨b, rest, hs, _⟩ := (BlockRel_block rfl).1 hb2
    simp [hs]

local macro "inv_step " h:ident : tactic =>
  `(tactic| (simp only [Events.step] at $h:ident; split at $h:ident <;> simp at $h:ident; subst $h:ident))

/-- one event -/
theorem step_levels (content : Position.Bytes) {fs fs' : List Frame} {st st' : St} (ev : Ev)
    (hrel : Rel fs st) (hstep : Events.step fs ev = some fs') (h : Reader.step content st ev = .ok st') :
    lv st' = lv st ++ topHeading ev fs := by
  have pushed : ∀ b : DBlock, blockAllowed fs = true → hl b = none → lv (pushBlock st b) = lv st := by
    intro b _ hb
    rw [lv_push, hb]
    simp
  have topped : ∀ (f : DBlock → Except Site DBlock), (∀ b b', f b = .ok b' → hl b' = hl b) →
      (match top st with
       | .error e => .error e
       | .ok b => match f b with
         | .error e => .error e
         | .ok b' => .ok (setTop st b')) = Except.ok st' → lv st' = lv st := by
    intro f hf hh
    obtain ⟨inl, stk, blocks, mb, md⟩ := st
    cases stk with
    | nil => simp [top] at hh
    | cons b rest =>
      simp only [top] at hh
      split at hh
      · simp at hh
      · rename_i b' hb
        simp only [Except.ok.injEq] at hh
        subst hh
        exact lv_setTop _ b b' rest rfl (hf b b' hb)
  cases ev with
  | startPara s e =>
    inv_step hstep; rename_i ha
    simp only [Reader.step, Except.ok.injEq] at h; subst h
    rw [pushed _ ha rfl]; cases fs <;> simp [topHeading]
  | startHeading s e l =>
    inv_step hstep; rename_i ha
    simp only [Reader.step, Except.ok.injEq] at h; subst h
    rw [lv_push]
    by_cases hfs : fs = []
    · subst hfs
      simp [(stack_nil_iff hrel ha).2 rfl, hl, topHeading]
    · have : st.stack ≠ [] := fun hs => hfs ((stack_nil_iff hrel ha).1 hs)
      cases fs with
      | nil => exact absurd rfl hfs
      | cons f r => simp [this, topHeading]
  | startQuote s e =>
    inv_step hstep; rename_i ha
    simp only [Reader.step, Except.ok.injEq] at h; subst h
    rw [pushed _ ha rfl]; cases fs <;> simp [topHeading]
  | startCode s e lang =>
    inv_step hstep; rename_i ha
    simp only [Reader.step, Except.ok.injEq] at h; subst h
    rw [pushed _ ha rfl]; cases fs <;> simp [topHeading]
  | startTable s e al =>
    inv_step hstep; rename_i ha
    simp only [Reader.step, Except.ok.injEq] at h; subst h
    rw [pushed _ ha rfl]; cases fs <;> simp [topHeading]
  | startList ordered =>
    inv_step hstep; rename_i ha
    simp only [Reader.step, Except.ok.injEq] at h; subst h
    rw [pushed _ ha (by cases ordered <;> rfl)]; cases fs <;> simp [topHeading]
  | rule s e =>
    inv_step hstep; rename_i ha
    simp only [Reader.step] at h
    rw [popBlock_lv h, pushed _ ha rfl]; cases fs <;> simp [topHeading]
  | startHtml | endHtml | endItem | ignored =>
    simp only [Reader.step, Except.ok.injEq] at h; subst h
    cases fs <;> simp [topHeading]
  | endPara | endHeading | endQuote | endCode | endTable | endList =>
    simp only [Reader.step] at h
    rw [popBlock_lv h]; cases fs <;> simp [topHeading]
  | startMeta | endMeta =>
    simp only [Reader.step, Except.ok.injEq] at h; subst h
    cases fs <;> simp [lv, topHeading]
  | startInline k s e =>
    simp only [Reader.step, Except.ok.injEq] at h; subst h
    cases fs <;> simp [lv, topHeading]
  | endInline =>
    simp only [Reader.step, popInline] at h
    split at h
    · simp at h
    · have := emit_lv h
      rw [this]; cases fs <;> simp [lv, topHeading]
  | code s e t =>
    simp only [Reader.step] at h
    rw [emit_lv h]; cases fs <;> simp [topHeading]
  | math s e t =>
    simp only [Reader.step] at h
    rw [emit_lv h]; cases fs <;> simp [topHeading]
  | inlineHtml s e t =>
    simp only [Reader.step] at h
    rw [emit_lv h]; cases fs <;> simp [topHeading]
  | startItem =>
    simp only [Reader.step] at h
    rw [topped appendItem (fun _ _ => appendItem_hl) h]; cases fs <;> simp [topHeading]
  | startRow =>
    simp only [Reader.step] at h
    rw [topped appendRow (fun _ _ => appendRow_hl) h]; cases fs <;> simp [topHeading]
  | startCell =>
    simp only [Reader.step] at h
    rw [topped appendCell (fun _ _ => appendCell_hl) h]; cases fs <;> simp [topHeading]
  | text s e t =>
    simp only [Reader.step] at h
    split at h
    · simp only [Except.ok.injEq] at h; subst h
      cases fs <;> simp [lv, topHeading]
    · split at h
      · simp at h
      · rename_i l lang txt htop
        simp only [Except.ok.injEq] at h; subst h
        obtain ⟨inl, stk, blocks, mb, md⟩ := st
        cases stk with
        | nil => simp [top] at htop
        | cons b rest =>
          simp only [top, Except.ok.injEq] at htop
          subst htop
          rw [lv_setTop _ (.code l lang txt) (.code l lang (txt ++ t)) rest rfl rfl]; cases fs <;> simp [topHeading]
      · rw [emit_lv h]; cases fs <;> simp [topHeading]

theorem run_levels (content : Position.Bytes) :
    ∀ (evs : List Ev) {fs fs' : List Frame} {st st' : St}, Rel fs st → Events.run fs evs = some fs' →
      Reader.run content st evs = .ok st' → lv st' = lv st ++ levelsEv fs evs
  | [], _, _, st, st', _, _, h => by
    simp only [Reader.run, Except.ok.injEq] at h
    subst h
    simp [levelsEv]
  | ev :: evs, fs, fs', st, st', hrel, hrun, h => by
    simp only [Events.run] at hrun
    split at hrun
    · simp at hrun
    · rename_i fs1 h1
      obtain ⟨st1, hs1, hrel1⟩ := step_pres content ev hrel h1
      simp only [Reader.run, hs1] at h
      have hc := step_levels content ev hrel h1 hs1
      have ih := run_levels content evs hrel1 hrun h
      rw [ih, hc]
      simp only [levelsEv, h1, List.append_assoc]

end ReaderOutline
end Iwe
